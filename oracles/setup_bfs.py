#!/usr/bin/env python3
"""C17: agent upgrade is reversible. Explicit-state BFS over setup-tool command sequences.

Every transition executes the REAL proxy_agent_setup binary (release build of the current tree)
inside the private mount namespace of bin/ns, against the real system locations, with a recording
stand-in for systemctl. State = canonical file tree (which version of each of the four system
files, of each backup file, which package lies beside the tool). A dictionary model written from the
statement predicts the successor state; the headline check (backup; install other version; restore
reinstates the four files byte-identically, mode included) is evaluated from every reachable state.
"""
import json, os, shutil, stat, subprocess, sys, time, hashlib, collections

TARGET = os.environ.get("VERIF_TARGET", "/verif/target")
TOOL_BUILT = os.path.join(TARGET, "repo-build/release/proxy_agent_setup")
TIER = os.environ.get("VERIF_TIER", "quick")
D = "/usr/local/gpa-setup"                       # same mount as /usr/sbin and /usr/lib (hard links would work)
SYS = {
    "exe": "/usr/sbin/azure-proxy-agent",
    "config": "/etc/azure/proxy-agent.json",
    "ebpf": "/usr/lib/azure-proxy-agent/ebpf_cgroup.o",
    "unit": "/usr/lib/systemd/system/azure-proxy-agent.service",
}
BACKUP = {
    "exe": D + "/ProxyAgent/Backup/Package/azure-proxy-agent",
    "config": D + "/ProxyAgent/Backup/Package/proxy-agent.json",
    "ebpf": D + "/ProxyAgent/Backup/Package/ebpf_cgroup.o",
    "unit": D + "/ProxyAgent/Backup/azure-proxy-agent.service",
}
PKG = {
    "exe": D + "/ProxyAgent/azure-proxy-agent",
    "config": D + "/ProxyAgent/proxy-agent.json",
    "ebpf": D + "/ProxyAgent/ebpf_cgroup.o",
    "unit": D + "/azure-proxy-agent.service",
}
SENTINELS = ["/etc/azure/other.conf", "/usr/lib/azure-proxy-agent/other.o", "/usr/lib/systemd/system/other.service",
             "/usr/sbin/other-tool", D + "/ProxyAgent/other-package-file", "/var/lib/azure-proxy-agent/other"]
FILES = ["exe", "config", "ebpf", "unit"]
MODES = {"exe": 0o755, "config": 0o644, "ebpf": 0o644, "unit": 0o644}
SYSTEMCTL_LOG = "/usr/local/vt-bin/systemctl.log"
T0 = 1_700_000_000


def content(kind, ver):
    if ver == "E":
        return b""                                   # "arbitrary file contents" includes none at all (an empty configuration file)
    # executable and unit: both versions have the same length and differ in one character (a size or
    # mtime comparison cannot tell them apart); configuration: B is longer than A; eBPF object: A is longer
    # than B (a copy that does not truncate its destination leaves the tail of the longer one behind)
    if kind == "exe":
        return ("#!/bin/sh\n# version %s\nif [ \"$1\" = \"--version\" ]; then echo 1.0.%s; fi\nexit 0\n" % (ver, {"A": 1, "B": 2}[ver])).encode()
    if kind == "config":
        return ('{"logFolder":"/var/log/azure-proxy-agent","pollKeyStatusIntervalInSeconds":1%s%s}\n' % ({"A": 5, "B": 7}[ver], "" if ver == "A" else ',"hostGAPluginSupport":2,"ebpfProgramName":"ebpf_cgroup.o"')).encode()
    if kind == "ebpf":
        return b"\x7fELF-ebpf-object-version-" + ver.encode() + b"\x00" * (96 if ver == "A" else 64) + b"end-of-object-" + ver.encode()
    # (version B's unit has one CR LF line ending: "byte-identical" includes line endings)
    return ("[Unit]\nDescription=Azure Proxy Agent %s%s\n[Service]\nExecStart=/usr/sbin/azure-proxy-agent\n" % (ver, " " if ver == "A" else "\r")).encode()


VER_OF = {}
for k in FILES:
    for v in "AB":
        VER_OF[(k, hashlib.sha256(content(k, v)).hexdigest())] = v
VER_OF[("config", hashlib.sha256(b"").hexdigest())] = "E"


def put(path, data, mode, mtime):
    os.makedirs(os.path.dirname(path), exist_ok=True)
    if os.path.lexists(path):
        os.unlink(path)
    with open(path, "wb") as f:
        f.write(data)
    os.chmod(path, mode)
    os.utime(path, (mtime, mtime))


def read_ver(kind, path):
    """None (absent) | 'A' | 'B' | 'X:<why>' (something else: torn, wrong mode, ...)"""
    if not os.path.lexists(path):
        return None
    st = os.lstat(path)
    if not stat.S_ISREG(st.st_mode):
        return "X:not-a-regular-file"
    data = open(path, "rb").read()
    v = VER_OF.get((kind, hashlib.sha256(data).hexdigest()))
    if v is None:
        return "X:content(%d bytes)" % len(data)
    if stat.S_IMODE(st.st_mode) != MODES[kind]:
        return "X:%s-with-mode-%o" % (v, stat.S_IMODE(st.st_mode))
    return v


# sys/backup: tuple of 4 (None|'A'|'B'), pkg: 'A'|'B', svc: run state of the service as the systemctl stand-in keeps it
# ('active' | 'activating' (crash-looping, between two restart attempts) | 'inactive')
State = collections.namedtuple("State", "sys backup pkg svc")
SYSTEMCTL_STATE = "/usr/local/vt-bin/systemctl.state"
QUERY_VERBS = ("is-active", "is-enabled", "is-failed", "status", "show", "cat", "list-units", "list-unit-files", "--version", "is-system-running")


def materialize(s):
    shutil.rmtree(D, ignore_errors=True)
    for k in FILES:
        if os.path.lexists(SYS[k]):
            os.unlink(SYS[k])
    os.makedirs(D + "/ProxyAgent", exist_ok=True)
    shutil.copy(TOOL_BUILT, D + "/proxy_agent_setup")
    for i, k in enumerate(FILES):
        put(PKG[k], content(k, s.pkg), MODES[k], T0 - 100)          # package built first
        if s.backup[i]:
            put(BACKUP[k], content(k, s.backup[i]), MODES[k], T0)    # backup taken before ...
        if s.sys[i]:
            put(SYS[k], content(k, s.sys[i]), MODES[k], T0 + 10)     # ... the installed files were last written
    for p in SENTINELS:
        put(p, b"sentinel " + p.encode(), 0o640, T0 - 5)
    if os.path.exists(SYSTEMCTL_LOG):
        os.unlink(SYSTEMCTL_LOG)
    with open(SYSTEMCTL_STATE, "w") as f:
        f.write(s.svc)


def observe():
    try:
        svc = open(SYSTEMCTL_STATE).read().strip()
    except OSError:
        svc = "?"
    return State(tuple(read_ver(k, SYS[k]) for k in FILES), tuple(read_ver(k, BACKUP[k]) for k in FILES), None, svc)


def sentinels_ok():
    bad = []
    for p in SENTINELS:
        try:
            if open(p, "rb").read() != b"sentinel " + p.encode() or stat.S_IMODE(os.lstat(p).st_mode) != 0o640:
                bad.append(p + " changed")
        except FileNotFoundError:
            bad.append(p + " removed")
    return bad


COMMANDS = ["backup", "install-A", "install-B", "restore", "uninstall-service", "uninstall-package", "purge"]


def model(s, cmd):
    """successor file state + whether the command replaces system files of a (possibly running) service, from the statement"""
    sysf, bak, pkg = list(s.sys), list(s.backup), s.pkg
    replaces = False
    if cmd == "backup":
        for i in range(4):
            if sysf[i]:
                bak[i] = sysf[i]
    elif cmd.startswith("install-"):
        pkg = cmd[-1]
        replaces = True
        sysf = [pkg] * 4
    elif cmd == "restore":
        if bak[0] is not None:            # a backup exists iff the backed-up executable exists
            replaces = True
            for i in range(4):
                if bak[i]:
                    sysf[i] = bak[i]
            if bak[3] is None:
                return None               # unit file missing in the backup: outcome not specified by the statement
            bak = [None] * 4              # restore deletes the backup (the CLI offers no way to keep it)
    elif cmd == "uninstall-service":
        sysf[3] = None
    elif cmd == "uninstall-package":
        sysf = [None] * 4
    elif cmd == "purge":
        bak = [None] * 4
    return State(tuple(sysf), tuple(bak), pkg, s.svc), replaces


HUNG = []


def run_tool(cmd, trace=None):
    args = {"backup": ["backup"], "restore": ["restore"], "uninstall-service": ["uninstall", "service"],
            "uninstall-package": ["uninstall", "package"], "purge": ["purge"]}.get(cmd, ["install"])
    env = dict(os.environ, PATH="/usr/local/vt-bin:" + os.environ.get("PATH", ""))
    argv = [D + "/proxy_agent_setup"] + args
    if trace:
        argv = ["strace", "-f", "-qq", "-e", "trace=%file", "-o", trace] + argv
    try:
        r = subprocess.run(argv, env=env, stdout=subprocess.PIPE, stderr=subprocess.STDOUT, timeout=60)
    except subprocess.TimeoutExpired:
        # a command of the tool that does not come back within a minute is the tool's doing (the same command takes
        # milliseconds on the unchanged tree): reported as a finding by the caller, not a failure of the machinery
        HUNG.append(cmd)
        return -9, "(did not finish within 60 s)"
    return r.returncode, r.stdout.decode(errors="replace")


def systemctl_log():
    """list of (verb, snapshot of system files at that moment, run state of the service before the call)"""
    out = []
    if os.path.exists(SYSTEMCTL_LOG):
        for line in open(SYSTEMCTL_LOG):
            parts = line.rstrip("\n").split("|")
            words = parts[0].split()
            verb = next((w for w in words if not w.startswith("-")), "?")
            # documented systemctl semantics: with --no-block the call returns once the job is queued, i.e. the
            # service may still be running afterwards
            if verb == "stop" and any(w in ("--no-block", "--job-mode=ignore-dependencies", "--no-wait") or w.startswith("--no-block") for w in words):
                verb = "stop(asynchronous)"
            out.append((verb, tuple(x if x else None for x in parts[1:5]), parts[5] if len(parts) > 5 else "?"))
    return out


def install_systemctl_stub():
    """recording stand-in for systemctl (a small C program: verb + FNV-1a of the four system files at the moment of the call)"""
    os.makedirs("/usr/local/vt-bin", exist_ok=True)
    # documented systemctl behaviour that the tool can observe: `is-active` exits 0 only in state active (3 otherwise:
    # activating, deactivating, inactive); `stop` waits for the job unless --no-block and exits 5 for a unit that is
    # neither loaded nor on disk; `start` of a unit without unit file exits 5; `enable` / `disable` of a unit without unit
    # file exit 1 ("Unit file ... does not exist"); `unmask` of a missing unit and `daemon-reload` exit 0
    src = r"""
#include <stdio.h>
#include <string.h>
#include <unistd.h>
static void h(const char *p, char *out) {
    FILE *f = fopen(p, "rb");
    if (!f) { out[0] = 0; return; }
    unsigned long long x = 0xcbf29ce484222325ULL; int c;
    while ((c = fgetc(f)) != EOF) { x ^= (unsigned char)c; x *= 0x100000001b3ULL; }
    fclose(f);
    sprintf(out, "%%016llx", x);
}
int main(int argc, char **argv) {
    const char *files[4] = {"%s", "%s", "%s", "%s"};
    const char *statef = "%s";
    char line[4096] = ""; char hh[64]; char st[64] = "inactive";
    const char *verb = ""; int noblock = 0, now = 0;
    for (int i = 1; i < argc; i++) {
        strcat(line, argv[i]); if (i + 1 < argc) strcat(line, " ");
        if (argv[i][0] != '-') { if (!verb[0]) verb = argv[i]; }
        else if (!strncmp(argv[i], "--no-block", 10) || !strcmp(argv[i], "--no-wait")) noblock = 1;
        else if (!strcmp(argv[i], "--now")) now = 1;
    }
    for (int i = 0; i < 4; i++) { h(files[i], hh); strcat(line, "|"); strcat(line, hh); }
    FILE *s = fopen(statef, "r");
    if (s) { if (fscanf(s, "%%63s", st) != 1) strcpy(st, "inactive"); fclose(s); }
    int unit_on_disk = access(files[3], F_OK) == 0;
    int rc = 0; const char *next = st;
    if (!strcmp(verb, "is-active")) { printf("%%s\n", st); rc = strcmp(st, "active") ? 3 : 0; }
    else if (!strcmp(verb, "is-enabled")) { printf("enabled\n"); rc = unit_on_disk ? 0 : 1; }
    else if (!strcmp(verb, "stop")) {
        if (!unit_on_disk && !strcmp(st, "inactive")) { fprintf(stderr, "Failed to stop unit: Unit not loaded.\n"); rc = 5; }
        else if (noblock) next = strcmp(st, "inactive") ? "deactivating" : st;
        else next = "inactive";
    }
    else if (!strcmp(verb, "start") || !strcmp(verb, "restart")) {
        if (!unit_on_disk) { fprintf(stderr, "Failed to start unit: Unit not found.\n"); rc = 5; }
        else next = "active";
    }
    else if (!strcmp(verb, "enable") || !strcmp(verb, "disable")) {
        if (!unit_on_disk) { fprintf(stderr, "Failed to %%s unit: Unit file does not exist.\n", verb); rc = 1; }
        else if (now) next = !strcmp(verb, "enable") ? "active" : "inactive";
    }
    if (next != st) { s = fopen(statef, "w"); if (s) { fputs(next, s); fclose(s); } }
    FILE *o = fopen("%s", "a");
    if (o) { fprintf(o, "%%s|%%s|%%d\n", line, st, rc); fclose(o); }
    return rc;
}
""" % (SYS["exe"], SYS["config"], SYS["ebpf"], SYS["unit"], SYSTEMCTL_STATE, SYSTEMCTL_LOG)
    with open("/usr/local/vt-bin/systemctl.c", "w") as f:
        f.write(src)
    r = subprocess.run(["gcc", "-O1", "-o", "/usr/local/vt-bin/systemctl", "/usr/local/vt-bin/systemctl.c"], stdout=subprocess.PIPE, stderr=subprocess.STDOUT)
    if r.returncode != 0:
        print("MACHINERY-ERROR: cannot compile the systemctl stand-in: " + r.stdout.decode(), file=sys.stderr)
        sys.exit(2)


def fnv(data):
    x = 0xcbf29ce484222325
    for c in data:
        x ^= c
        x = (x * 0x100000001b3) & 0xFFFFFFFFFFFFFFFF
    return "%016x" % x


def sha_state(vers):
    return tuple(fnv(content(k, v)) if v in ("A", "B", "E") else None for k, v in zip(FILES, vers))


ALLOWED_WRITE_PREFIXES = [D + "/ProxyAgent/Backup", D + "/setup", "/dev/null", "/dev/tty", SYSTEMCTL_LOG, SYSTEMCTL_STATE, "/proc/self", "/dev/pts"]


def audit_trace(path):
    """paths created / opened for writing / renamed / unlinked outside the allowed set"""
    bad = []
    allowed = set(SYS.values())
    allowed_dirs = set(os.path.dirname(p) for p in SYS.values())
    for line in open(path, errors="replace"):
        rest = line.split(" ", 1)[1] if " " in line else line
        name = rest.split("(", 1)[0].strip()
        if name not in ("openat", "open", "creat", "rename", "renameat", "renameat2", "unlink", "unlinkat", "mkdir", "mkdirat", "rmdir", "chmod", "fchmodat", "chown", "fchownat", "link", "linkat", "symlink", "symlinkat", "truncate", "utimensat"):
            continue
        if " = -1 " in rest:
            continue
        writes = name not in ("openat", "open") or any(f in rest for f in ("O_WRONLY", "O_RDWR", "O_CREAT", "O_TRUNC", "O_APPEND"))
        if not writes:
            continue
        paths = [p for p in rest.split('"')[1::2] if p.startswith("/")]
        for p in paths:
            if p in allowed or any(p.startswith(a) for a in ALLOWED_WRITE_PREFIXES):
                continue
            if name in ("mkdir", "mkdirat") and (p in allowed_dirs or any(d.startswith(p) for d in allowed_dirs) or D.startswith(p) or p.startswith(D + "/ProxyAgent")):
                continue
            if name == "utimensat":
                continue
            bad.append("%s %s" % (name, p))
    return bad


def main():
    res = {"property": "C17", "coverage": {}, "assumptions": [], "violations": []}
    t_start = time.time()
    viol = {}

    def violation(sig, what, replay):
        if sig in viol:
            viol[sig]["count"] += 1
        else:
            viol[sig] = {"sig": sig, "what": what, "count": 1, "replay": replay}

    if not os.path.exists(TOOL_BUILT):
        print("MACHINERY-ERROR: setup tool not built", file=sys.stderr)
        sys.exit(2)
    if not os.path.ismount("/usr"):
        print("MACHINERY-ERROR: /usr is not an overlay mount (not inside bin/ns?)", file=sys.stderr)
        sys.exit(2)
    install_systemctl_stub()
    thorough = TIER == "thorough"
    depth = 5 if thorough else 4
    inits = [
        ("nothing-installed", State((None,) * 4, (None,) * 4, "A", "inactive")),
        ("A-installed", State(("A",) * 4, (None,) * 4, "B", "active")),
        ("A-installed+backup-of-A", State(("A",) * 4, ("A",) * 4, "B", "active")),
        ("A-installed+stale-backup-of-B", State(("A",) * 4, ("B",) * 4, "B", "active")),
        # the installed agent is crash-looping (between two restart attempts): the moment a roll-back is wanted
        ("A-installed+backup-of-A,service-activating", State(("A",) * 4, ("A",) * 4, "B", "activating")),
        ("A-installed,service-activating", State(("A",) * 4, (None,) * 4, "B", "activating")),
        # the operator has stopped the service
        ("A-installed+backup-of-A,service-inactive", State(("A",) * 4, ("A",) * 4, "B", "inactive")),
        # the installed configuration file is empty
        ("A-installed-with-an-empty-configuration-file", State(("A", "E", "A", "A"), (None,) * 4, "B", "active")),
        # a version installed without one of its files (older layout / removed by the administrator)
        ("A-installed-without-its-configuration-file", State(("A", None, "A", "A"), (None,) * 4, "B", "active")),
        ("A-installed-without-its-eBPF-object", State(("A", "A", None, "A"), (None,) * 4, "B", "active")),
    ]
    replay = os.environ.get("VERIF_REPLAY")
    only = None
    if replay:
        only = json.load(open(replay))["case"]

    transitions = 0
    states_seen = set()
    samples = []
    headline = 0
    headline_partial = 0
    trace_audits = 0

    def step(s, cmd, history):
        """execute one real transition from state s; returns observed successor (State) or None"""
        nonlocal transitions, trace_audits
        materialize(s)
        tr = os.path.join(TARGET, "run", "c17.%d.trace" % os.getpid()) if (thorough or transitions % 9 == 0) else None
        rc, out = run_tool(cmd, tr)
        transitions += 1
        obs = observe()
        obs = State(obs.sys, obs.backup, cmd[-1] if cmd.startswith("install-") else s.pkg, obs.svc)
        case = {"initial": history[0], "commands": history[1] + [cmd], "state_before": {"system": s.sys, "backup": s.backup, "package_beside_tool": s.pkg, "service": s.svc}}
        m = model(s if not cmd.startswith("install-") else State(s.sys, s.backup, cmd[-1], s.svc), cmd)
        if cmd.startswith("install-"):
            # the package beside the tool is swapped before the command runs
            pass
        if m is None:
            return obs
        want, replaces = m
        if tr:
            trace_audits += 1
            for b in audit_trace(tr):
                violation("writes-outside-allowed-locations:" + cmd.split("-")[0], "%s touched %s" % (cmd, b), case)
            try:
                os.unlink(tr)
            except OSError:
                pass
        for b in sentinels_ok():
            violation("foreign-file-altered:" + cmd.split("-")[0], "%s: %s" % (cmd, b), case)
        if (obs.sys, obs.backup) != (want.sys, want.backup):
            which = "system-files" if obs.sys != want.sys else "backup-files"
            violation("wrong-result:%s:%s" % (cmd.split("-")[0] if not cmd.startswith("uninstall") else cmd, which),
                      "%s from (system %s, backup %s, package %s) gave system %s backup %s; the statement gives system %s backup %s (order: exe, config, ebpf, unit)"
                      % (cmd, s.sys, s.backup, s.pkg, obs.sys, obs.backup, want.sys, want.backup), case)
        log = [e for e in systemctl_log() if e[0] not in QUERY_VERBS]
        verbs = [e[0] for e in log]
        if replaces:
            # "the service having been stopped before any file was replaced and started again afterwards": judged on the
            # service's run state as the stand-in keeps it and on the fingerprints of the four files taken at every call
            if "stop(asynchronous)" in verbs:
                violation("service-not-stopped-before-files-replaced:" + cmd.split("-")[0], "%s asked systemctl to stop the service without waiting for it (--no-block): the files are replaced while the service may still be running" % cmd, case)
            else:
                running = s.svc != "inactive"
                prev = sha_state(s.sys)
                final = tuple(fnv(open(SYS[k], "rb").read()) if os.path.exists(SYS[k]) else None for k in FILES)
                last_start = None
                for v, snap, _st in log:
                    if snap != prev and running:
                        violation("file-replaced-while-service-not-stopped:%s:service-%s" % (cmd.split("-")[0], s.svc),
                                  "%s with the service in state '%s': system files changed before 'systemctl %s' while the service had not been stopped (calls: %s)" % (cmd, s.svc, v, verbs), case)
                        break
                    prev = snap
                    if v == "stop":
                        running = False
                    elif v in ("start", "restart"):
                        running = True
                        last_start = snap
                else:
                    if final != prev and running:
                        violation("file-replaced-while-service-not-stopped:%s:service-%s" % (cmd.split("-")[0], s.svc),
                                  "%s with the service in state '%s': system files changed after the last systemctl call while the service was running (calls: %s)" % (cmd, s.svc, verbs), case)
                if obs.svc != "active":
                    violation("service-not-started-afterwards:" + cmd.split("-")[0], "%s ended with the service in state '%s' (calls: %s)" % (cmd, obs.svc, verbs), case)
                elif last_start is not None and last_start != final:
                    violation("start-before-last-file:" + cmd.split("-")[0], "%s: at 'systemctl start' the system files were not yet the final ones" % cmd, case)
        return obs

    def install_pkg(s, ver):
        return State(s.sys, s.backup, ver, s.svc)

    for iname, init in inits:
        if only and only.get("initial") != iname:
            continue
        frontier = collections.deque([(init, [])])
        seen = {init}
        while frontier:
            s, hist = frontier.popleft()
            if len(hist) >= depth:
                continue
            if any(isinstance(v, str) and v.startswith("X:") for v in s.sys + s.backup):
                continue          # a state outside the model (already reported)
            for cmd in COMMANDS:
                if only and only.get("commands") and only["commands"][:len(hist) + 1] != hist + [cmd]:
                    continue
                src = install_pkg(s, cmd[-1]) if cmd.startswith("install-") else s
                obs = step(src, cmd, (iname, hist))
                if obs is None:
                    continue
                if obs not in seen:
                    seen.add(obs)
                    frontier.append((obs, hist + [cmd]))
                    if len(samples) < 4:
                        samples.append({"initial": iname, "commands": hist + [cmd], "state": {"system": obs.sys, "backup": obs.backup, "service": obs.svc}})
            # headline from every reachable state with a complete installation: backup; install the other version; restore
            # (from an installation that lacks some of the files - e.g. after "uninstall service" - the files that were there)
            if s.sys[0] in ("A", "B") and all(v in ("A", "B", "E", None) for v in s.sys) and not only:
                other = "B" if s.sys[0] == "A" else "A"
                cur = s
                ok = True
                for cmd in ["backup", "install-" + other, "restore"]:
                    src = install_pkg(cur, other) if cmd.startswith("install-") else cur
                    nxt = step(src, cmd, (iname, hist + ["[headline]"]))
                    if nxt is None:
                        ok = False
                        break
                    cur = nxt
                    if any(isinstance(v, str) and v.startswith("X:") for v in cur.sys + cur.backup):
                        # content that is no version of the file: cannot be materialised again; judged right here
                        break
                headline += 1
                complete = all(v is not None for v in s.sys)
                if ok and not complete:
                    headline_partial += 1
                    if any(s.sys[i] is not None and cur.sys[i] != s.sys[i] for i in range(4)):
                        violation("upgrade-not-reversible:installation-lacking-a-file", "backup; install %s; restore from system %s ended with system %s: a file that was there before the upgrade is not what it was (order: exe, config, ebpf, unit)" % (other, s.sys, cur.sys),
                                  {"initial": iname, "commands": hist + ["backup", "install-" + other, "restore"]})
                elif ok and cur.sys != s.sys:
                    violation("upgrade-not-reversible", "backup; install %s; restore from system %s ended with system %s" % (other, s.sys, cur.sys),
                              {"initial": iname, "commands": hist + ["backup", "install-" + other, "restore"]})
        states_seen |= seen

    # the round trip as one real chain of tool runs on one tree (nothing is re-materialised in between, so anything the
    # tool keeps for itself between commands stays where it put it), with an installation that succeeds and with one that
    # fails half-way: the new package lacks its unit file, the executable / configuration / eBPF object are already
    # replaced when the tool gives up (exit 1) - the very case a roll-back exists for
    chains = 0
    chains_failed_install = 0
    if not only:
        for iname, init in inits:
            if not all(v in ("A", "B", "E") for v in init.sys):
                continue
            other = "B" if init.sys[0] == "A" else "A"
            for install_fails in (False, True):
                materialize(init)
                rc1, _ = run_tool("backup")
                for k in FILES:
                    put(PKG[k], content(k, other), MODES[k], T0 - 100)
                if install_fails:
                    os.unlink(PKG["unit"])
                rc2, _ = run_tool("install-" + other)
                mid = observe()
                rc3, out3 = run_tool("restore")
                fin = observe()
                chains += 1
                transitions += 3
                case = {"initial": iname, "commands": ["backup", "install-" + other + (" (package without its unit file)" if install_fails else ""), "restore"], "family": "real-chain"}
                if install_fails and (rc2 == 0 or mid.sys[0] == init.sys[0]):
                    # the scenario did not come about (the tool refused before touching anything): nothing to judge
                    continue
                if install_fails:
                    chains_failed_install += 1
                if fin.sys != init.sys:
                    violation("upgrade-not-reversible:real-chain" + (":installation-failed-half-way" if install_fails else ""),
                              "backup; install %s%s (exit %d, system then %s); restore (exit %d) from system %s ended with system %s (order: exe, config, ebpf, unit)"
                              % (other, " from a package without its unit file" if install_fails else "", rc2, mid.sys, rc3, init.sys, fin.sys), case)
                elif fin.svc != "active":
                    violation("service-not-started-afterwards:restore:real-chain", "after backup, install%s, restore the service is in state '%s'" % (" (failed half-way)" if install_fails else "", fin.svc), case)
    for cmd in HUNG:
        violation("setup-command-did-not-finish:" + cmd.split("-")[0], "%s did not finish within 60 s" % cmd, {"family": "hung-command", "command": cmd})
    res["violations"] = list(viol.values())
    res["coverage"] = {
        "states": len(states_seen), "transitions": transitions, "traces_validated_against_impl": transitions,
        "headline_round_trips": headline, "real_chain_round_trips": chains, "real_chain_round_trips_with_an_installation_that_failed_half_way": chains_failed_install, "headline_round_trips_from_installations_lacking_a_file": headline_partial, "strace_write_set_audits": trace_audits, "depth_bound": depth, "exhaustive": True,
        "rule": "BFS to depth %d over {backup, install (package A or B beside the tool), restore, uninstall service, uninstall package, purge} from 10 initial states (incl. one with an empty configuration file, one without configuration file, one without eBPF object) (nothing installed; A installed; A + backup of A; A + stale backup of B; A (+ backup) with the service crash-looping ('activating'); A + backup with the service stopped), deduplicated on the canonical file tree (version of each of the four system files and four backup files) and the service's run state; every transition runs the real release build of proxy_agent_setup on a freshly materialised tree with a recording, stateful systemctl stand-in (run state active / activating / inactive; is-active, stop, start, enable, disable answer and fail as documented for systemctl, e.g. disable of a unit without unit file exits 1); install and restore are judged on 'no system file changes while the service is not stopped' and 'started afterwards, after the last file' from the fingerprints the stand-in takes at every call (query verbs are not judged); from every reachable installation the round trip backup, install other version, restore is executed (complete installation: all four files as before; installation lacking a file, e.g. after 'uninstall service': the files that were there as before); the two versions of the executable and of the unit have equal length, the configuration grows and the eBPF object shrinks from A to B; realistic mtimes (package < backup < installed); plus, from every complete initial installation, the round trip as ONE real chain of three tool runs on one tree (nothing re-materialised in between), once with an installation that succeeds and once with one that fails half-way (the new package lacks its unit file: three files already replaced, exit 1)" % depth,
        "samples": samples,
    }
    res["assumptions"] = ["restore always deletes the backup: the release CLI accepts no value for delete_backup",
                          "restore from a backup that lacks the unit file is not specified by the statement and is not judged",
                          "the setup directory lies under /usr/local (same mount as /usr/sbin, /usr/lib)",
                          "BFS transitions materialise each state from the versions of the files the statement names; anything else the tool might keep between commands is only carried along in the real-chain round trips"]
    res["wall_s"] = time.time() - t_start
    out = os.environ.get("VERIF_RESULT")
    if out:
        json.dump(res, open(out, "w"), indent=1)
    else:
        print(json.dumps(res, indent=1))


if __name__ == "__main__":
    main()
