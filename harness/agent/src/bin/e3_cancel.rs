//! C12 (second engine): a requester of the key-state actor that is cancelled between its request and the
//! reply (a client that hangs up while the proxy waits for the key, a task cancelled at that await) must
//! not make the key value appear anywhere. On a current-thread runtime the interleaving is owned by this
//! engine: the requester future is polled exactly n times and dropped, then the actor runs. Enumerated:
//! every public operation of KeyKeeperSharedState whose message or reply carries the key x every number
//! of polls before the drop (0 .. until it completes) x {key latched, rotated, none}. Afterwards the agent
//! log directory and everything written to stdout are searched for every secret used.

use gpa_harness::shared_state::key_keeper_wrapper::KeyKeeperSharedState;
use gpa_harness::shared_state::SharedState;
use gpa_harness::verif::world;
use serde_json::json;
use std::future::Future;
use std::pin::Pin;
use std::task::{Context, Poll};
use vcommon::result::EngineResult;

const KEYS: [(&str, &str); 3] = [
    ("c12c0000-0000-4000-8000-000000000001", "5A7134743777217A25432A462D4A614E645267556B58703272357538782F413F"),
    ("c12c0000-0000-4000-8000-000000000002", "2B4D6251655468576D5A7134743677397A24432646294A404E635266556A586E"),
    ("c12c0000-0000-4000-8000-000000000003", "703373367639792442264529482B4D6251655468576D5A7134743777217A2543"),
];

type Fut = Pin<Box<dyn Future<Output = String>>>;

fn ops() -> Vec<(&'static str, fn(KeyKeeperSharedState) -> Fut)> {
    vec![
        ("get_current_key", |kk| Box::pin(async move { format!("{}", kk.get_current_key().await.map(|k| k.is_some()).unwrap_or(false)) })),
        ("get_current_key_value", |kk| Box::pin(async move { format!("{}", kk.get_current_key_value().await.map(|k| k.is_some()).unwrap_or(false)) })),
        ("get_current_key_guid", |kk| Box::pin(async move { format!("{}", kk.get_current_key_guid().await.map(|k| k.is_some()).unwrap_or(false)) })),
        ("get_current_key_incarnation", |kk| Box::pin(async move { format!("{}", kk.get_current_key_incarnation().await.map(|k| k.is_some()).unwrap_or(false)) })),
        ("update_key", |kk| Box::pin(async move { format!("{}", kk.update_key(world::make_key(KEYS[2].0, KEYS[2].1)).await.is_ok()) })),
        ("clear_key", |kk| Box::pin(async move { format!("{}", kk.clear_key().await.is_ok()) })),
    ]
}

fn poll_once(f: &mut Fut) -> Poll<String> {
    let waker = futures_noop_waker();
    let mut cx = Context::from_waker(&waker);
    f.as_mut().poll(&mut cx)
}

fn futures_noop_waker() -> std::task::Waker {
    use std::task::{RawWaker, RawWakerVTable};
    fn clone(_: *const ()) -> RawWaker {
        RawWaker::new(std::ptr::null(), &VT)
    }
    fn noop(_: *const ()) {}
    static VT: RawWakerVTable = RawWakerVTable::new(clone, noop, noop, noop);
    unsafe { std::task::Waker::from_raw(RawWaker::new(std::ptr::null(), &VT)) }
}

fn contains_ci(hay: &[u8], needle: &str) -> bool {
    let n = needle.to_ascii_lowercase().into_bytes();
    if n.is_empty() || hay.len() < n.len() {
        return false;
    }
    hay.windows(n.len()).any(|w| w.iter().zip(n.iter()).all(|(a, b)| a.to_ascii_lowercase() == *b))
}

fn scan_dir(dir: &std::path::Path, out: &mut Vec<(String, Vec<u8>)>) {
    if let Ok(rd) = std::fs::read_dir(dir) {
        for e in rd.flatten() {
            let p = e.path();
            if p.is_dir() {
                scan_dir(&p, out);
            } else if let Ok(d) = std::fs::read(&p) {
                out.push((p.display().to_string(), d));
            }
        }
    }
}

/// C13 mode: every operation of every shared-state actor, cancelled after each number of polls: no panic anywhere,
/// and every actor still answers afterwards (a handler that cannot deliver its reply must not take its task down)
fn c13_mode() -> ! {
    use gpa_harness::shared_state::agent_status_wrapper::AgentStatusModule;
    use proxy_agent_shared::proxy_agent_aggregate_status::ModuleState;
    world::install_panic_recorder();
    let mut res = EngineResult::new("C13");
    type F = Pin<Box<dyn Future<Output = ()>>>;
    let ops: Vec<(&'static str, Box<dyn Fn(&SharedState) -> F>)> = vec![
        ("agent_status.increase_connection_count", Box::new(|s| { let a = s.get_agent_status_shared_state(); Box::pin(async move { let _ = a.increase_connection_count().await; }) })),
        ("agent_status.increase_tcp_connection_count", Box::new(|s| { let a = s.get_agent_status_shared_state(); Box::pin(async move { let _ = a.increase_tcp_connection_count().await; }) })),
        ("agent_status.get_connection_count", Box::new(|s| { let a = s.get_agent_status_shared_state(); Box::pin(async move { let _ = a.get_connection_count().await; }) })),
        ("agent_status.get_all_connection_summary", Box::new(|s| { let a = s.get_agent_status_shared_state(); Box::pin(async move { let _ = a.get_all_connection_summary().await; }) })),
        ("agent_status.get_all_failed_connection_summary", Box::new(|s| { let a = s.get_agent_status_shared_state(); Box::pin(async move { let _ = a.get_all_failed_connection_summary().await; }) })),
        ("agent_status.clear_all_summary", Box::new(|s| { let a = s.get_agent_status_shared_state(); Box::pin(async move { let _ = a.clear_all_summary().await; }) })),
        ("agent_status.set_module_state", Box::new(|s| { let a = s.get_agent_status_shared_state(); Box::pin(async move { let _ = a.set_module_state(ModuleState::RUNNING, AgentStatusModule::KeyKeeper).await; }) })),
        ("agent_status.set_module_status_message", Box::new(|s| { let a = s.get_agent_status_shared_state(); Box::pin(async move { let _ = a.set_module_status_message("m".to_string(), AgentStatusModule::ProxyServer).await; }) })),
        ("agent_status.get_module_status_message", Box::new(|s| { let a = s.get_agent_status_shared_state(); Box::pin(async move { let _ = a.get_module_status_message(AgentStatusModule::Redirector).await; }) })),
        ("agent_status.get_module_status", Box::new(|s| { let a = s.get_agent_status_shared_state(); Box::pin(async move { let _ = a.get_module_status(AgentStatusModule::KeyKeeper).await; }) })),
        ("provision.update_one_state", Box::new(|s| { let a = s.get_provision_shared_state(); Box::pin(async move { let _ = a.update_one_state(gpa_harness::provision::ProvisionFlags::LISTENER_READY).await; }) })),
        ("provision.reset_one_state", Box::new(|s| { let a = s.get_provision_shared_state(); Box::pin(async move { let _ = a.reset_one_state(gpa_harness::provision::ProvisionFlags::KEY_LATCH_READY).await; }) })),
        ("provision.get_state", Box::new(|s| { let a = s.get_provision_shared_state(); Box::pin(async move { let _ = a.get_state().await; }) })),
        ("provision.set_provision_finished", Box::new(|s| { let a = s.get_provision_shared_state(); Box::pin(async move { let _ = a.set_provision_finished(true).await; }) })),
        ("provision.get_provision_finished", Box::new(|s| { let a = s.get_provision_shared_state(); Box::pin(async move { let _ = a.get_provision_finished().await; }) })),
        ("provision.get_event_log_threads_initialized", Box::new(|s| { let a = s.get_provision_shared_state(); Box::pin(async move { let _ = a.get_event_log_threads_initialized().await; }) })),
        ("telemetry.get_vm_meta_data", Box::new(|s| { let a = s.get_telemetry_shared_state(); Box::pin(async move { let _ = a.get_vm_meta_data().await; }) })),
        ("telemetry.set_vm_meta_data", Box::new(|s| { let a = s.get_telemetry_shared_state(); Box::pin(async move { let _ = a.set_vm_meta_data(None).await; }) })),
        ("redirector.get_local_port", Box::new(|s| { let a = s.get_redirector_shared_state(); Box::pin(async move { let _ = a.get_local_port().await; }) })),
        ("redirector.set_local_port", Box::new(|s| { let a = s.get_redirector_shared_state(); Box::pin(async move { let _ = a.set_local_port(3080).await; }) })),
        ("redirector.get_bpf_object", Box::new(|s| { let a = s.get_redirector_shared_state(); Box::pin(async move { let _ = a.get_bpf_object().await; }) })),
        ("proxy_server.get_user", Box::new(|s| { let a = s.get_proxy_server_shared_state(); Box::pin(async move { let _ = a.get_user(1001).await; }) })),
        ("proxy_server.clear_users", Box::new(|s| { let a = s.get_proxy_server_shared_state(); Box::pin(async move { let _ = a.clear_users().await; }) })),
        ("key_keeper.get_current_key", Box::new(|s| { let a = s.get_key_keeper_shared_state(); Box::pin(async move { let _ = a.get_current_key().await; }) })),
        ("key_keeper.update_key", Box::new(|s| { let a = s.get_key_keeper_shared_state(); Box::pin(async move { let _ = a.update_key(world::make_key(KEYS[2].0, KEYS[2].1)).await; }) })),
        ("key_keeper.get_current_secure_channel_state", Box::new(|s| { let a = s.get_key_keeper_shared_state(); Box::pin(async move { let _ = a.get_current_secure_channel_state().await; }) })),
        ("key_keeper.update_current_secure_channel_state", Box::new(|s| { let a = s.get_key_keeper_shared_state(); Box::pin(async move { let _ = a.update_current_secure_channel_state("wireserver".to_string()).await; }) })),
        ("key_keeper.get_wireserver_rules", Box::new(|s| { let a = s.get_key_keeper_shared_state(); Box::pin(async move { let _ = a.get_wireserver_rules().await; }) })),
        ("key_keeper.set_imds_rules", Box::new(|s| { let a = s.get_key_keeper_shared_state(); Box::pin(async move { let _ = a.set_imds_rules(None).await; }) })),
        ("key_keeper.get_hostga_rule_id", Box::new(|s| { let a = s.get_key_keeper_shared_state(); Box::pin(async move { let _ = a.get_hostga_rule_id().await; }) })),
        ("key_keeper.update_wireserver_rule_id", Box::new(|s| { let a = s.get_key_keeper_shared_state(); Box::pin(async move { let _ = a.update_wireserver_rule_id("id".to_string()).await; }) })),
        ("key_keeper.notify", Box::new(|s| { let a = s.get_key_keeper_shared_state(); Box::pin(async move { let _ = a.notify().await; }) })),
    ];
    let rt = tokio::runtime::Builder::new_current_thread().enable_all().build().unwrap();
    let (mut cancels, mut completed) = (0u64, 0u64);
    rt.block_on(async {
        let shared = SharedState::start_all();
        let settle = || async {
            for _ in 0..8 {
                tokio::task::yield_now().await;
            }
        };
        for (name, mk) in &ops {
            let mut n = 0usize;
            loop {
                let mut f = mk(&shared);
                let mut done = false;
                let waker = futures_noop_waker();
                let mut cx = Context::from_waker(&waker);
                for _ in 0..n {
                    if f.as_mut().poll(&mut cx).is_ready() {
                        done = true;
                        break;
                    }
                }
                if !done {
                    drop(f);
                    cancels += 1;
                    settle().await;
                } else {
                    completed += 1;
                }
                // every actor still answers (bounded wait: a dead task never answers)
                let alive = tokio::time::timeout(std::time::Duration::from_secs(5), async {
                    let a = shared.get_agent_status_shared_state().get_connection_count().await.is_ok();
                    let p = shared.get_provision_shared_state().get_state().await.is_ok();
                    let t = shared.get_telemetry_shared_state().get_vm_meta_data().await.is_ok();
                    let r = shared.get_redirector_shared_state().get_local_port().await.is_ok();
                    let u = shared.get_proxy_server_shared_state().get_user(1).await.is_ok();
                    let k = shared.get_key_keeper_shared_state().get_current_key_guid().await.is_ok();
                    [("agent-status", a), ("provision", p), ("telemetry", t), ("redirector", r), ("proxy-server", u), ("key-keeper", k)]
                })
                .await;
                let case = json!({"family": "cancelled-requester", "operation": name, "polls_before_cancel": n});
                match alive {
                    Err(_) => res.violation(&format!("not-live-after:shared-state:{name}"), "the shared-state tasks did not answer within 5 s after the cancellation", case.clone()),
                    Ok(list) => {
                        for (actor, ok) in list {
                            if !ok {
                                res.violation(&format!("not-live-after:{actor}-task:cancelled-requester"), &format!("after a requester of {name} was dropped (polled {n} times) the {actor} task no longer answers"), case.clone());
                            }
                        }
                    }
                }
                for p in world::take_panics() {
                    res.violation(&format!("panic:cancelled-requester:{}", name.split('.').next().unwrap_or("?")), &p, case.clone());
                }
                if done || n > 6 {
                    break;
                }
                n += 1;
            }
        }
        shared.cancel_cancellation_token();
    });
    res.cov("requester_cancellations", cancels);
    res.cov("operations_run_to_completion", completed);
    res.cov("evaluations", cancels + completed);
    res.cov("distinct_nontrivial", cancels);
    res.cov("exhaustive", true);
    res.cov("cancel_rule", format!("{} operations over all six shared-state actors x every number of polls of the requester before it is dropped, on a current-thread runtime (the actor runs only after the drop); after each: no panic, all six actors still answer", ops.len()));
    std::process::exit(res.finish());
}

fn main() {
    if std::env::var("VERIF_PROPERTY").map(|p| p == "C13").unwrap_or(false) {
        c13_mode();
    }
    let mut res = EngineResult::new("C12");
    let run = format!("{}/run/c12-cancel-{}", std::env::var("VERIF_TARGET").unwrap_or("/verif/target".into()), std::process::id());
    let _ = std::fs::remove_dir_all(&run);
    std::fs::create_dir_all(&run).unwrap();
    // everything the subject prints goes to a file that is searched afterwards
    let stdout_path = format!("{run}/stdout");
    let saved_stdout;
    unsafe {
        use std::os::fd::AsRawFd;
        let f = std::fs::File::create(&stdout_path).unwrap();
        saved_stdout = libc::dup(1);
        libc::dup2(f.as_raw_fd(), 1);
    }
    let log_dir = std::path::PathBuf::from(format!("{run}/logs"));
    std::fs::create_dir_all(&log_dir).unwrap();
    {
        use proxy_agent_shared::logger::{logger_manager, rolling_logger::RollingLogger, LoggerLevel};
        logger_manager::set_logger_level(LoggerLevel::Trace);
        let mut loggers = std::collections::HashMap::new();
        loggers.insert(gpa_harness::common::logger::AGENT_LOGGER_KEY.to_string(), RollingLogger::create_new(log_dir.clone(), "ProxyAgent.log".to_string(), 20 * 1024 * 1024, 5));
        logger_manager::set_loggers(loggers, gpa_harness::common::logger::AGENT_LOGGER_KEY.to_string());
    }

    let rt = tokio::runtime::Builder::new_current_thread().enable_all().build().unwrap();
    let mut cancels = 0u64;
    let mut completed = 0u64;
    let mut cases = Vec::new();
    rt.block_on(async {
        let shared = SharedState::start_all();
        let kk = shared.get_key_keeper_shared_state();
        let settle = || async {
            for _ in 0..8 {
                tokio::task::yield_now().await;
            }
        };
        for state in ["latched", "rotated", "none"] {
            for (name, mk) in ops() {
                // polls before the drop: 0, 1, 2, ... until the operation completes without being dropped
                let mut n = 0usize;
                loop {
                    // establish the state (awaited to completion, nothing cancelled here)
                    kk.clear_key().await.unwrap();
                    if state != "none" {
                        kk.update_key(world::make_key(KEYS[0].0, KEYS[0].1)).await.unwrap();
                    }
                    if state == "rotated" {
                        kk.update_key(world::make_key(KEYS[1].0, KEYS[1].1)).await.unwrap();
                    }
                    settle().await;
                    let mut f = mk(kk.clone());
                    let mut done = false;
                    for _ in 0..n {
                        if poll_once(&mut f).is_ready() {
                            done = true;
                            break;
                        }
                        // the requester does not run between its polls; the actor does not run either:
                        // it only runs when this task yields (current-thread runtime)
                    }
                    if done {
                        completed += 1;
                        break;
                    }
                    drop(f); // the requester is cancelled here
                    cancels += 1;
                    cases.push(json!({"state": state, "operation": name, "polls_before_cancel": n}));
                    settle().await; // the actor handles the request; its reply has nobody to go to
                    n += 1;
                    if n > 6 {
                        // the future makes no progress without the actor running: one more round with the actor
                        // allowed to run between polls
                        let mut f = mk(kk.clone());
                        let mut k = 0;
                        while poll_once(&mut f).is_pending() && k < 50 {
                            settle().await;
                            k += 1;
                        }
                        completed += 1;
                        break;
                    }
                }
            }
        }
        shared.cancel_cancellation_token();
        settle().await;
    });
    drop(rt);
    unsafe {
        libc::dup2(saved_stdout, 1);
    }

    let mut files = Vec::new();
    scan_dir(&log_dir, &mut files);
    files.push(("stdout".to_string(), std::fs::read(&stdout_path).unwrap_or_default()));
    let mut warnings = 0u64;
    for (place, data) in &files {
        warnings += data.windows(b"Failed to send response".len()).filter(|w| *w == b"Failed to send response").count() as u64;
        for (guid, secret) in KEYS {
            if contains_ci(data, secret) {
                let text = String::from_utf8_lossy(data);
                let line = text.lines().find(|l| l.to_ascii_lowercase().contains(&secret.to_ascii_lowercase())).unwrap_or("").replace(secret, "<SECRET>");
                let cls = if place == "stdout" { "stdout-stderr" } else { "log-file" };
                res.violation(&format!("secret-in:{cls}:cancelled-requester"), &format!("the value of key {guid} appears in {place} after a key-state requester was cancelled: {}", line.chars().take(300).collect::<String>()), json!({"family": "cancelled-requester", "cases": cases.len()}));
            }
        }
    }
    if warnings == 0 {
        vcommon::result::machinery("no 'Failed to send response' warning was produced: the cancellations did not reach the actor (vacuous run)");
    }
    let _ = std::fs::remove_dir_all(&run);
    res.cov("requester_cancellations", cancels);
    res.cov("operations_run_to_completion", completed);
    res.cov("undeliverable_reply_warnings_seen", warnings);
    res.cov("evaluations", cancels + completed);
    res.cov("distinct_nontrivial", cancels);
    res.cov("exhaustive", true);
    res.cov("cancel_rule", "every key-carrying operation of the key-state actor (get_current_key, _value, _guid, _incarnation, update_key, clear_key) x every number of polls of the requester before it is dropped x {key latched, rotated, none}, on a current-thread runtime where the actor only runs after the drop; the agent log and stdout are then searched for every key value used".to_string());
    std::process::exit(res.finish());
}
