//! C05 (proxy-owned headers cannot be spoofed or duplicated) and the end-to-end half of C04
//! (every relayed request and every own host call carries a MAC that verifies over the raw bytes
//! the host received), in the E2 world.

use gpa_harness::common::constants;
use gpa_harness::host_clients::{imds_client::ImdsClient, wire_server_client::WireServerClient};
use gpa_harness::verif::hostcheck::{self, SigVerdict, AUTHZ, CLAIMS, DATE};
use gpa_harness::verif::world::{self, AuditRec, World, WorldOpts, IMDS, WS};
use serde_json::json;
use std::collections::{BTreeSet, HashMap};
use std::time::Duration;
use vcommon::rawhttp::{build_request, simple_response, Action, Msg};
use vcommon::result::{is_thorough, EngineResult};

const K1: (&str, &str) = ("aaaaaaaa-1111-1111-1111-111111111111", "4A404E635266556A586E3272357538782F413F4428472B4B6250645367566B59");
const K2: (&str, &str) = ("bbbbbbbb-2222-2222-2222-222222222222", "0102030405060708090a0b0c0d0e0f101112131415161718191a1b1c1d1e1f20");

fn spell(name: &str, mode: usize) -> String {
    match mode {
        0 => name.to_string(),
        1 => name
            .split('-')
            .map(|p| {
                let mut c = p.chars();
                match c.next() {
                    Some(f) => f.to_uppercase().collect::<String>() + c.as_str(),
                    None => String::new(),
                }
            })
            .collect::<Vec<_>>()
            .join("-"),
        _ => name.to_uppercase(),
    }
}

struct Sent {
    status: Result<u16, String>,
    at_host: Vec<Msg>,
    t_before: i64,
    t_after: i64,
}

fn send_one(w: &World, sport: u16, rec: &AuditRec, host_idx: usize, raw: &[u8]) -> Sent {
    let host = w.hosts.all()[host_idx];
    let cur = host.cursor();
    let t_before = hostcheck::now_unix();
    let status = match w.connect(Some(sport), Some(rec)) {
        Ok(mut c) => {
            let r = c.send(raw).map_err(|e| e.to_string()).and_then(|_| c.read_response(false, Duration::from_secs(10)).map(|m| m.status()));
            c.close();
            r
        }
        Err(e) => Err(format!("connect: {e}")),
    };
    let t_after = hostcheck::now_unix();
    Sent { status, at_host: host.requests_since(cur).into_iter().map(|(_, m)| m).collect(), t_before, t_after }
}

/// C05, "the date is the proxy's current time": the engine runs four times side by side in nested namespaces, three of
/// them under an LD_PRELOAD shim that sets CLOCK_REALTIME of the whole process (proxy, harness, oracle alike) to another
/// instant, from which it runs on at normal speed: a single-digit day of the month, the first seconds of a year, and the
/// last seconds of a leap day (the run crosses midnight into 1 March)
const FAKE_CLOCKS: [(&str, i64); 3] = [("2026-10-05T08:30:00Z", 1791189000), ("2027-01-01T00:00:00Z", 1798761600), ("2028-02-29T23:59:57Z", 1835481597)];

fn build_clock_shim() -> String {
    let dir = format!("{}/run", std::env::var("VERIF_TARGET").unwrap_or("/verif/target".into()));
    let _ = std::fs::create_dir_all(&dir);
    let c = format!("{dir}/fakeclock.{}.c", std::process::id());
    let so = format!("{dir}/fakeclock.{}.so", std::process::id());
    std::fs::write(
        &c,
        r#"#define _GNU_SOURCE
#include <time.h>
#include <dlfcn.h>
#include <stdlib.h>
static long off; static int init;
int clock_gettime(clockid_t c, struct timespec *ts) {
    static int (*real)(clockid_t, struct timespec *);
    if (!real) real = (int (*)(clockid_t, struct timespec *))dlsym(RTLD_NEXT, "clock_gettime");
    int r = real(c, ts);
    if (r == 0 && c == CLOCK_REALTIME) {
        if (!init) { const char *e = getenv("FAKE_REALTIME_AT"); if (e) off = atol(e) - ts->tv_sec; init = 1; }
        ts->tv_sec += off;
    }
    return r;
}
"#,
    )
    .unwrap();
    let o = std::process::Command::new("gcc").args(["-shared", "-fPIC", "-O1", "-o", &so, &c, "-ldl"]).output().unwrap_or_else(|e| vcommon::result::machinery(&format!("gcc: {e}")));
    if !o.status.success() {
        vcommon::result::machinery(&format!("cannot build the clock shim: {}", String::from_utf8_lossy(&o.stderr)));
    }
    let _ = std::fs::remove_file(&c);
    so
}

fn main() {
    world::install_panic_recorder();
    let thorough = is_thorough();
    let prop = std::env::var("VERIF_PROPERTY").unwrap_or("C05".into());
    if prop == "C05" && vcommon::result::worker().is_none() && std::env::var("VERIF_REPLAY").is_err() {
        let mut res = EngineResult::new(&prop);
        let so = build_clock_shim();
        let mut prep = String::from("ip addr add 168.63.129.16/32 dev lo; ip addr add 169.254.169.254/32 dev lo; ip addr add 127.0.0.2/8 dev lo 2>/dev/null; mount -t tmpfs tmpfs /var/lib/azure-proxy-agent; mount -t tmpfs tmpfs /var/log/azure-proxy-agent; ");
        for (i, (_, at)) in FAKE_CLOCKS.iter().enumerate() {
            prep.push_str(&format!("if [ \"$VERIF_WORKER\" = \"{}/4\" ]; then export LD_PRELOAD={so}; export FAKE_REALTIME_AT={at}; fi; ", i + 1));
        }
        vcommon::result::run_workers(&mut res, 4, &prep);
        let _ = std::fs::remove_file(&so);
        res.cov("exhaustive", true);
        res.cov("shifted_clock_runs", json!(FAKE_CLOCKS.iter().map(|c| c.0).collect::<Vec<_>>()));
        std::process::exit(res.finish());
    }
    let shifted = vcommon::result::worker().map_or(false, |(i, _)| i > 0) && prop == "C05";
    let w = World::start(WorldOpts::default());
    let mut res = EngineResult::new(&prop);
    let mut keys: HashMap<String, String> = HashMap::new();
    keys.insert(K1.0.into(), K1.1.into());
    keys.insert(K2.0.into(), K2.1.into());
    let root_pid = w.spawn_proc("/usr/bin/vt-waagent", &["100000"], None);
    let alice_pid = w.spawn_proc("/usr/bin/vt-curl", &["100000"], Some(1001));
    let callers = [("root-elevated", AuditRec::to(WS, 0, root_pid, true), 0usize, true), ("alice", AuditRec::to(IMDS, 1001, alice_pid, false), 2usize, false)];
    let mut sport: u16 = 30000;
    let mut next_port = || {
        sport = if sport >= 32000 { 30000 } else { sport + 1 };
        sport
    };
    let mut evals = 0u64;
    let mut nontrivial: BTreeSet<String> = BTreeSet::new();
    let mut relayed = 0u64;
    let mut sig_valid = 0u64;
    let mut sig_modulo = 0u64;

    if shifted {
        // the shim must be in force: the harness's own clock reads the shifted instant
        let at = std::env::var("FAKE_REALTIME_AT").ok().and_then(|v| v.parse::<i64>().ok()).unwrap_or(0);
        if (hostcheck::now_unix() - at).abs() > 120 {
            vcommon::result::machinery("the clock shim is not in force in this worker");
        }
        let mut n = 0u64;
        for round in 0..4 {
            for route in ["signed", "exempt", "nokey"] {
                w.set_key(if route == "nokey" { None } else { Some(K1) });
                for (clabel, rec, hidx, elevated) in &callers {
                    let raw = if route == "exempt" { build_request("PUT", "/vmAgentLog", &[("Host", b"metadata")], Some(b"log"), None) } else { build_request("GET", "/metadata/instance", &[("Host", b"metadata"), ("Metadata", b"true"), ("x-ms-azure-host-date", b"Thu, 01 Jan 2015 00:00:00 GMT")], None, None) };
                    let s = send_one(&w, next_port(), rec, *hidx, &raw);
                    n += 1;
                    let case = json!({"family": "shifted-clock", "clock_set_to": at, "route": route, "caller": clabel, "round": round});
                    match s.at_host.first() {
                        Some(m) => {
                            for (tag, what) in hostcheck::check_owned_headers(m, *elevated, s.t_before, s.t_after) {
                                res.violation(&format!("owned-header:{tag}:shifted-clock"), &format!("{what} (the proxy's clock reads {})", String::from_utf8_lossy(m.header_all(DATE).first().copied().unwrap_or(b"?"))), case.clone());
                            }
                        }
                        None => res.violation("not-relayed", "request not relayed under a shifted clock", case),
                    }
                }
            }
            std::thread::sleep(Duration::from_millis(1100));
        }
        res.cov("shifted_clock_requests", n);
        res.cov("evaluations", n);
        res.cov("distinct_nontrivial", n);
        std::process::exit(res.finish());
    }
    if prop == "C05" {
        // ---------------- C05 product ----------------
        let owned = [CLAIMS, DATE, AUTHZ];
        let plausible = ["{ \"isRoot\": \"true\"}", "Thu, 01 Jan 2015 00:00:00 GMT", "Azure-HMAC-SHA256 aaaaaaaa-1111-1111-1111-111111111111 00000000000000000000000000000000000000000000000000000000deadbeef"];
        let routes = ["signed", "exempt", "nokey"];
        for route in routes {
            w.set_key(if route == "nokey" { None } else { Some(K1) });
            for (clabel, rec, hidx, elevated) in &callers {
                for c0 in 0..3usize {
                    for c1 in 0..3usize {
                        for c2 in 0..3usize {
                            for sp in 0..3usize {
                                for vk in 0..2usize {
                                    if !thorough && vk == 1 && sp != 0 {
                                        continue;
                                    }
                                    let copies = [c0, c1, c2];
                                    let mut hdrs: Vec<(String, Vec<u8>)> = vec![("Host".into(), b"metadata".to_vec()), ("Metadata".into(), b"true".to_vec())];
                                    let mut spoofed: Vec<Vec<u8>> = Vec::new();
                                    for (i, name) in owned.iter().enumerate() {
                                        for k in 0..copies[i] {
                                            // alternate spelling between copies so that case-sensitive handling shows
                                            let nm = spell(name, (sp + k) % 3);
                                            let val = if vk == 0 { plausible[i].to_string() } else { format!("SPOOFED-{i}-{k}") };
                                            spoofed.push(val.clone().into_bytes());
                                            hdrs.push((nm, val.into_bytes()));
                                        }
                                    }
                                    let (method, target, body): (&str, &str, Option<&[u8]>) = if route == "exempt" { ("PUT", "/vmAgentLog", Some(b"log line")) } else { ("GET", "/metadata/instance?api-version=2021-02-01", None) };
                                    let hv: Vec<(&str, &[u8])> = hdrs.iter().map(|(n, v)| (n.as_str(), v.as_slice())).collect();
                                    let raw = build_request(method, target, &hv, body, None);
                                    let s = send_one(&w, next_port(), rec, *hidx, &raw);
                                    evals += 1;
                                    let case = json!({"route": route, "caller": clabel, "copies": {"claims": c0, "date": c1, "authorization": c2}, "spelling": sp, "value": if vk == 0 { "plausible" } else { "garbage" }});
                                    if c0 + c1 + c2 > 0 {
                                        nontrivial.insert(case.to_string());
                                    }
                                    if evals <= 2 || (c0 == 2 && c2 == 1 && res.samples.len() < 4) {
                                        res.sample(json!({"case": case, "status": format!("{:?}", s.status), "host_saw": s.at_host.first().map(|m| String::from_utf8_lossy(&m.raw_head).to_string())}));
                                    }
                                    if s.status != Ok(200) || s.at_host.len() != 1 {
                                        res.violation("not-relayed", &format!("authorized request not relayed exactly once: status {:?}, {} requests at host", s.status, s.at_host.len()), case.clone());
                                        continue;
                                    }
                                    relayed += 1;
                                    let m = &s.at_host[0];
                                    for (tag, what) in hostcheck::check_owned_headers(m, *elevated, s.t_before, s.t_after) {
                                        res.violation(&format!("owned-header:{tag}"), &what, case.clone());
                                    }
                                    // no client-supplied claims/date value may reach the host
                                    for name in [CLAIMS, DATE] {
                                        for v in m.header_all(name) {
                                            if vk == 1 && spoofed.iter().any(|sv| sv.as_slice() == v) {
                                                res.violation("owned-header:client-value-reached-host", &format!("client-supplied {name} value {:?} reached the host", String::from_utf8_lossy(v)), case.clone());
                                            }
                                        }
                                    }
                                    let sent_names: Vec<String> = hdrs.iter().map(|h| h.0.to_lowercase()).collect();
                                    if route == "signed" {
                                        match hostcheck::verify_signature(m, &keys, &sent_names) {
                                            SigVerdict::Valid { guid, modulo_framing } => {
                                                sig_valid += 1;
                                                if modulo_framing {
                                                    sig_modulo += 1;
                                                }
                                                if guid != K1.0 {
                                                    res.violation("signed:wrong-key-id", &format!("signed with key id {guid}"), case.clone());
                                                }
                                            }
                                            SigVerdict::Unsigned => res.violation("signed:no-authorization-header", "request on the signed route reached the host without authorization header", case.clone()),
                                            SigVerdict::Bad(why) => {
                                                let tag = if why.contains("authorization headers") { "authorization-count" } else { "authorization-invalid" };
                                                res.violation(&format!("signed:{tag}"), &format!("{why}; header block {:?}", String::from_utf8_lossy(&m.raw_head)), case.clone())
                                            }
                                        }
                                        for v in m.header_all(AUTHZ) {
                                            if spoofed.iter().any(|sv| sv.as_slice() == v) {
                                                res.violation("signed:client-authorization-reached-host", "client-supplied authorization value reached the host on a signed request", case.clone());
                                            }
                                        }
                                    }
                                }
                            }
                        }
                    }
                }
            }
        }
        // family: consecutive connections attributed to ONE process id whose kernel records differ (a daemon that drops
        // privileges keeps its pid; pid reuse): the claims header follows the record of the connection it travels on
        {
            w.set_key(Some(K1));
            let seq: Vec<(AuditRec, usize, bool)> = vec![
                (AuditRec::to(WS, 0, root_pid, true), 0, true),
                (AuditRec::to(IMDS, 1001, root_pid, false), 2, false),
                (AuditRec::to(WS, 0, root_pid, true), 0, true),
                (AuditRec::to(IMDS, 0, root_pid, false), 2, false),
                (AuditRec::to(IMDS, 1001, alice_pid, false), 2, false),
                (AuditRec::to(WS, 0, alice_pid, true), 0, true),
                (AuditRec::to(IMDS, 1001, alice_pid, false), 2, false),
            ];
            for (i, (rec, hidx, elevated)) in seq.iter().enumerate() {
                let raw = build_request("GET", "/metadata/instance", &[("Host", b"metadata"), ("Metadata", b"true"), ("x-ms-azure-host-claims", b"{ \"isRoot\": \"true\"}")], None, None);
                let s = send_one(&w, next_port(), rec, *hidx, &raw);
                evals += 1;
                let case = json!({"family": "one-pid-records-differ", "connection": i + 1, "elevated_per_record": elevated});
                nontrivial.insert(case.to_string());
                match s.at_host.first() {
                    Some(m) => {
                        for (tag, what) in hostcheck::check_owned_headers(m, *elevated, s.t_before, s.t_after) {
                            res.violation(&format!("owned-header:{tag}:one-pid-records-differ"), &format!("connection {} of a series attributed to one process id: {what}", i + 1), case.clone());
                        }
                    }
                    None => res.violation("not-relayed", &format!("connection {}: status {:?}", i + 1, s.status), case),
                }
            }
        }
        // family: the client's Connection header nominates the proxy-owned names as connection options
        // (a relay that honours RFC 7230 section 6.1 on the way out must not drop what it stamped itself)
        let mut judge = |res: &mut EngineResult, m: &Msg, elevated: bool, t0: i64, t1: i64, signed: bool, spoofed: &[Vec<u8>], sent_names: &[String], case: &serde_json::Value| {
            for (tag, what) in hostcheck::check_owned_headers(m, elevated, t0, t1) {
                res.violation(&format!("owned-header:{tag}"), &what, case.clone());
            }
            for name in [CLAIMS, DATE] {
                for v in m.header_all(name) {
                    if spoofed.iter().any(|sv| sv.as_slice() == v) {
                        res.violation("owned-header:client-value-reached-host", &format!("client-supplied {name} value {:?} reached the host", String::from_utf8_lossy(v)), case.clone());
                    }
                }
            }
            if signed {
                match hostcheck::verify_signature(m, &keys, sent_names) {
                    SigVerdict::Valid { .. } => {}
                    SigVerdict::Unsigned => res.violation("signed:no-authorization-header", "request on the signed route reached the host without authorization header", case.clone()),
                    SigVerdict::Bad(why) => {
                        let tag = if why.contains("authorization headers") { "authorization-count" } else { "authorization-invalid" };
                        res.violation(&format!("signed:{tag}"), &format!("{why}; header block {:?}", String::from_utf8_lossy(&m.raw_head)), case.clone())
                    }
                }
                for v in m.header_all(AUTHZ) {
                    if spoofed.iter().any(|sv| sv.as_slice() == v) {
                        res.violation("signed:client-authorization-reached-host", "client-supplied authorization value reached the host on a signed request", case.clone());
                    }
                }
            }
        };
        let conn_values = ["keep-alive, x-ms-azure-host-claims, X-Ms-Azure-Host-Date, x-ms-azure-host-authorization", "x-ms-azure-host-claims", "close, X-MS-AZURE-HOST-DATE", "TE, x-ms-azure-host-authorization, x-ms-azure-host-date"];
        let mut conn_n = 0u64;
        for route in ["signed", "nokey"] {
            w.set_key(if route == "nokey" { None } else { Some(K1) });
            for (clabel, rec, hidx, elevated) in &callers {
                for cv in conn_values {
                    for copies in [0usize, 1] {
                        for hname in ["Connection", "Proxy-Connection"] {
                            let mut hdrs: Vec<(String, Vec<u8>)> = vec![("Host".into(), b"metadata".to_vec()), ("Metadata".into(), b"true".to_vec()), (hname.into(), cv.as_bytes().to_vec())];
                            let mut spoofed: Vec<Vec<u8>> = Vec::new();
                            for (i, name) in owned.iter().enumerate() {
                                for k in 0..copies {
                                    let val = format!("SPOOFED-{i}-{k}");
                                    spoofed.push(val.clone().into_bytes());
                                    hdrs.push((name.to_string(), val.into_bytes()));
                                }
                            }
                            let hv: Vec<(&str, &[u8])> = hdrs.iter().map(|(n, v)| (n.as_str(), v.as_slice())).collect();
                            let raw = build_request("GET", "/metadata/instance?api-version=2021-02-01", &hv, None, None);
                            let s = send_one(&w, next_port(), rec, *hidx, &raw);
                            evals += 1;
                            conn_n += 1;
                            let case = json!({"family": "connection-options", "route": route, "caller": clabel, "header": hname, "value": cv, "client_copies_of_each_owned_header": copies});
                            nontrivial.insert(case.to_string());
                            if s.status != Ok(200) || s.at_host.len() != 1 {
                                res.violation("not-relayed", &format!("authorized request not relayed exactly once: status {:?}, {} requests at host", s.status, s.at_host.len()), case.clone());
                                continue;
                            }
                            relayed += 1;
                            let sent_names: Vec<String> = hdrs.iter().map(|h| h.0.to_lowercase()).collect();
                            judge(&mut res, &s.at_host[0], *elevated, s.t_before, s.t_after, route == "signed", &spoofed, &sent_names, &case);
                        }
                    }
                }
            }
        }
        res.cov("connection_option_requests", conn_n);
        // family: a chunked request whose TRAILER section carries fields named like the proxy-owned headers
        let mut trailer_n = 0u64;
        for route in ["signed", "exempt", "nokey"] {
            w.set_key(if route == "nokey" { None } else { Some(K1) });
            for (clabel, rec, hidx, elevated) in &callers {
                for declared in [false, true] {
                    for sp in 0..2usize {
                        let (method, target) = if route == "exempt" { ("PUT", "/vmAgentLog") } else { ("POST", "/metadata/instance?api-version=2021-02-01") };
                        let mut raw = format!("{method} {target} HTTP/1.1\r\nHost: metadata\r\nMetadata: true\r\nTransfer-Encoding: chunked\r\n").into_bytes();
                        if declared {
                            raw.extend_from_slice(b"Trailer: x-ms-azure-host-claims, x-ms-azure-host-date, x-ms-azure-host-authorization\r\n");
                        }
                        raw.extend_from_slice(b"\r\n8\r\nlog line\r\n0\r\n");
                        let mut spoofed: Vec<Vec<u8>> = Vec::new();
                        for (i, name) in owned.iter().enumerate() {
                            let val = format!("SPOOFED-TRAILER-{i}");
                            spoofed.push(val.clone().into_bytes());
                            raw.extend_from_slice(format!("{}: {val}\r\n", spell(name, sp * 2)).as_bytes());
                        }
                        raw.extend_from_slice(b"\r\n");
                        let s = send_one(&w, next_port(), rec, *hidx, &raw);
                        evals += 1;
                        trailer_n += 1;
                        let case = json!({"family": "trailer-fields", "route": route, "caller": clabel, "trailer_header_declares_them": declared, "spelling": sp * 2});
                        nontrivial.insert(case.to_string());
                        if s.status != Ok(200) || s.at_host.len() != 1 {
                            res.violation("not-relayed", &format!("authorized chunked request with trailer fields not relayed exactly once: status {:?}, {} requests at host", s.status, s.at_host.len()), case.clone());
                            continue;
                        }
                        relayed += 1;
                        let mut sent_names: Vec<String> = vec!["host".into(), "metadata".into(), "transfer-encoding".into()];
                        if declared {
                            sent_names.push("trailer".into());
                        }
                        judge(&mut res, &s.at_host[0], *elevated, s.t_before, s.t_after, route == "signed", &spoofed, &sent_names, &case);
                    }
                }
            }
        }
        res.cov("trailer_field_requests", trailer_n);
        // family: requests on one kept-alive client connection while the host closes its side after each answer
        // (whatever the proxy does to get a later request through, what arrives is judged like any relayed request)
        let closing: vcommon::rawhttp::Responder = std::sync::Arc::new(|_m: &Msg, _c, _i| Action::ReplyClose(vec![simple_response(200, &[], b"ok")]));
        let mut hostclose_n = 0u64;
        for route in ["signed", "nokey"] {
            w.set_key(if route == "nokey" { None } else { Some(K1) });
            for (clabel, rec, hidx, elevated) in &callers {
                for gap_ms in [0u64, 60] {
                    let host = w.hosts.all()[*hidx];
                    host.set_responder(closing.clone());
                    if let Ok(mut c) = w.connect(Some(next_port()), Some(rec)) {
                        for step in 0..3usize {
                            let mut hdrs: Vec<(String, Vec<u8>)> = vec![("Host".into(), b"metadata".to_vec()), ("Metadata".into(), b"true".to_vec())];
                            let mut spoofed: Vec<Vec<u8>> = Vec::new();
                            if step > 0 {
                                for (i, name) in owned.iter().enumerate() {
                                    let val = if i == 2 { plausible[2].to_string() } else { format!("SPOOFED-{i}-{step}") };
                                    spoofed.push(val.clone().into_bytes());
                                    hdrs.push((name.to_string(), val.into_bytes()));
                                }
                            }
                            let hv: Vec<(&str, &[u8])> = hdrs.iter().map(|(n, v)| (n.as_str(), v.as_slice())).collect();
                            let raw = build_request("GET", "/metadata/instance?api-version=2021-02-01", &hv, None, None);
                            let cur = host.cursor();
                            let t0 = hostcheck::now_unix();
                            let st = c.send(&raw).map_err(|e| e.to_string()).and_then(|_| c.read_response(false, Duration::from_secs(10)).map(|m| m.status()));
                            let t1 = hostcheck::now_unix();
                            evals += 1;
                            hostclose_n += 1;
                            let case = json!({"family": "host-closes-after-each-answer", "route": route, "caller": clabel, "request_on_connection": step + 1, "gap_ms": gap_ms});
                            nontrivial.insert(case.to_string());
                            let sent_names: Vec<String> = hdrs.iter().map(|h| h.0.to_lowercase()).collect();
                            for (_, m) in host.requests_since(cur) {
                                relayed += 1;
                                judge(&mut res, &m, *elevated, t0, t1, route == "signed", &spoofed, &sent_names, &case);
                            }
                            if st.is_err() {
                                break;
                            }
                            std::thread::sleep(Duration::from_millis(gap_ms));
                        }
                        c.close();
                    }
                    host.set_responder(std::sync::Arc::new(|_m: &Msg, _c, _i| Action::Reply(vec![simple_response(200, &[], b"ok")])));
                }
            }
        }
        res.cov("host_closes_between_requests", hostclose_n);
        // family: the host's own Date header is far off the proxy's clock (an unsynchronised host, a cached answer): the
        // date the proxy stamps on later requests is still the proxy's current time
        let mut skew_n = 0u64;
        for route in ["signed", "nokey"] {
            w.set_key(if route == "nokey" { None } else { Some(K1) });
            for (clabel, rec, hidx, elevated) in &callers {
                for host_date in ["Thu, 01 Jan 2015 00:00:00 GMT", "Fri, 01 Jan 2100 00:00:00 GMT", "not a date"] {
                    let host = w.hosts.all()[*hidx];
                    let hd = host_date.to_string();
                    host.set_responder(std::sync::Arc::new(move |_m: &Msg, _c, _i| Action::Reply(vec![simple_response(200, &[("Date", hd.as_str())], b"ok")])));
                    for step in 0..3usize {
                        let hv: Vec<(&str, &[u8])> = vec![("Host", b"metadata"), ("Metadata", b"true")];
                        let raw = build_request("GET", "/metadata/instance?api-version=2021-02-01", &hv, None, None);
                        let s = send_one(&w, next_port(), rec, *hidx, &raw);
                        evals += 1;
                        skew_n += 1;
                        let case = json!({"family": "host-date-skew", "route": route, "caller": clabel, "host_date_header": host_date, "request": step + 1});
                        nontrivial.insert(case.to_string());
                        if s.status != Ok(200) || s.at_host.len() != 1 {
                            res.violation("not-relayed", &format!("authorized request not relayed exactly once: status {:?}, {} requests at host", s.status, s.at_host.len()), case.clone());
                            continue;
                        }
                        relayed += 1;
                        let sent_names: Vec<String> = hv.iter().map(|h| h.0.to_lowercase()).collect();
                        judge(&mut res, &s.at_host[0], *elevated, s.t_before, s.t_after, route == "signed", &[], &sent_names, &case);
                    }
                    host.set_responder(std::sync::Arc::new(|_m: &Msg, _c, _i| Action::Reply(vec![simple_response(200, &[], b"ok")])));
                }
            }
        }
        res.cov("host_date_skew_requests", skew_n);
        // family: a kept-alive connection that is used a while after it was opened and then again later: each request carries
        // the proxy's time at that request (2.5 s gaps: the tolerance is one second)
        let mut ka_date_n = 0u64;
        {
            w.set_key(Some(K1));
            let (clabel, rec, hidx, elevated) = &callers[1];
            let host = w.hosts.all()[*hidx];
            host.set_responder(std::sync::Arc::new(|_m: &Msg, _c, _i| Action::Reply(vec![simple_response(200, &[], b"ok")])));
            if let Ok(mut c) = w.connect(Some(next_port()), Some(rec)) {
                for step in 0..3usize {
                    std::thread::sleep(Duration::from_millis(2500));
                    let hv: Vec<(&str, &[u8])> = vec![("Host", b"metadata"), ("Metadata", b"true")];
                    let raw = build_request("GET", "/metadata/instance?api-version=2021-02-01", &hv, None, None);
                    let cur = host.cursor();
                    let t0 = hostcheck::now_unix();
                    let st = c.send(&raw).map_err(|e| e.to_string()).and_then(|_| c.read_response(false, Duration::from_secs(10)).map(|m| m.status()));
                    let t1 = hostcheck::now_unix();
                    evals += 1;
                    ka_date_n += 1;
                    let case = json!({"family": "kept-alive-connection-used-later", "caller": clabel, "request_on_connection": step + 1, "seconds_since_connect": 2.5 * (step + 1) as f64});
                    nontrivial.insert(case.to_string());
                    let sent_names: Vec<String> = hv.iter().map(|h| h.0.to_lowercase()).collect();
                    let got = host.requests_since(cur);
                    if st != Ok(200) || got.len() != 1 {
                        res.violation("not-relayed", &format!("request {} on a kept-alive connection: status {:?}, {} requests at host", step + 1, st, got.len()), case.clone());
                        break;
                    }
                    relayed += 1;
                    judge(&mut res, &got[0].1, *elevated, t0, t1, true, &[], &sent_names, &case);
                }
                c.close();
            }
        }
        res.cov("kept_alive_connection_used_later_requests", ka_date_n);
        // date stays current over time (thorough only: needs > 60 s of real time)
        if thorough {
            w.set_key(Some(K1));
            let (clabel, rec, hidx, elevated) = &callers[1];
            // consecutive requests exactly 1, 59, 60, 60 and 120 wall-clock seconds apart (a value kept
            // from the previous request is only wrong when the clock has moved on by then; gaps of whole
            // minutes are the case a second-of-minute comparison cannot see)
            let unix = || std::time::SystemTime::now().duration_since(std::time::UNIX_EPOCH).unwrap().as_secs();
            let start = unix();
            let mut offsets_done = Vec::new();
            let mut aligned = 0u64;
            for off in [0u64, 1, 60, 120, 180, 300] {
                while unix() < start + off {
                    std::thread::sleep(Duration::from_millis(20));
                }
                if unix() == start + off {
                    aligned += 1;
                }
                let raw = build_request("GET", "/metadata/instance", &[("Host", b"metadata"), ("Metadata", b"true")], None, None);
                let s = send_one(&w, next_port(), rec, *hidx, &raw);
                evals += 1;
                offsets_done.push(off);
                let case = json!({"family": "date-over-time", "offset_s": off, "caller": clabel});
                nontrivial.insert(case.to_string());
                if let Some(m) = s.at_host.first() {
                    for (tag, what) in hostcheck::check_owned_headers(m, *elevated, s.t_before, s.t_after) {
                        res.violation(&format!("owned-header:{tag}"), &format!("{what} (request sent {off}s after the first one)"), case.clone());
                    }
                } else {
                    res.violation("not-relayed", "request not relayed", case.clone());
                }
            }
            res.cov("date_over_time_offsets_s", json!(offsets_done));
            res.cov("date_over_time_requests_sent_in_the_intended_second", json!(aligned));
        }
        res.cov(
            "rule",
            format!("full product: copies of each of the three proxy-owned header names in {{0,1,2}}^3 x 3 spellings (alternating between copies) x {{plausible, garbage}} values x {{elevated caller -> WireServer, non-elevated -> IMDS}} x routes {{signed, signature-exempt upload, no key latched}}{}; each request on a fresh attributed connection; + 7 consecutive connections attributed to one process id whose records differ in user and elevation; + Connection / Proxy-Connection headers nominating the proxy-owned names (4 values x with/without client copies x signed/no key x 2 callers); + chunked requests whose trailer section carries fields named like the proxy-owned headers (3 routes x 2 callers x declared/undeclared x 2 spellings); + 3 consecutive requests while the host's own Date header is decades off (past, future, garbage); + 3 requests on one kept-alive connection while the host closes its side after every answer (later requests carry client copies; whatever reaches the host is judged); + the same engine three more times under a shifted wall clock (a single-digit day of the month, the first seconds of a year, the last seconds of a leap day running into 1 March; LD_PRELOAD shim on clock_gettime), the date header judged as strict IMF-fixdate; non-trivial = at least one client-supplied copy", if thorough { " + requests at wall-clock offsets 0/1/60/120/180/300 s (consecutive gaps 1, 59, 60, 60, 120 s) for the date header" } else { " (quick: garbage values only with lower-case spelling)" }),
        );
    } else {
        // ---------------- C04 end to end ----------------
        // family A: proxied requests, key latched
        let methods = ["GET", "POST", "PUT", "DELETE"];
        let targets = ["/", "/a?b=c", "/A%2Fb?K=V&a", "/metadata/instance?api-version=2018-02-01&format=json", "/machine?comp=goalstate", "/a?x=%20&y", "/a?b=2&a=1&c"];
        let hsets: Vec<Vec<(&str, &[u8])>> = vec![
            vec![],
            vec![("x-a", b"1")],
            vec![("X-Mixed-Case", b"  padded value  ")],
            vec![("Content-Type", b"application/json"), ("Accept", b"*/*"), ("User-Agent", b"curl/8.0")],
            vec![("x-ms-version", b"2012-11-30"), ("x-ms-client-request-id", b"0000")],
            vec![("Expect", b"100-continue")],
            vec![("x-ms-azure-host-authorization", b"Azure-HMAC-SHA256 aaaaaaaa-1111-1111-1111-111111111111 0000000000000000000000000000000000000000000000000000000000000000")],
            // connection-management headers as many clients send them (whatever the proxy makes of them: the MAC covers what the host receives)
            vec![("Connection", b"keep-alive"), ("Keep-Alive", b"timeout=5, max=100")],
            vec![("Proxy-Connection", b"keep-alive"), ("TE", b"trailers")],
        ];
        let big = vec![b'z'; 1000];
        let bodies: Vec<(Option<&[u8]>, Option<&[usize]>)> = vec![(None, None), (Some(b"x"), None), (Some(&big), None), (Some(&big), Some(&[7, 300])), (Some(b""), None)];
        for key in [K1, K2] {
            w.set_key(Some(key));
            for (clabel, rec, hidx, _elev) in &callers {
                for m in methods {
                    for t in targets {
                        for (hi, hs) in hsets.iter().enumerate() {
                            for (bi, (b, ch)) in bodies.iter().enumerate() {
                                if !thorough && (key.0 == K2.0 || (hi > 1 && bi > 1)) && !(hi == 5 && bi == 2 && key.0 == K1.0) {
                                    continue;
                                }
                                if m == "GET" && b.is_some() {
                                    continue;
                                }
                                let mut hv: Vec<(&str, &[u8])> = vec![("Host", b"metadata"), ("Metadata", b"true")];
                                hv.extend(hs.iter().cloned());
                                let raw = build_request(m, t, &hv, *b, *ch);
                                let s = send_one(&w, next_port(), rec, *hidx, &raw);
                                evals += 1;
                                let case = json!({"family": "proxied", "key": key.0, "caller": clabel, "method": m, "target": t, "headers": hi, "body": bi});
                                nontrivial.insert(format!("{m}{t}{hi}{bi}"));
                                if evals <= 2 {
                                    res.sample(json!({"case": case, "status": format!("{:?}", s.status), "host_saw_head": s.at_host.first().map(|m| String::from_utf8_lossy(&m.raw_head).to_string())}));
                                }
                                if s.status != Ok(200) || s.at_host.len() != 1 {
                                    res.violation("proxied:not-relayed", &format!("status {:?}, {} requests at host", s.status, s.at_host.len()), case);
                                    continue;
                                }
                                relayed += 1;
                                let mut sent: Vec<String> = hv.iter().map(|h| h.0.to_lowercase()).collect();
                                if b.is_some() {
                                    sent.push(if ch.is_some() { "transfer-encoding".into() } else { "content-length".into() });
                                }
                                match hostcheck::verify_signature(&s.at_host[0], &keys, &sent) {
                                    SigVerdict::Valid { guid, modulo_framing } => {
                                        sig_valid += 1;
                                        sig_modulo += modulo_framing as u64;
                                        if guid != key.0 {
                                            res.violation("proxied:wrong-key-id", &format!("signed with {guid} while {} is latched", key.0), case);
                                        }
                                    }
                                    SigVerdict::Unsigned => res.violation("proxied:unsigned-while-key-latched", "relayed without authorization header while a key is latched", case),
                                    SigVerdict::Bad(why) => res.violation(
                                        &format!("proxied:mac-invalid:headers{hi}:body{bi}"),
                                        &format!("{why}; host received head {:?}", String::from_utf8_lossy(&s.at_host[0].raw_head)),
                                        case,
                                    ),
                                }
                            }
                        }
                    }
                }
            }
        }
        // slow uploads: the body follows the head 1.2 s later, so the clock second changes while the proxy holds the
        // request (whatever the proxy stamps, the MAC must cover the request as the host receives it)
        w.set_key(Some(K1));
        let mut slow_n = 0u64;
        for (clabel, rec, hidx, _elev) in &callers {
            for (bi, ch) in [None, Some(&[3usize][..])].iter().enumerate() {
                if !thorough && bi == 1 {
                    continue;
                }
                let hv: Vec<(&str, &[u8])> = vec![("Host", b"metadata"), ("Metadata", b"true"), ("x-a", b"1")];
                let raw = build_request("POST", "/a?b=c", &hv, Some(b"slow body"), *ch);
                let head_len = raw.windows(4).position(|x| x == b"\r\n\r\n").unwrap() + 4;
                let host = w.hosts.all()[*hidx];
                let cur = host.cursor();
                let status = match w.connect(Some(next_port()), Some(rec)) {
                    Ok(mut c) => {
                        let r = c.send(&raw[..head_len]).map_err(|e| e.to_string()).and_then(|_| {
                            std::thread::sleep(Duration::from_millis(1200));
                            c.send(&raw[head_len..]).map_err(|e| e.to_string())
                        });
                        let r = r.and_then(|_| c.read_response(false, Duration::from_secs(10)).map(|m| m.status()));
                        c.close();
                        r
                    }
                    Err(e) => Err(format!("connect: {e}")),
                };
                let at_host: Vec<Msg> = host.requests_since(cur).into_iter().map(|(_, m)| m).collect();
                evals += 1;
                slow_n += 1;
                let case = json!({"family": "slow-body", "caller": clabel, "framing": if ch.is_some() { "chunked" } else { "content-length" }, "pause_ms": 1200});
                nontrivial.insert(case.to_string());
                if status != Ok(200) || at_host.len() != 1 {
                    res.violation("proxied:not-relayed", &format!("slow upload: status {:?}, {} requests at host", status, at_host.len()), case);
                    continue;
                }
                relayed += 1;
                let mut sent: Vec<String> = hv.iter().map(|h| h.0.to_lowercase()).collect();
                sent.push(if ch.is_some() { "transfer-encoding".into() } else { "content-length".into() });
                match hostcheck::verify_signature(&at_host[0], &keys, &sent) {
                    SigVerdict::Valid { modulo_framing, .. } => {
                        sig_valid += 1;
                        sig_modulo += modulo_framing as u64;
                    }
                    SigVerdict::Unsigned => res.violation("proxied:unsigned-while-key-latched", "slow upload relayed without authorization header", case),
                    SigVerdict::Bad(why) => res.violation("proxied:mac-invalid:slow-body", &format!("{why}; host received head {:?}", String::from_utf8_lossy(&at_host[0].raw_head)), case),
                }
            }
        }
        res.cov("slow_body_requests", slow_n);
        // the key in force when a request arrives signs it, also on a connection opened under another key (or none)
        let mut ka_n = 0u64;
        for (clabel, rec, hidx, _elev) in &callers {
            for (before, after) in [(None, K1), (Some(K1), K2), (Some(K2), K1)] {
                w.set_key(before);
                let host = w.hosts.all()[*hidx];
                if let Ok(mut c) = w.connect(Some(next_port()), Some(rec)) {
                    for step in 0..3usize {
                        if step == 1 {
                            w.set_key(Some(after));
                        }
                        let want = if step == 0 { before } else { Some(after) };
                        let hv: Vec<(&str, &[u8])> = vec![("Host", b"metadata"), ("Metadata", b"true")];
                        let raw = build_request("GET", "/a?b=c", &hv, None, None);
                        let cur = host.cursor();
                        let st = c.send(&raw).map_err(|e| e.to_string()).and_then(|_| c.read_response(false, Duration::from_secs(10)).map(|m| m.status()));
                        let at_host: Vec<Msg> = host.requests_since(cur).into_iter().map(|(_, m)| m).collect();
                        evals += 1;
                        ka_n += 1;
                        let case = json!({"family": "keep-alive-key-change", "caller": clabel, "key_when_connection_opened": before.map(|k| k.0), "key_latched_later": after.0, "request_on_connection": step + 1});
                        nontrivial.insert(case.to_string());
                        if st != Ok(200) || at_host.len() != 1 {
                            res.violation("proxied:not-relayed", &format!("keep-alive request: status {:?}, {} requests at host", st, at_host.len()), case);
                            break;
                        }
                        relayed += 1;
                        let sent: Vec<String> = hv.iter().map(|h| h.0.to_lowercase()).collect();
                        match (want, hostcheck::verify_signature(&at_host[0], &keys, &sent)) {
                            (Some(k), SigVerdict::Valid { guid, .. }) => {
                                sig_valid += 1;
                                if guid != k.0 {
                                    res.violation("proxied:wrong-key-id:keep-alive", &format!("signed with {guid} while {} is the latched key (the connection was opened under {:?})", k.0, before.map(|k| k.0)), case);
                                }
                            }
                            (Some(k), SigVerdict::Unsigned) => res.violation("proxied:unsigned-while-key-latched:keep-alive", &format!("relayed without authorization header while {} is latched (the connection was opened under {:?})", k.0, before.map(|k| k.0)), case),
                            (None, SigVerdict::Unsigned) => {}
                            (None, SigVerdict::Valid { .. }) => res.violation("proxied:signed-without-key", "authorization header although no key is latched", case),
                            (_, SigVerdict::Bad(why)) => res.violation("proxied:mac-invalid:keep-alive", &why, case),
                        }
                    }
                    c.close();
                }
            }
        }
        res.cov("keepalive_key_change_requests", ka_n);
        // a key is latched while the published channel state (still) says disabled / Unknown / something else: the state
        // label is no input of signing
        {
            let kk = w.shared.get_key_keeper_shared_state();
            for state in ["disabled", "Unknown", "wireserver", "", "DISABLED"] {
                w.set_key(Some(K1));
                w.rt.block_on(async { kk.update_current_secure_channel_state(state.to_string()).await.unwrap() });
                for (clabel, rec, hidx, _elev) in &callers {
                    let host = w.hosts.all()[*hidx];
                    let hv: Vec<(&str, &[u8])> = vec![("Host", b"metadata"), ("Metadata", b"true")];
                    let raw = build_request("GET", "/a?b=c", &hv, None, None);
                    let s1 = send_one(&w, next_port(), rec, *hidx, &raw);
                    let _ = host;
                    evals += 1;
                    let case = json!({"family": "key-latched-under-state-label", "published_state": state, "caller": clabel});
                    nontrivial.insert(case.to_string());
                    let sent: Vec<String> = hv.iter().map(|h| h.0.to_lowercase()).collect();
                    match s1.at_host.first().map(|m| hostcheck::verify_signature(m, &keys, &sent)) {
                        Some(SigVerdict::Valid { .. }) => sig_valid += 1,
                        Some(SigVerdict::Unsigned) => res.violation("proxied:unsigned-while-key-latched:state-label", &format!("a key is latched and the published channel state is {state:?}: the request was relayed without authorization header"), case),
                        Some(SigVerdict::Bad(why)) => res.violation("proxied:mac-invalid:state-label", &why, case),
                        None => res.violation("proxied:not-relayed", &format!("state {state:?}: status {:?}", s1.status), case),
                    }
                }
            }
            w.rt.block_on(async { kk.update_current_secure_channel_state("wireserver".to_string()).await.unwrap() });
        }
        // burst (SAMPLED family: the server-side interleaving is whatever the runtime does): many attributed connections, one
        // request each, all sent before any response is read, while a key is latched: every one of them arrives signed
        let nburst = if thorough { 800usize } else { 400 };
        {
            w.set_key(Some(K1));
            let (clabel, rec, hidx, _elev) = &callers[0];
            let host = w.hosts.all()[*hidx];
            let hv: Vec<(&str, &[u8])> = vec![("Host", b"metadata"), ("Metadata", b"true")];
            let sent: Vec<String> = hv.iter().map(|h| h.0.to_lowercase()).collect();
            let mut conns: Vec<vcommon::rawhttp::Client> = Vec::new();
            for _ in 0..nburst {
                let port = next_port();
                match w.connect(Some(port), Some(rec)) {
                    Ok(c) => conns.push(c),
                    Err(e) => vcommon::result::machinery(&format!("burst connect: {e}")),
                }
                // the kernel map holds 200 records: never leave more than a few waiting to be picked up
                let t = std::time::Instant::now();
                while w.audit_present(port) && t.elapsed() < Duration::from_secs(10) {
                    std::thread::sleep(Duration::from_micros(200));
                }
            }
            let cur = host.cursor();
            // the subject's worker threads are kept busy for a moment (as when they are descheduled) while the requests
            // arrive, so that all of them become ready in one batch
            // (held until every request has been written, at most 3 s: how long that takes depends on the machine's load)
            let go = std::sync::Arc::new(std::sync::atomic::AtomicBool::new(false));
            for _ in 0..4 {
                let go = go.clone();
                w.rt.spawn(async move {
                    let t = std::time::Instant::now();
                    while !go.load(std::sync::atomic::Ordering::SeqCst) && t.elapsed() < Duration::from_secs(3) {
                        std::thread::sleep(Duration::from_millis(1));
                    }
                });
            }
            std::thread::sleep(Duration::from_millis(5));
            for (i, cl) in conns.iter_mut().enumerate() {
                let _ = cl.send(&build_request("GET", &format!("/burst?i={i}"), &hv, None, None));
            }
            std::thread::sleep(Duration::from_millis(20));
            go.store(true, std::sync::atomic::Ordering::SeqCst);
            let mut answered = 0usize;
            for cl in conns.iter_mut() {
                if cl.read_response(false, Duration::from_secs(20)).map(|m| m.status()) == Ok(200) {
                    answered += 1;
                }
            }
            for cl in conns {
                cl.close();
            }
            let at_host: Vec<Msg> = host.requests_since(cur).into_iter().map(|(_, m)| m).filter(|m| m.target().starts_with("/burst")).collect();
            evals += nburst as u64;
            let (mut unsigned, mut bad) = (0usize, 0usize);
            for m in &at_host {
                match hostcheck::verify_signature(m, &keys, &sent) {
                    SigVerdict::Valid { .. } => sig_valid += 1,
                    SigVerdict::Unsigned => unsigned += 1,
                    SigVerdict::Bad(_) => bad += 1,
                }
            }
            let case = json!({"family": "burst-while-key-latched", "caller": clabel, "connections": nburst});
            nontrivial.insert(case.to_string());
            if unsigned > 0 || bad > 0 || at_host.len() != nburst {
                res.violation("proxied:unsigned-while-key-latched:burst", &format!("{nburst} concurrent requests while a key is latched: {answered} answered 200, {} reached the host, {unsigned} of them without authorization header, {bad} with an invalid one", at_host.len()), case);
            }
        }
        res.cov("burst_requests_sampled", nburst as u64);
        // the same pressure without a scheduler's help: one task polls 300 key reads in a row (the other worker thread is
        // held meanwhile, so the key keeper's state task cannot run in between and its action queue of 100 fills up); each
        // read must wait its turn and return the latched key, none may come back empty-handed
        {
            use std::future::Future;
            w.set_key(Some(K1));
            let kk = w.shared.get_key_keeper_shared_state();
            let go = std::sync::Arc::new(std::sync::atomic::AtomicBool::new(false));
            let g2 = go.clone();
            w.rt.spawn(async move {
                let t = std::time::Instant::now();
                while !g2.load(std::sync::atomic::Ordering::SeqCst) && t.elapsed() < Duration::from_secs(3) {
                    std::thread::sleep(Duration::from_millis(1));
                }
            });
            std::thread::sleep(Duration::from_millis(10));
            let n_reads = 300usize;
            let (ok, failed, empty) = w.rt.block_on(async {
                let h = tokio::spawn(async move {
                    let mut futs: Vec<std::pin::Pin<Box<dyn Future<Output = Option<Result<Option<String>, String>>> + Send>>> = Vec::new();
                    for _ in 0..n_reads {
                        let kk = kk.clone();
                        futs.push(Box::pin(async move { Some(kk.get_current_key_guid().await.map_err(|e| e.to_string())) }));
                    }
                    let mut out: Vec<Option<Result<Option<String>, String>>> = (0..n_reads).map(|_| None).collect();
                    std::future::poll_fn(|cx| {
                        let mut pending = false;
                        for (i, f) in futs.iter_mut().enumerate() {
                            if out[i].is_none() {
                                match f.as_mut().poll(cx) {
                                    std::task::Poll::Ready(v) => out[i] = v,
                                    std::task::Poll::Pending => pending = true,
                                }
                            }
                        }
                        if pending {
                            std::task::Poll::Pending
                        } else {
                            std::task::Poll::Ready(())
                        }
                    })
                    .await;
                    out
                });
                tokio::time::sleep(Duration::from_millis(30)).await;
                go.store(true, std::sync::atomic::Ordering::SeqCst);
                let out = h.await.unwrap_or_default();
                let ok = out.iter().filter(|r| matches!(r, Some(Ok(Some(g))) if g == K1.0)).count();
                let failed = out.iter().filter(|r| matches!(r, Some(Err(_)))).count();
                let empty = out.iter().filter(|r| matches!(r, Some(Ok(None)))).count();
                (ok, failed, empty)
            });
            evals += n_reads as u64;
            if ok != n_reads {
                res.violation("key-read-empty-handed-while-latched:queue-pressure", &format!("{n_reads} reads of the latched key issued back to back by one task (more than the state task's queue holds): {ok} returned the key, {failed} failed, {empty} returned none - a request signed at that moment goes out unsigned"), json!({"family": "key-reads-under-queue-pressure", "reads": n_reads}));
            }
            res.cov("key_reads_under_queue_pressure", n_reads as u64);
        }
        // exempt uploads: relayed unchanged, no signature demanded; while no key: nothing signed
        w.set_key(Some(K1));
        for (m, t, exempt) in [("PUT", "/vmAgentLog", true), ("POST", "/machine/?comp=telemetrydata", true), ("PUT", "/VMAGENTLOG", true), ("PUT", "/vmAgentLog?x=1", false), ("POST", "/vmAgentLog", false), ("PUT", "/machine/?comp=telemetrydata", false)] {
            let (clabel, rec, hidx, _) = &callers[0];
            let raw = build_request(m, t, &[("Host", b"metadata")], Some(b"payload"), None);
            let s = send_one(&w, next_port(), rec, *hidx, &raw);
            evals += 1;
            let case = json!({"family": "exempt", "caller": clabel, "method": m, "target": t});
            nontrivial.insert(case.to_string());
            if s.at_host.len() != 1 {
                res.violation("exempt:not-relayed", &format!("status {:?}", s.status), case);
                continue;
            }
            let v = hostcheck::verify_signature(&s.at_host[0], &keys, &["host".into(), "content-length".into()]);
            match (exempt, v) {
                (false, SigVerdict::Valid { .. }) => sig_valid += 1,
                (false, other) => res.violation("proxied:near-miss-of-exempt-url-not-signed", &format!("{m} {t} is not a documented exempt upload but reached the host {:?}", other), case),
                (true, SigVerdict::Bad(why)) => res.violation("exempt:bad-authorization", &why, case),
                (true, _) => {}
            }
        }
        w.set_key(None);
        for (clabel, rec, hidx, _) in &callers {
            let raw = build_request("GET", "/a?b=c", &[("Host", b"metadata")], None, None);
            let s = send_one(&w, next_port(), rec, *hidx, &raw);
            evals += 1;
            if let Some(m) = s.at_host.first() {
                if hostcheck::verify_signature(m, &keys, &[]) != SigVerdict::Unsigned {
                    res.violation("proxied:signed-without-key", "authorization header although no key is latched", json!({"family": "nokey", "caller": clabel}));
                }
            }
        }

        // family B: the agent's own host calls
        let goalstate = r#"<?xml version="1.0" encoding="utf-8"?><GoalState><Version>2015-04-05</Version><Incarnation>16</Incarnation><Machine><ExpectedState>Started</ExpectedState><StopRolesDeadlineHint>300000</StopRolesDeadlineHint><LBProbePorts><Port>16001</Port></LBProbePorts><ExpectHealthReport>FALSE</ExpectHealthReport></Machine><Container><ContainerId>c</ContainerId><RoleInstanceList><RoleInstance><InstanceId>i</InstanceId><State>Started</State><Configuration><HostingEnvironmentConfig>http://168.63.129.16:80/machine/c/i?comp=config&amp;type=hostingEnvironmentConfig&amp;incarnation=16</HostingEnvironmentConfig><SharedConfig>http://168.63.129.16:80/machine/c/i?comp=config&amp;type=sharedConfig&amp;incarnation=16</SharedConfig><ExtensionsConfig>http://168.63.129.16:80/machine/c/i?comp=config&amp;type=extensionsConfig&amp;incarnation=16</ExtensionsConfig><FullConfig>http://168.63.129.16:80/machine/c/i?comp=config&amp;type=fullConfig&amp;incarnation=16</FullConfig><Certificates>http://168.63.129.16:80/machine/c/i?comp=certificates&amp;incarnation=16</Certificates><ConfigName>x.xml</ConfigName></Configuration></RoleInstance></RoleInstanceList></Container></GoalState>"#;
        w.hosts.ws.set_responder(std::sync::Arc::new(move |_m: &Msg, _c, _i| Action::Reply(vec![simple_response(200, &[("Content-Type", "text/xml; charset=utf-8")], goalstate.as_bytes())])));
        let kk = w.shared.get_key_keeper_shared_state();
        for key in [Some(K1), Some(K2), None] {
            w.set_key(key);
            let cur_ws = w.hosts.ws.cursor();
            let cur_imds = w.hosts.imds.cursor();
            let wsc = WireServerClient::new(constants::WIRE_SERVER_IP, constants::WIRE_SERVER_PORT, kk.clone());
            let imc = ImdsClient::new(constants::IMDS_IP, constants::IMDS_PORT, kk.clone());
            let base: hyper::Uri = "http://168.63.129.16/".parse().unwrap();
            let ak = key.map(|k| world::make_key(k.0, k.1));
            w.rt.block_on(async {
                let _ = wsc.get_goalstate().await;
                let _ = wsc.get_shared_config("http://168.63.129.16:80/machine/c/i?comp=config&type=sharedConfig&incarnation=16".to_string()).await;
                let _ = imc.get_imds_instance_info().await;
                if let Some(k) = &ak {
                    let _ = gpa_harness::key_keeper::key::attest_key(&base, k).await;
                }
                // the agent's own signing route with a body (what a telemetry or attestation call with a payload would take):
                // built by build_request, written to the socket by send_request
                for (m, body) in [(hyper::Method::POST, &b"{\"payload\": \"own call with a body of 44 byte\"}"[..]), (hyper::Method::PUT, &b"x"[..])] {
                    let url: hyper::Uri = "http://168.63.129.16/machine/own?comp=body&n=1".parse().unwrap();
                    let mut h = std::collections::HashMap::new();
                    h.insert("x-ms-version".to_string(), "2012-11-30".to_string());
                    if let Ok(req) = gpa_harness::common::hyper_client::build_request(m, &url, &h, Some(body), key.map(|k| k.0.to_string()), key.map(|k| k.1.to_string())) {
                        let _ = gpa_harness::common::hyper_client::send_request("168.63.129.16", 80, req, |_s: String| {}).await;
                    }
                }
            });
            let mut got: Vec<(String, Msg)> = w.hosts.ws.requests_since(cur_ws).into_iter().map(|(_, m)| ("wireserver".to_string(), m)).collect();
            got.extend(w.hosts.imds.requests_since(cur_imds).into_iter().map(|(_, m)| ("imds".to_string(), m)));
            let expect_n = if key.is_some() { 6 } else { 5 };
            if got.len() != expect_n {
                res.violation("own-call:not-received", &format!("{} of {} own host calls reached the mock hosts", got.len(), expect_n), json!({"family": "own-calls", "key": key.map(|k| k.0)}));
            }
            for (host, m) in got {
                evals += 1;
                let case = json!({"family": "own-calls", "key": key.map(|k| k.0), "host": host, "method": m.method(), "target": m.target()});
                nontrivial.insert(case.to_string());
                let sent: Vec<String> = m.headers.iter().map(|h| h.0.to_lowercase()).collect();
                match (key, hostcheck::verify_signature(&m, &keys, &sent)) {
                    (Some(k), SigVerdict::Valid { guid, .. }) => {
                        sig_valid += 1;
                        if guid != k.0 {
                            res.violation("own-call:wrong-key-id", &format!("{guid} while {} latched", k.0), case);
                        }
                    }
                    (Some(_), SigVerdict::Unsigned) => res.violation("own-call:unsigned-while-key-latched", &format!("{} {} sent without authorization header", m.method(), m.target()), case),
                    (Some(_), SigVerdict::Bad(why)) => res.violation("own-call:mac-invalid", &format!("{why}; head {:?}", String::from_utf8_lossy(&m.raw_head)), case),
                    (None, SigVerdict::Unsigned) => {}
                    (None, other) => res.violation("own-call:signed-without-key", &format!("{:?}", other), case),
                }
            }
        }
        res.cov(
            "rule",
            "proxied: 4 methods x 7 targets x 6 client header sets x 5 body framings (none, 1 byte, 1000 bytes content-length, 1000 bytes chunked, empty) x 2 callers x 2 keys (quick: reduced product), each relayed request verified at the mock host from the raw bytes it received (independent canonicaliser + HMAC, key looked up by the announced id); exempt uploads and their near misses; no key => unsigned; the agent's own calls get_goalstate / get_shared_config / get_imds_instance_info / attest_key and two own calls with a body (build_request + send_request) under K1, K2 and no key; distinct = distinct request shapes".to_string(),
        );
    }

    for p in world::take_panics() {
        res.violation("panic", &p, json!({"note": "panic while running the product"}));
    }
    res.cov("evaluations", evals);
    res.cov("distinct_nontrivial", nontrivial.len() as u64);
    res.cov("relayed_and_inspected", relayed);
    res.cov("signatures_verified_at_host", sig_valid);
    res.cov("signatures_verified_modulo_transport_framing_header", sig_modulo);
    res.cov("exhaustive", true);
    res.assume("the mock host verifies with an independent SHA-256/HMAC and canonicaliser; the relative order of parameters is not judged");
    res.assume("a content-length/transfer-encoding header added by the HTTP transport that the client had not sent is tolerated in the verification (counted separately)");
    std::process::exit(res.finish());
}
