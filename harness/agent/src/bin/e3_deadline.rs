//! C16, second engine: the provisioning deadline as the real key keeper schedules it.
//!
//! `e3_provision` calls the deadline handler as one of its operations; when that handler runs is decided by the key
//! keeper's poll loop from monotonic time (two minutes after the loop started, and again two minutes after a
//! wake-up notification reset the latch state). This engine runs the real `KeyKeeper::poll_secure_channel_status`
//! against a mock WireServer that reports the channel disabled, the real `/provision` handler over HTTP, and owns
//! monotonic time: the process runs under an LD_PRELOAD shim on `clock_gettime` whose monotonic offset the engine
//! advances in steps. Every sequence of steps from a small menu (advance by 0 / 59 / 61 / 121 s, query, query with
//! notify) up to a depth bound is executed from a fresh start; a reference keeps the instants at which a deadline
//! window started and says whether "the deadline passed at or after the instant the query names".

use gpa_harness::key_keeper::KeyKeeper;
use gpa_harness::proxy::proxy_server::ProxyServer;
use gpa_harness::shared_state::SharedState;
use proxy_agent_shared::misc_helpers;
use serde_json::{json, Value};
use std::sync::Arc;
use std::time::Duration;
use vcommon::rawhttp::{build_request, simple_response, Action, Client, MockHost, Msg};
use vcommon::result::{is_thorough, EngineResult};

const SHIM_C: &str = r#"#define _GNU_SOURCE
#include <time.h>
#include <dlfcn.h>
static long mono_off;
void vt_clock_advance(long s) { __atomic_add_fetch(&mono_off, s, __ATOMIC_SEQ_CST); }
long vt_clock_offset(void) { return __atomic_load_n(&mono_off, __ATOMIC_SEQ_CST); }
int clock_gettime(clockid_t c, struct timespec *ts) {
    static int (*real)(clockid_t, struct timespec *);
    if (!real) real = (int (*)(clockid_t, struct timespec *))dlsym(RTLD_NEXT, "clock_gettime");
    int r = real(c, ts);
    if (r == 0 && (c == CLOCK_MONOTONIC || c == CLOCK_MONOTONIC_RAW || c == CLOCK_MONOTONIC_COARSE || c == CLOCK_BOOTTIME))
        ts->tv_sec += vt_clock_offset();
    return r;
}
"#;

#[derive(Clone, Copy, Debug, PartialEq, Eq)]
enum Step {
    /// let this much monotonic time pass at once (then give the key keeper a few polls of real time)
    Advance(u64),
    /// `/provision` query naming the present instant
    Query,
    /// the same with the notify header (what `--status --wait` sends first): the key keeper resets its latch state
    /// and starts a new deadline window when the previous one is over
    QueryNotify,
}

/// the coordinator builds the shim once and starts the workers (nested namespaces) under it
fn coordinate() -> ! {
    let mut res = EngineResult::new("C16");
    let dir = format!("{}/run", std::env::var("VERIF_TARGET").unwrap_or("/verif/target".into()));
    let _ = std::fs::create_dir_all(&dir);
    let c = format!("{dir}/monoclock.{}.c", std::process::id());
    let so = format!("{dir}/monoclock.{}.so", std::process::id());
    std::fs::write(&c, SHIM_C).unwrap();
    let o = std::process::Command::new("gcc").args(["-shared", "-fPIC", "-O1", "-o", &so, &c, "-ldl"]).output().unwrap_or_else(|e| vcommon::result::machinery(&format!("gcc: {e}")));
    let _ = std::fs::remove_file(&c);
    if !o.status.success() {
        vcommon::result::machinery(&format!("cannot build the clock shim: {}", String::from_utf8_lossy(&o.stderr)));
    }
    let n = if std::env::var("VERIF_REPLAY").is_ok() { 1 } else { 16 };
    vcommon::result::run_workers(&mut res, n, &format!("ip addr add 168.63.129.16/32 dev lo; mount -t tmpfs tmpfs /var/lib/azure-proxy-agent; mount -t tmpfs tmpfs /var/log/azure-proxy-agent; export LD_PRELOAD={so}; export VERIF_C16_SHIM={so}; "));
    let _ = std::fs::remove_file(&so);
    res.cov("exhaustive", true);
    res.cov("workers", n as u64);
    std::process::exit(res.finish());
}

fn advance(secs: u64) {
    unsafe {
        let f = libc::dlsym(libc::RTLD_DEFAULT, b"vt_clock_advance\0".as_ptr() as *const _);
        if f.is_null() {
            vcommon::result::machinery("the clock shim is not loaded");
        }
        let f: extern "C" fn(libc::c_long) = std::mem::transmute(f);
        f(secs as libc::c_long);
    }
}

fn query(port: u16, notify: bool) -> Result<(bool, String, i128), String> {
    query_at(port, notify, misc_helpers::get_date_time_unix_nano())
}

fn query_at(port: u16, notify: bool, tick: i128) -> Result<(bool, String, i128), String> {
    let s = vcommon::rawhttp::connect_from([127, 0, 0, 1], None, format!("127.0.0.1:{port}").parse().unwrap()).map_err(|e| e.to_string())?;
    let mut c = Client::new(s);
    let t = tick.to_string();
    let mut h: Vec<(&str, &[u8])> = vec![("Host", b"localhost"), ("Metadata", b"true"), ("x-ms-azure-time_tick", t.as_bytes())];
    if notify {
        h.push(("x-ms-azure-notify", b"true"));
    }
    c.send(&build_request("GET", "/provision", &h, None, None)).map_err(|e| e.to_string())?;
    let r = c.read_response(false, Duration::from_secs(10))?;
    c.close();
    let v: Value = serde_json::from_slice(&r.body).map_err(|e| format!("bad json: {e}"))?;
    Ok((v["finished"].as_bool().unwrap_or(false), v["errorMessage"].as_str().unwrap_or("").to_string(), tick))
}

/// one history from a fresh subject (own runtime, own listener port); returns problems
fn run_history(host: &MockHost, hist: &[Step], port: u16) -> Vec<(String, String)> {
    let _ = host;
    let mut problems = Vec::new();
    let rt = tokio::runtime::Builder::new_multi_thread().worker_threads(2).enable_all().build().unwrap();
    let shared = rt.block_on(async { SharedState::start_all() });
    {
        let server = ProxyServer::new(port, &shared);
        rt.spawn(async move { server.start().await });
    }
    let kk = KeyKeeper::new("http://168.63.129.16/".parse().unwrap(), "/var/lib/azure-proxy-agent/keys".into(), "/var/log/azure-proxy-agent".into(), Duration::from_millis(40), &shared);
    rt.spawn(async move { kk.poll_secure_channel_status().await });
    let mut up = false;
    for _ in 0..500 {
        if std::net::TcpStream::connect(("127.0.0.1", port)).is_ok() {
            up = true;
            break;
        }
        std::thread::sleep(Duration::from_millis(10));
    }
    if !up {
        vcommon::result::machinery("listener did not start");
    }
    std::thread::sleep(Duration::from_millis(200)); // the key keeper's first polls: channel disabled, key latch reported ready
    // reference: monotonic seconds since the current deadline window started; has its deadline handler run
    let mut window_age: u64 = 0;
    let mut window_done = false;
    let mut trace: Vec<String> = Vec::new();
    for st in hist {
        match *st {
            Step::Advance(s) => {
                advance(s);
                window_age += s;
                if window_age > 120 {
                    window_done = true;
                }
                std::thread::sleep(Duration::from_millis(160)); // several polls of the key keeper
                trace.push(format!("+{s}s"));
            }
            Step::Query | Step::QueryNotify => {
                let notify = *st == Step::QueryNotify;
                // the redirector never reports in this engine (nothing loads the kernel program), so "all ready" cannot happen
                // and the channel is disabled: finished may only be reported for a deadline that passed at or after the instant
                // the query names - which, for a query naming the present, means: never at once
                let mut asked_tick: Option<i128> = None;
                match query(port, notify) {
                    Err(e) => problems.push(("provision-query-failed".into(), format!("after [{}]: {e}", trace.join(" ")))),
                    Ok((finished, msg, tick)) => {
                        asked_tick = Some(tick);
                        if finished {
                            problems.push((
                                format!("finished-reported-too-early:deadline:{}", if notify { "query-with-notify" } else { "query" }),
                                format!("after [{}] a query naming the present instant{} was answered finished=true although no deadline passed at or after that instant (the current deadline window is {window_age} s old{}); error text {:?}", trace.join(" "), if notify { " (notify header set)" } else { "" }, if window_done { ", its handler ran earlier" } else { "" }, msg.chars().take(80).collect::<String>()),
                            ));
                        }
                    }
                }
                trace.push(if notify { "query+notify".into() } else { "query".into() });
                if notify {
                    std::thread::sleep(Duration::from_millis(160)); // the key keeper wakes up, resets, polls again
                    if window_done {
                        // the window was over: the reset starts a new one
                        window_age = 0;
                        window_done = false;
                    }
                    // the waiting client asks again with the instant it named first: no deadline has passed since
                    if let Some(t) = asked_tick {
                        match query_at(port, false, t) {
                            Ok((true, msg, _)) => problems.push(("finished-reported-too-early:deadline:waiting-query-after-notify".into(), format!("after [{}]: the key keeper was notified and reset its latch state; the same query (same instant) asked again {} ms later is answered finished=true although no deadline passed in between (the new deadline window is {window_age} s old); error text {:?}", trace.join(" "), 160, msg.chars().take(80).collect::<String>()))),
                            Ok(_) => {}
                            Err(e) => problems.push(("provision-query-failed".into(), format!("after [{}]: {e}", trace.join(" ")))),
                        }
                    }
                    // a second look right after the reset: still nothing passed at or after the instant this new query names
                    match query(port, false) {
                        Ok((true, msg, _)) => problems.push(("finished-reported-too-early:deadline:after-notify-reset".into(), format!("after [{}]: right after the key keeper was notified and reset its latch state, a query naming the present instant was answered finished=true (deadline window {window_age} s old); error text {:?}", trace.join(" "), msg.chars().take(80).collect::<String>()))),
                        Ok(_) => {}
                        Err(e) => problems.push(("provision-query-failed".into(), format!("after [{}]: {e}", trace.join(" ")))),
                    }
                }
            }
        }
    }
    // liveness of the deadline: a query made now is answered finished once more than two minutes have passed after it
    let before = query(port, false);
    advance(125);
    std::thread::sleep(Duration::from_millis(400));
    if let Ok((false, _, tick)) = before {
        // ask again with the earlier tick
        let s = vcommon::rawhttp::connect_from([127, 0, 0, 1], None, format!("127.0.0.1:{port}").parse().unwrap());
        if let Ok(s) = s {
            let mut c = Client::new(s);
            let t = tick.to_string();
            let _ = c.send(&build_request("GET", "/provision", &[("Host", b"localhost"), ("Metadata", b"true"), ("x-ms-azure-time_tick", t.as_bytes())], None, None));
            if let Ok(r) = c.read_response(false, Duration::from_secs(10)) {
                let v: Value = serde_json::from_slice(&r.body).unwrap_or(json!({}));
                if v["finished"].as_bool() != Some(true) && window_age < 119 && !window_done {
                    // only demanded when the window had certainly not fired before the query (real time adds some hundred
                    // milliseconds to the monotonic steps: a window 119..121 s old may or may not have fired already)
                    problems.push(("deadline-never-reported".into(), format!("after [{}] + 125 s: the query made before the 125 s is still answered finished=false although its deadline window ({} s old then) has passed", trace.join(" "), window_age)));
                }
            }
            c.close();
        }
    }
    shared.cancel_cancellation_token();
    rt.shutdown_timeout(Duration::from_millis(300));
    problems
}

fn main() {
    if std::env::var("VERIF_C16_SHIM").is_err() {
        coordinate();
    }
    let (wi, wn) = vcommon::result::worker().unwrap_or((0, 1));
    proxy_agent_shared::logger::logger_manager::set_logger_level(proxy_agent_shared::logger::LoggerLevel::Error);
    let thorough = is_thorough();
    let mut res = EngineResult::new("C16");
    if !std::path::Path::new("/mnt/console").exists() {
        vcommon::result::machinery("this engine binds the WireServer address: it must run inside bin/ns");
    }
    let _ = std::fs::create_dir_all("/var/lib/azure-proxy-agent/keys");
    let _ = std::fs::create_dir_all("/var/log/azure-proxy-agent");
    let host = MockHost::start("wireserver", "168.63.129.16:80").unwrap_or_else(|e| vcommon::result::machinery(&format!("bind: {e}")));
    host.set_responder(Arc::new(|m: &Msg, _c, _i| {
        if m.target().starts_with("/secure-channel/status") {
            let d = json!({"authorizationScheme": "Azure-HMAC-SHA256", "keyDeliveryMethod": "http", "keyGuid": null, "secureChannelState": "Disabled", "version": "1.0"});
            Action::Reply(vec![simple_response(200, &[("Content-Type", "application/json")], d.to_string().as_bytes())])
        } else {
            Action::Reply(vec![simple_response(200, &[("Content-Type", "text/xml")], b"<GoalState></GoalState>")])
        }
    }));
    let menu = [Step::Advance(59), Step::Advance(61), Step::Advance(121), Step::Query, Step::QueryNotify];
    let depth = if thorough { 4 } else { 3 };
    let mut histories: Vec<Vec<Step>> = Vec::new();
    for n in 1..=depth {
        for seq in vcommon::explore::sequences(menu.len(), n) {
            let h: Vec<Step> = seq.iter().map(|&i| menu[i]).collect();
            // only histories that end in a query are judged beyond what their prefix already was
            if matches!(h.last(), Some(Step::Query) | Some(Step::QueryNotify)) {
                histories.push(h);
            }
        }
    }
    if let Ok(path) = std::env::var("VERIF_REPLAY") {
        let doc: Value = serde_json::from_str(&std::fs::read_to_string(path).unwrap()).unwrap();
        histories.retain(|h| json!(h.iter().map(|s| format!("{:?}", s)).collect::<Vec<_>>()) == doc["case"]["history"]);
    }
    // histories are independent: run them on a few threads, each with its own listener port
    let total = histories.len();
    let histories = Arc::new(histories);
    let next = Arc::new(std::sync::atomic::AtomicUsize::new(0));
    let out: Arc<std::sync::Mutex<Vec<(usize, Vec<(String, String)>)>>> = Arc::new(std::sync::Mutex::new(Vec::new()));
    // (the monotonic offset is process-wide, so histories run one after the other; what is parallel is nothing)
    let _ = &next;
    for (i, h) in histories.iter().enumerate() {
        if i % wn != wi {
            continue;
        }
        let p = run_history(&host, h, 3100 + (i % 800) as u16);
        out.lock().unwrap().push((i, p));
    }
    let mut queries = 0u64;
    for (i, probs) in out.lock().unwrap().iter() {
        let h = &histories[*i];
        queries += h.iter().filter(|s| !matches!(s, Step::Advance(_))).count() as u64;
        let case = json!({"family": "deadline-schedule", "history": h.iter().map(|s| format!("{:?}", s)).collect::<Vec<_>>()});
        for (sig, what) in probs {
            res.violation(sig, what, case.clone());
        }
    }
    let mine = out.lock().unwrap().len() as u64;
    let _ = total;
    res.cov("deadline_histories", mine);
    res.cov("deadline_queries", queries);
    res.cov("states", mine);
    res.cov("transitions", out.lock().unwrap().iter().map(|(i, _)| histories[*i].len() as u64).sum::<u64>());
    res.cov("traces_validated_against_impl", mine);
    res.cov("exhaustive", true);
    res.cov("deadline_rule", format!("every sequence of <= {depth} steps over {{let 59 / 61 / 121 s of monotonic time pass, /provision query naming the present, the same with the notify header}} that ends in a query, each from a fresh start of the real key keeper loop (mock WireServer: channel disabled) and the real listener; monotonic time is owned through an LD_PRELOAD shim on clock_gettime; the redirector never reports, so 'finished' may only follow a deadline that passed at or after the instant a query names: a query naming the present is never answered finished at once, also right after a notify reset; after each history a query is made, 125 s pass and it must then be answered finished"));
    std::process::exit(res.finish());
}
