//! C13: no input crashes a request handler or a background task. E2 world with the real
//! KeyKeeper and ProxyAgentStatusTask running; a process-wide panic hook records every panic;
//! after every case liveness is checked (a plain request is served, the key keeper polls again,
//! /provision answers, status.json keeps changing).

use gpa_harness::key_keeper::KeyKeeper;
use gpa_harness::proxy_agent_status::ProxyAgentStatusTask;
use gpa_harness::verif::policy::Policy;
use gpa_harness::verif::world::{self, AuditRec, World, WorldOpts, IMDS, WS};
use serde_json::{json, Value};
use std::collections::BTreeSet;
use std::sync::{Arc, Mutex};
use std::time::{Duration, Instant};
use vcommon::rawhttp::{build_request, simple_response, Action, Client, Msg};
use vcommon::result::{is_thorough, EngineResult};

const K1: (&str, &str) = ("aaaaaaaa-1111-1111-1111-111111111111", "4A404E635266556A586E3272357538782F413F4428472B4B6250645367566B59");

fn good_status() -> Vec<u8> {
    // names the key the harness latched, so the key keeper keeps it (signing paths stay reachable)
    br#"{"authorizationScheme":"Azure-HMAC-SHA256","keyDeliveryMethod":"http","keyGuid":"aaaaaaaa-1111-1111-1111-111111111111","secureChannelState":"Wireserver","version":"1.0"}"#.to_vec()
}

struct Env {
    w: World,
    opts: WorldOpts,
    status_dir: std::path::PathBuf,
    /// what the mock WireServer answers to /secure-channel/status (raw response segments)
    ws_reply: Arc<Mutex<Vec<Vec<u8>>>>,
    ws_close: Arc<std::sync::atomic::AtomicBool>,
    root_pid: u32,
    sport: u16,
}

impl Env {
    fn start_background_tasks(&self) {
        let kk = KeyKeeper::new("http://168.63.129.16/".parse().unwrap(), "/var/lib/azure-proxy-agent/keys".into(), "/var/log/azure-proxy-agent".into(), Duration::from_millis(15), &self.w.shared);
        self.w.rt.spawn(async move { kk.poll_secure_channel_status().await });
        let task = ProxyAgentStatusTask::new(Duration::from_millis(6), self.status_dir.clone(), self.w.shared.get_cancellation_token(), self.w.shared.get_key_keeper_shared_state(), self.w.shared.get_agent_status_shared_state());
        self.w.rt.spawn(async move { task.start().await });
    }
    fn port(&mut self) -> u16 {
        self.sport = if self.sport >= 47000 { 45000 } else { self.sport + 1 };
        self.sport
    }
    /// one request through the proxy from the given record; Ok(status) or Err(text)
    fn request(&mut self, rec: &AuditRec, raw: &[u8]) -> Result<u16, String> {
        let p = self.port();
        match self.w.connect(Some(p), Some(rec)) {
            Ok(mut c) => {
                let r = c.send(raw).map_err(|e| e.to_string()).and_then(|_| c.read_response(false, Duration::from_secs(10)).map(|m| m.status()));
                c.close();
                r
            }
            Err(e) => Err(format!("connect: {e}")),
        }
    }
    fn provision_query(&mut self) -> Result<u16, String> {
        let s = vcommon::rawhttp::connect_from([127, 0, 0, 1], None, world::PROXY.parse().unwrap()).map_err(|e| e.to_string())?;
        let mut c = Client::new(s);
        c.send(&build_request("GET", "/provision", &[("Host", b"localhost"), ("Metadata", b"true"), ("x-ms-azure-time_tick", b"1")], None, None)).map_err(|e| e.to_string())?;
        let r = c.read_response(false, Duration::from_secs(10)).map(|m| m.status());
        c.close();
        r
    }
    /// make the key keeper poll now and wait until the mock has answered one status request
    fn poll_key_keeper(&mut self) -> bool {
        let cur = self.w.hosts.ws.cursor();
        let kk = self.w.shared.get_key_keeper_shared_state();
        let t = Instant::now();
        loop {
            let _ = self.w.rt.block_on(async { kk.notify().await });
            let deadline = Instant::now() + Duration::from_millis(400);
            while Instant::now() < deadline {
                if self.w.hosts.ws.requests_since(cur).iter().any(|(_, m)| m.target().starts_with("/secure-channel/status")) {
                    std::thread::sleep(Duration::from_millis(6));
                    return true;
                }
                std::thread::sleep(Duration::from_millis(2));
            }
            if t.elapsed() > Duration::from_millis(15000) {
                return false;
            }
        }
    }
    fn status_json_changes(&self) -> bool {
        let f = self.status_dir.join("status.json");
        let read = || std::fs::read_to_string(&f).ok().and_then(|t| serde_json::from_str::<Value>(&t).ok()).map(|v| v["timestamp"].to_string());
        let a = read();
        for _ in 0..5000 {
            std::thread::sleep(Duration::from_millis(2));
            let b = read();
            if b.is_some() && b != a {
                return true;
            }
        }
        false
    }
    /// liveness after a case; returns the list of dead parts
    fn liveness(&mut self) -> Vec<&'static str> {
        let mut dead = Vec::new();
        self.ws_close.store(false, std::sync::atomic::Ordering::SeqCst);
        *self.ws_reply.lock().unwrap() = vec![simple_response(200, &[("Content-Type", "application/json")], &good_status())];
        let rec = AuditRec::to(WS, 0, self.root_pid, true);
        let plain = build_request("GET", "/plain", &[("Host", b"h")], None, None);
        if self.request(&rec, &plain) != Ok(200) {
            dead.push("listener-or-request-handler");
        }
        if self.provision_query() != Ok(200) {
            dead.push("provision-query");
        }
        if !self.poll_key_keeper() {
            dead.push("key-keeper-task");
        }
        if !self.status_json_changes() {
            dead.push("status-task");
        }
        dead
    }
}

fn main() {
    world::leaderless_helper_if_requested();
    // the cases run in a supervised child process: a death of the whole process is a finding too
    let sup = vcommon::result::supervise("C13");
    world::install_panic_recorder();
    let thorough = is_thorough();
    let mut res = EngineResult::new("C13");
    let opts = WorldOpts::default();
    let w = World::start(WorldOpts::default());
    let status_dir = std::path::PathBuf::from("/var/log/azure-proxy-agent/vt-status13");
    let _ = std::fs::create_dir_all(&status_dir);
    let ws_reply: Arc<Mutex<Vec<Vec<u8>>>> = Arc::new(Mutex::new(vec![simple_response(200, &[("Content-Type", "application/json")], &good_status())]));
    let ws_close = Arc::new(std::sync::atomic::AtomicBool::new(false));
    // the host answers the next status polls this many milliseconds late (0 = at once)
    let ws_delay_ms = Arc::new(std::sync::atomic::AtomicU64::new(0));
    {
        let r = ws_reply.clone();
        let cl = ws_close.clone();
        let dl = ws_delay_ms.clone();
        w.hosts.ws.set_responder(Arc::new(move |m: &Msg, _c, _i| {
            if m.target().starts_with("/secure-channel/status") {
                let d = dl.load(std::sync::atomic::Ordering::SeqCst);
                if d > 0 {
                    std::thread::sleep(Duration::from_millis(d));
                }
                if cl.load(std::sync::atomic::Ordering::SeqCst) {
                    return Action::ReplyClose(r.lock().unwrap().clone());
                }
                Action::Reply(r.lock().unwrap().clone())
            } else if m.method() == "CONNECT" {
                // a metadata host is no tunnel end point: it refuses CONNECT (what the proxy's HTTP stack does with a 2xx
                // answer to CONNECT is outside the host behaviours the statement lists; see DESIGN.md section 9)
                Action::Reply(vec![simple_response(405, &[("Allow", "GET, POST, PUT")], b"")])
            } else {
                Action::Reply(vec![simple_response(200, &[], b"ok")])
            }
        }));
    }
    let root_pid = w.spawn_proc("/usr/bin/vt-waagent", &["100000"], None);
    let mut env = Env { w, opts, status_dir, ws_reply, ws_close, root_pid, sport: 45000 };
    env.start_background_tasks();
    env.w.set_key(Some(K1));
    env.w.set_rules(IMDS, Policy::simple("enforce-deny", "enforce", false).to_item());
    let first = env.liveness();
    if !first.is_empty() {
        vcommon::result::machinery(&format!("world not live before the first case: {:?}", first));
    }
    let _ = world::take_panics();

    // ------------------------------------------------------------------ the cases
    #[derive(Clone)]
    enum Case {
        /// caller process with this exe name and argument, sends an (allowed | denied) request
        Caller { exe: String, arg: String, denied: bool },
        /// caller whose executable path is not valid UTF-8 (bytes)
        CallerBytes { exe: Vec<u8>, denied: bool },
        /// caller whose main thread has exited (executable path and command line unreadable), or that is gone altogether
        CallerOdd { kind: &'static str, denied: bool },
        /// a local client connects and sends nothing (or only part of a request line) while another client sends a request
        SilentPeer { partial: &'static [u8] },
        /// raw request from an ordinary elevated caller
        Request { label: String, raw: Vec<u8> },
        /// host reply to the key keeper's status poll, followed by a /provision query
        HostReply { label: String, segs: Vec<Vec<u8>> },
        /// like HostReply but the host closes the connection after writing (declared length never arrives)
        HostReplyClose { segs: Vec<Vec<u8>> },
        /// the host answers status polls correctly but late: each poll round outlasts the key keeper's poll interval
        HostReplySlow { delay_ms: u64 },
        /// the process is out of file descriptors for a moment while a client connects (accept() fails with EMFILE)
        FdShortage { ms: u64 },
        /// a rule document (as the host could deliver it) in force for IMDS, then a request from alice
        Rules { doc: Value },
        /// wake-up notifications (what a `/provision` query with the notify header sends) arriving at each
        /// of these offsets (microseconds) after a status poll was seen at the host, key latched
        Notify { offsets_us: Vec<u64> },
    }
    let mut cases: Vec<(Value, Case)> = Vec::new();
    // (1) multi-byte command lines / exe names at every alignment around the truncation offsets
    let widths: [(&str, usize); 3] = [("\u{e9}", 2), ("\u{20ac}", 3), ("\u{1f600}", 4)];
    for (ch, wd) in widths {
        for k in 0..wd {
            for total in if thorough { vec![600usize, 1100, 2300, 4200, 9000] } else { vec![1100usize, 4200] } {
                for denied in [false, true] {
                    let arg = format!("{}{}", "a".repeat(k), ch.repeat(total / wd));
                    cases.push((json!({"kind": "caller-command-line", "char_width": wd, "ascii_prefix": k, "bytes": arg.len(), "denied": denied}), Case::Caller { exe: "/usr/bin/vt-app".into(), arg, denied }));
                }
            }
        }
        cases.push((json!({"kind": "caller-exe-name", "char_width": wd}), Case::Caller { exe: format!("/usr/bin/vt-{}", ch.repeat(60 / wd)), arg: "x".into(), denied: true }));
    }
    // (2) request shapes
    let mut hv_bytes: Vec<u8> = vec![0x09, 0x7f];
    hv_bytes.extend(if thorough { (0x80u8..=0xff).collect::<Vec<u8>>() } else { vec![0x80, 0xa9, 0xc3, 0xe2, 0xf0, 0xff] });
    for b in hv_bytes {
        for rep in [1usize, 3] {
            let v = vec![b; rep];
            let mut val = b"v".to_vec();
            val.extend(&v);
            cases.push((json!({"kind": "header-value-byte", "byte": b, "repeat": rep}), Case::Request { label: format!("hv{b}"), raw: build_request("GET", "/h", &[("Host", b"h"), ("X-Bin", &val)], None, None) }));
        }
    }
    for len in [1000usize, 4000, 4096, 4100, 8000, 65000] {
        let url = format!("/{}", "u".repeat(len));
        cases.push((json!({"kind": "long-url", "length": len}), Case::Request { label: "url".into(), raw: build_request("GET", &url, &[("Host", b"h")], None, None) }));
        let q = format!("/q?{}", "k=v&".repeat(len / 4));
        cases.push((json!({"kind": "long-query", "length": len}), Case::Request { label: "q".into(), raw: build_request("GET", &q, &[("Host", b"h")], None, None) }));
    }
    {
        let many: Vec<(String, Vec<u8>)> = (0..90).map(|i| ("X-Rep".to_string(), format!("v{i}").into_bytes())).collect();
        let hv: Vec<(&str, &[u8])> = many.iter().map(|(n, v)| (n.as_str(), v.as_slice())).collect();
        cases.push((json!({"kind": "repeated-header", "copies": 90}), Case::Request { label: "rep".into(), raw: build_request("GET", "/r", &hv, None, None) }));
        let big = vec![b'h'; 30000];
        cases.push((json!({"kind": "long-header-value", "length": 30000}), Case::Request { label: "lhv".into(), raw: build_request("GET", "/r", &[("Host", b"h"), ("X-Long", &big)], None, None) }));
        // requests a well-behaved client would not send but that are syntactically valid: no Host header, HTTP/1.0,
        // an empty Host, two Host headers, a header without value
        for (label, raw) in [
            ("http-1.0-no-host", b"GET /plain HTTP/1.0\r\n\r\n".to_vec()),
            ("http-1.1-no-host", b"GET /plain HTTP/1.1\r\n\r\n".to_vec()),
            ("http-1.0-provision-no-host", b"GET /provision HTTP/1.0\r\nMetadata: true\r\n\r\n".to_vec()),
            ("empty-host", b"GET /plain HTTP/1.1\r\nHost:\r\n\r\n".to_vec()),
            ("two-hosts", b"GET /plain HTTP/1.1\r\nHost: a\r\nHost: b\r\n\r\n".to_vec()),
            ("no-headers-post", b"POST /plain HTTP/1.1\r\nContent-Length: 0\r\n\r\n".to_vec()),
            ("options-star", b"OPTIONS * HTTP/1.1\r\nHost: h\r\n\r\n".to_vec()),
            ("connect-authority-form", b"CONNECT 168.63.129.16:80 HTTP/1.1\r\nHost: 168.63.129.16:80\r\n\r\n".to_vec()),
            ("connect-authority-form-no-host", b"CONNECT metadata:443 HTTP/1.1\r\n\r\n".to_vec()),
            ("absolute-form", b"GET http://168.63.129.16/plain?x=1 HTTP/1.1\r\nHost: 168.63.129.16\r\n\r\n".to_vec()),
            ("absolute-form-exempt-upload", b"PUT http://168.63.129.16/vmAgentLog HTTP/1.1\r\nHost: 168.63.129.16\r\nContent-Length: 1\r\n\r\nx".to_vec()),
        ] {
            cases.push((json!({"kind": "unusual-but-valid-request", "shape": label}), Case::Request { label: label.into(), raw }));
        }
        // bodies that turn out too large only while they are being read (chunked): refused, but answered
        for (label, len, chunk) in [("chunked-body-one-byte-over-the-limit-1KiB-chunks", 102401usize, 1024usize), ("chunked-body-over-the-limit-64KiB-chunks", 150000, 65536), ("chunked-body-twice-the-limit-one-chunk", 204800, 204800)] {
            let body = vec![b'A'; len];
            let cs = [chunk];
            cases.push((json!({"kind": "unusual-but-valid-request", "shape": label}), Case::Request { label: label.into(), raw: build_request("POST", "/plain", &[("Host", b"h")], Some(&body), Some(&cs)) }));
        }
        cases.push((json!({"kind": "percent-and-odd-url"}), Case::Request { label: "odd".into(), raw: build_request("GET", "/a%zz%?&&==&%00", &[("Host", b"h")], None, None) }));
        for tick in ["999999999999999999999999999999", "-999999999999999999999999999999", "170141183460469231731687303715884105727", "-170141183460469231731687303715884105728", "253402300800000000000", "-62167219200000000001", "9223372036854775808", "1e30", "0x10", " 5", "+7"] {
            cases.push((json!({"kind": "provision-with-extreme-tick", "tick": tick}), Case::Request { label: "prov-tick".into(), raw: build_request("GET", "/provision", &[("Host", b"h"), ("Metadata", b"true"), ("x-ms-azure-time_tick", tick.as_bytes())], None, None) }));
        }
        cases.push((json!({"kind": "provision-with-odd-tick"}), Case::Request { label: "prov".into(), raw: build_request("GET", "/provision", &[("Host", b"h"), ("Metadata", b"true"), ("x-ms-azure-time_tick", b"\xff\xfe99999999999999999999999999999999999999999999")], None, None) }));
    }
    // (3) host replies to the status poll
    let ctypes: Vec<(&str, Option<&str>)> = vec![
        ("json", Some("application/json")),
        ("json-utf8", Some("application/json; charset=utf-8")),
        ("json-utf16", Some("application/json; charset=utf-16")),
        ("json-utf32", Some("application/json; charset=utf-32")),
        ("xml", Some("text/xml; charset=utf-8")),
        ("text", Some("text/plain")),
        ("none", None),
        ("charset-no-value", Some("application/json; charset")),
        ("garbage", Some("\u{1}garbage;;=")),
    ];
    let mut bodies: Vec<(String, Vec<u8>)> = vec![("empty".into(), vec![]), ("1-byte".into(), b"{".to_vec()), ("2-bytes".into(), b"{}".to_vec()), ("3-bytes".into(), b"{\"a".to_vec()), ("valid".into(), good_status())];
    for (ch, wd) in widths {
        for k in 0..wd {
            for total in if thorough { vec![900usize, 1024, 1100, 4096, 4200] } else { vec![1100usize, 4200] } {
                bodies.push((format!("multibyte-w{wd}-k{k}-{total}"), format!("{}{}", "b".repeat(k), ch.repeat(total / wd)).into_bytes()));
            }
        }
    }
    for (cl, ct) in &ctypes {
        for (bl, body) in &bodies {
            if !thorough && bl.starts_with("multibyte") && !(cl == &"json" || cl == &"json-utf16" || cl == &"xml") {
                continue;
            }
            for framing in ["cl", "chunked-1+rest", "chunked-3+rest", "cl-declares-2^63", "cl-declares-2^40"] {
                if framing.starts_with("cl-declares") {
                    if *bl != "valid" && *bl != "empty" {
                        continue;
                    }
                    let mut head = "HTTP/1.1 200 OK\r\n".to_string();
                    if let Some(ct) = ct {
                        head.push_str(&format!("Content-Type: {ct}\r\n"));
                    }
                    let n: u128 = if framing.ends_with("63") { 1u128 << 63 } else { 1u128 << 40 };
                    let mut v = format!("{head}Content-Length: {n}\r\nConnection: close\r\n\r\n").into_bytes();
                    v.extend(body);
                    cases.push((json!({"kind": "host-status-reply", "content_type": cl, "body": bl, "framing": framing}), Case::HostReplyClose { segs: vec![v] }));
                    continue;
                }
                if framing != "cl" && body.len() < 4 {
                    continue;
                }
                if !thorough && framing == "chunked-3+rest" && !cl.contains("utf16") {
                    continue;
                }
                let mut head = "HTTP/1.1 200 OK\r\n".to_string();
                if let Some(ct) = ct {
                    head.push_str(&format!("Content-Type: {ct}\r\n"));
                }
                let segs: Vec<Vec<u8>> = if framing == "cl" {
                    let mut v = format!("{head}Content-Length: {}\r\n\r\n", body.len()).into_bytes();
                    v.extend(body);
                    vec![v]
                } else {
                    let first = if framing == "chunked-1+rest" { 1 } else { 3 };
                    let mut v = format!("{head}Transfer-Encoding: chunked\r\n\r\n").into_bytes();
                    v.extend(format!("{:x}\r\n", first).as_bytes());
                    v.extend(&body[..first]);
                    v.extend(b"\r\n");
                    let mut v2 = format!("{:x}\r\n", body.len() - first).into_bytes();
                    v2.extend(&body[first..]);
                    v2.extend(b"\r\n0\r\n\r\n");
                    vec![v, v2]
                };
                cases.push((json!({"kind": "host-status-reply", "content_type": cl, "body": bl, "framing": framing}), Case::HostReply { label: format!("{cl}/{bl}/{framing}"), segs }));
            }
        }
    }
    // (4) rule documents the host can deliver: dangling identity / role / privilege names, duplicates, missing sections
    {
        let privs = json!([{"name": "p", "path": "/a"}, {"name": "q", "path": "/a/b", "queryParameters": {"k": "v"}}]);
        let variants: Vec<(&str, Value)> = vec![
            ("assignment-names-undefined-identity", json!({"privileges": privs, "roles": [{"name": "r", "privileges": ["p", "q"]}], "identities": [{"name": "i1", "userName": "bob"}], "roleAssignments": [{"role": "r", "identities": ["i1", "ghost"]}]})),
            ("assignment-names-only-undefined-identity", json!({"privileges": privs, "roles": [{"name": "r", "privileges": ["p"]}], "identities": [], "roleAssignments": [{"role": "r", "identities": ["ghost"]}]})),
            ("assignment-names-undefined-role", json!({"privileges": privs, "roles": [], "identities": [{"name": "i1", "userName": "alice"}], "roleAssignments": [{"role": "ghost", "identities": ["i1"]}]})),
            ("role-names-undefined-privilege", json!({"privileges": privs, "roles": [{"name": "r", "privileges": ["ghost", "p"]}], "identities": [{"name": "i1", "userName": "alice"}], "roleAssignments": [{"role": "r", "identities": ["i1"]}]})),
            ("duplicate-names", json!({"privileges": [{"name": "p", "path": "/a"}, {"name": "p", "path": "/c"}], "roles": [{"name": "r", "privileges": ["p"]}, {"name": "r", "privileges": ["p"]}], "identities": [{"name": "i1", "userName": "alice"}, {"name": "i1", "userName": "bob"}], "roleAssignments": [{"role": "r", "identities": ["i1"]}, {"role": "r", "identities": ["i1"]}]})),
            ("no-sections", json!({})),
            ("only-privileges", json!({"privileges": privs})),
            ("empty-strings", json!({"privileges": [{"name": "", "path": ""}], "roles": [{"name": "", "privileges": [""]}], "identities": [{"name": ""}], "roleAssignments": [{"role": "", "identities": [""]}]})),
        ];
        for (label, rules) in variants {
            for mode in ["enforce", "audit"] {
                cases.push((json!({"kind": "rule-document", "shape": label, "mode": mode}), Case::Rules { doc: json!({"defaultAccess": "deny", "mode": mode, "id": format!("id-{label}"), "rules": rules}) }));
            }
        }
    }
    // (5b) a slow host: status answers 2x, 4x, 20x the poll interval late
    for delay_ms in [30u64, 60, 300] {
        cases.push((json!({"kind": "host-status-reply-late", "delay_ms": delay_ms, "poll_interval_ms": 15}), Case::HostReplySlow { delay_ms }));
    }
    for ms in [20u64, 60] {
        cases.push((json!({"kind": "out-of-file-descriptors-while-a-client-connects", "ms": ms}), Case::FdShortage { ms }));
    }
    // (6) wake-up notifications at every 0.125 ms offset across (and past) the key keeper's 15 ms poll interval
    for round in 0..if thorough { 8 } else { 3 } {
        let offsets_us: Vec<u64> = (0..=160u64).map(|i| i * 125).collect();
        cases.push((json!({"kind": "notify-while-latched", "round": round, "offsets_us": "0..20000 step 125"}), Case::Notify { offsets_us }));
    }
    if let Ok(path) = std::env::var("VERIF_REPLAY") {
        let doc: Value = serde_json::from_str(&std::fs::read_to_string(path).unwrap()).unwrap();
        cases.retain(|c| c.0 == doc["case"]);
    }

    let mut evals = 0u64;
    let mut nontrivial: BTreeSet<String> = BTreeSet::new();
    let mut panics_total = 0u64;
    for (label, exe) in [("directory", b"/usr/bin/vt-\xff\xfe-dir/vt-tool".to_vec()), ("file-name", b"/usr/bin/vt-\xc3tool".to_vec()), ("both", b"/usr/bin/vt-\xe2\x82-dir/vt-\xf0\x9f".to_vec())] {
        for denied in [false, true] {
            cases.push((json!({"kind": "caller-path-not-utf8", "where": label, "denied": denied}), Case::CallerBytes { exe: exe.clone(), denied }));
        }
    }
    for kind in ["main-thread-exited", "process-gone", "pid-zero", "pid-max"] {
        for denied in [false, true] {
            cases.push((json!({"kind": "caller-unusual-process", "what": kind, "denied": denied}), Case::CallerOdd { kind, denied }));
        }
    }
    for (label, partial) in [("nothing", &b""[..]), ("half-a-request-line", &b"GET /pla"[..]), ("a-head-without-its-end", &b"GET /plain HTTP/1.1\r\nHost: h\r\n"[..])] {
        cases.push((json!({"kind": "silent-peer", "sent": label}), Case::SilentPeer { partial }));
    }
    let root_rec = AuditRec::to(WS, 0, root_pid, true);
    for (idx, (desc, case)) in cases.iter().enumerate() {
        if sup.done_before(idx) {
            continue;
        }
        sup.begin(idx, desc);
        evals += 1;
        nontrivial.insert(desc["kind"].to_string() + &desc.to_string().len().to_string() + &desc.to_string());
        let mut got_response: Option<Result<u16, String>> = None;
        match case {
            Case::Caller { exe, arg, denied } => {
                let pid = env.w.spawn_proc(exe, &[arg], Some(1001));
                let rec = AuditRec::to(IMDS, 1001, pid, false);
                env.w.set_rules(IMDS, if *denied { Policy::simple("enforce-deny", "enforce", false).to_item() } else { None });
                let raw = build_request("GET", "/metadata/instance", &[("Host", b"h"), ("Metadata", b"true")], None, None);
                got_response = Some(env.request(&rec, &raw));
                // the status task publishes the summaries (status messages / summaries are read there)
                std::thread::sleep(Duration::from_millis(20));
            }
            Case::CallerBytes { exe, denied } => {
                use std::os::unix::ffi::OsStrExt;
                let pid = env.w.spawn_proc_os(std::ffi::OsStr::from_bytes(exe), &[std::ffi::OsStr::new("100000")], Some(1001));
                let rec = AuditRec::to(IMDS, 1001, pid, false);
                env.w.set_rules(IMDS, if *denied { Policy::simple("enforce-deny", "enforce", false).to_item() } else { None });
                let raw = build_request("GET", "/metadata/instance", &[("Host", b"h"), ("Metadata", b"true")], None, None);
                got_response = Some(env.request(&rec, &raw));
                std::thread::sleep(Duration::from_millis(20));
            }
            Case::CallerOdd { kind, denied } => {
                let pid = match *kind {
                    "main-thread-exited" => env.w.spawn_leaderless("vt-selfnamed", Some(1001)),
                    "process-gone" => {
                        let mut c = std::process::Command::new("/bin/true").spawn().unwrap();
                        let p = c.id();
                        let _ = c.wait();
                        p
                    }
                    "pid-zero" => 0,
                    _ => u32::MAX,
                };
                let rec = AuditRec::to(IMDS, 1001, pid, false);
                env.w.set_rules(IMDS, if *denied { Policy::simple("enforce-deny", "enforce", false).to_item() } else { None });
                let raw = build_request("GET", "/metadata/instance", &[("Host", b"h"), ("Metadata", b"true")], None, None);
                got_response = Some(env.request(&rec, &raw));
                std::thread::sleep(Duration::from_millis(20));
            }
            Case::SilentPeer { partial } => {
                // two silent connections (one attributed, one direct) stay open while an ordinary request is made
                let p = env.port();
                let mut quiet: Vec<Client> = Vec::new();
                if let Ok(mut c) = env.w.connect(Some(p), Some(&root_rec)) {
                    let _ = c.send(partial);
                    quiet.push(c);
                }
                if let Ok(s) = vcommon::rawhttp::connect_from([127, 0, 0, 1], None, world::PROXY.parse().unwrap()) {
                    let mut c = Client::new(s);
                    let _ = c.send(partial);
                    quiet.push(c);
                }
                std::thread::sleep(Duration::from_millis(30));
                let raw = build_request("GET", "/plain", &[("Host", b"h")], None, None);
                got_response = Some(env.request(&root_rec, &raw));
                for c in quiet {
                    c.close();
                }
            }
            Case::Request { raw, .. } => {
                got_response = Some(env.request(&root_rec, raw));
            }
            Case::Rules { doc } => {
                let item: gpa_harness::key_keeper::key::AuthorizationItem = serde_json::from_value(doc.clone()).unwrap();
                env.w.set_rules(IMDS, Some(item));
                let pid = env.w.spawn_proc("/usr/bin/vt-app", &["rules"], Some(1001));
                let rec = AuditRec::to(IMDS, 1001, pid, false);
                for url in ["/a/x", "/a/b?k=v", "/c", "/zzz", "/a/b?k=100%", "/a/b?k=%2", "/a/b?k=%zz%", "/a/b?k=%", "/a/b?k", "/a/b?k=%ff%fe", "/a/b?=&&k=&", "/a/b?K=%C3"] {
                    let raw = build_request("GET", url, &[("Host", b"h"), ("Metadata", b"true")], None, None);
                    got_response = Some(env.request(&rec, &raw));
                }
                env.w.set_rules(IMDS, None);
            }
            Case::Notify { offsets_us } => {
                let kk = env.w.shared.get_key_keeper_shared_state();
                // the process is not alone on the machine: both runtime workers are held for 4 ms at a time
                // while the notifications arrive (what a busy host does to the agent), so that the work the key
                // keeper does on a wake-up takes a few milliseconds of its poll interval
                let stop = Arc::new(std::sync::atomic::AtomicBool::new(false));
                for _ in 0..env.opts.worker_threads {
                    let stop = stop.clone();
                    env.w.rt.spawn(async move {
                        while !stop.load(std::sync::atomic::Ordering::SeqCst) {
                            std::thread::sleep(Duration::from_micros(4000));
                            tokio::task::yield_now().await;
                        }
                    });
                }
                for o in offsets_us {
                    let cur = env.w.hosts.ws.cursor();
                    let t = Instant::now();
                    while t.elapsed() < Duration::from_millis(1500) && !env.w.hosts.ws.requests_since(cur).iter().any(|(_, m)| m.target().starts_with("/secure-channel/status")) {
                        std::thread::sleep(Duration::from_micros(200));
                    }
                    if t.elapsed() >= Duration::from_millis(1500) {
                        break; // no poll for 1.5 s (interval: 15 ms): the liveness check below reports it
                    }
                    std::thread::sleep(Duration::from_micros(*o));
                    let _ = env.w.rt.block_on(async { kk.notify().await });
                }
                stop.store(true, std::sync::atomic::Ordering::SeqCst);
                std::thread::sleep(Duration::from_millis(10));
            }
            Case::HostReplyClose { segs } => {
                env.ws_close.store(true, std::sync::atomic::Ordering::SeqCst);
                *env.ws_reply.lock().unwrap() = segs.clone();
                let _ = env.poll_key_keeper();
                let _ = env.provision_query();
                std::thread::sleep(Duration::from_millis(20));
            }
            Case::FdShortage { ms } => {
                // the client's socket exists (and is bound, its record written) before the shortage; every free descriptor
                // number below the highest one in use is filled and the soft limit is lowered to it: the listener's accept()
                // fails with EMFILE until the limit is restored; afterwards this client and later ones are served
                let p = env.port();
                env.w.inject_audit(p, &root_rec);
                let fd = unsafe { libc::socket(libc::AF_INET, libc::SOCK_STREAM | libc::SOCK_CLOEXEC, 0) };
                let one: libc::c_int = 1;
                let mut addr: libc::sockaddr_in = unsafe { std::mem::zeroed() };
                addr.sin_family = libc::AF_INET as u16;
                addr.sin_port = p.to_be();
                addr.sin_addr.s_addr = u32::from_ne_bytes([127, 0, 0, 1]);
                unsafe {
                    libc::setsockopt(fd, libc::SOL_SOCKET, libc::SO_REUSEADDR, &one as *const _ as *const libc::c_void, 4);
                    if libc::bind(fd, &addr as *const _ as *const libc::sockaddr, std::mem::size_of::<libc::sockaddr_in>() as u32) != 0 {
                        vcommon::result::machinery("cannot bind the client socket of the descriptor-shortage case");
                    }
                }
                let max_fd = std::fs::read_dir("/proc/self/fd").map(|d| d.flatten().filter_map(|e| e.file_name().to_string_lossy().parse::<i32>().ok()).max().unwrap_or(64)).unwrap_or(64);
                let mut fillers: Vec<i32> = Vec::new();
                loop {
                    let f = unsafe { libc::open(b"/dev/null\0".as_ptr() as *const libc::c_char, libc::O_RDONLY | libc::O_CLOEXEC) };
                    if f < 0 {
                        break;
                    }
                    fillers.push(f);
                    if f > max_fd {
                        break;
                    }
                }
                let top = fillers.iter().cloned().max().unwrap_or(max_fd).max(max_fd);
                let mut lim: libc::rlimit = unsafe { std::mem::zeroed() };
                unsafe { libc::getrlimit(libc::RLIMIT_NOFILE, &mut lim) };
                let saved = lim.rlim_cur;
                lim.rlim_cur = (top + 1) as libc::rlim_t;
                unsafe { libc::setrlimit(libc::RLIMIT_NOFILE, &lim) };
                let mut dst: libc::sockaddr_in = unsafe { std::mem::zeroed() };
                dst.sin_family = libc::AF_INET as u16;
                dst.sin_port = 3080u16.to_be();
                dst.sin_addr.s_addr = u32::from_ne_bytes([127, 0, 0, 1]);
                let rc = unsafe { libc::connect(fd, &dst as *const _ as *const libc::sockaddr, std::mem::size_of::<libc::sockaddr_in>() as u32) };
                std::thread::sleep(Duration::from_millis(*ms));
                lim.rlim_cur = saved;
                unsafe { libc::setrlimit(libc::RLIMIT_NOFILE, &lim) };
                for f in fillers {
                    unsafe { libc::close(f) };
                }
                if rc != 0 {
                    unsafe { libc::close(fd) };
                    vcommon::result::machinery("the client of the descriptor-shortage case could not connect");
                }
                use std::os::fd::FromRawFd;
                let mut c = Client::new(unsafe { std::net::TcpStream::from_raw_fd(fd) });
                let raw = build_request("GET", "/plain", &[("Host", b"h")], None, None);
                // what this very client gets is not judged: if a descriptor number below the limit happened to be free, its
                // connection was accepted *during* the shortage and the handler may have failed for want of descriptors,
                // which the statement does not forbid; what is judged is that nothing panics and that the listener serves
                // again afterwards (the liveness probe after the case)
                let _ = c.send(&raw).map_err(|e| e.to_string()).and_then(|_| c.read_response(false, Duration::from_secs(5)).map(|m| m.status()));
                c.close();
                std::thread::sleep(Duration::from_millis(20));
            }
            Case::HostReplySlow { delay_ms } => {
                *env.ws_reply.lock().unwrap() = vec![simple_response(200, &[("Content-Type", "application/json")], &good_status())];
                ws_delay_ms.store(*delay_ms, std::sync::atomic::Ordering::SeqCst);
                let mut ok = true;
                for _ in 0..3 {
                    ok &= env.poll_key_keeper();
                }
                ws_delay_ms.store(0, std::sync::atomic::Ordering::SeqCst);
                if !ok {
                    res.violation("key-keeper-stopped-polling", &format!("the key keeper stopped polling while the host answered its status polls {delay_ms} ms late"), desc.clone());
                }
                let _ = env.provision_query();
                std::thread::sleep(Duration::from_millis(20));
            }
            Case::HostReply { segs, .. } => {
                *env.ws_reply.lock().unwrap() = segs.clone();
                let polled = env.poll_key_keeper();
                if !polled {
                    res.violation("key-keeper-stopped-polling", "the key keeper did not poll after a notify", desc.clone());
                }
                // reading the key-keeper status (provision query, status task) must survive whatever the reply put there
                let _ = env.provision_query();
                std::thread::sleep(Duration::from_millis(20));
            }
        }
        let panics = world::take_panics();
        let subject_panics: Vec<&String> = panics.iter().filter(|p| !p.contains("thread=main ") && !p.contains("thread=mock-")).collect();
        if panics.len() != subject_panics.len() {
            vcommon::result::machinery(&format!("harness-side panic: {:?}", panics));
        }
        for p in &subject_panics {
            panics_total += 1;
            let at = p.split(" at=").nth(1).unwrap_or("?").split(' ').next().unwrap_or("?");
            let file = at.rsplit('/').next().unwrap_or(at);
            res.violation(&format!("panic:{}:{}", file.split(':').next().unwrap_or("?"), desc["kind"].as_str().unwrap_or("?")), &format!("{p}"), desc.clone());
        }
        if let Some(r) = &got_response {
            if r.is_err() && subject_panics.is_empty() {
                res.violation(&format!("no-http-response:{}", desc["kind"].as_str().unwrap_or("?")), &format!("syntactically valid request got no HTTP response: {:?}", r), desc.clone());
            }
        }
        let dead = env.liveness();
        let late = world::take_panics();
        for p in &late {
            let at = p.split(" at=").nth(1).unwrap_or("?").split(' ').next().unwrap_or("?");
            let file = at.rsplit('/').next().unwrap_or(at);
            res.violation(&format!("panic:{}:{}", file.split(':').next().unwrap_or("?"), desc["kind"].as_str().unwrap_or("?")), &format!("(during the liveness probe after the case) {p}"), desc.clone());
            panics_total += 1;
        }
        if !dead.is_empty() {
            res.violation(&format!("not-live-after:{}:{}", dead.join("+"), desc["kind"].as_str().unwrap_or("?")), &format!("after the case these parts no longer respond: {:?}", dead), desc.clone());
            // start over with a fresh subject so that later cases are judged on their own
            env.w.restart_subject(&env.opts);
            env.start_background_tasks();
            env.w.set_key(Some(K1));
            let again = env.liveness();
            if !again.is_empty() {
                // a freshly started subject that is not live either: once more, then the subject is what is broken (a
                // violation has just been recorded above) and the remaining cases cannot be judged: stop here and report
                env.w.restart_subject(&env.opts);
                env.start_background_tasks();
                env.w.set_key(Some(K1));
                let third = env.liveness();
                if !third.is_empty() {
                    res.violation(&format!("not-live-after-a-fresh-start:{}", third.join("+")), &format!("after a crash the subject was started afresh twice and these parts still do not respond: {:?}; the remaining cases were not run", third), desc.clone());
                    res.cov("stopped_after_unrecoverable_subject", true);
                    break;
                }
            }
            let _ = world::take_panics();
        }
        if evals <= 2 || (evals % 97 == 0 && res.samples.len() < 6) {
            res.sample(json!({"case": desc, "response": format!("{:?}", got_response)}));
        }
        // flushed after every case: what was found so far survives a death of this process
        res.cov("evaluations", evals);
        res.cov("distinct_nontrivial", nontrivial.len() as u64);
        res.cov("panics_recorded", panics_total);
        res.finish();
    }
    res.cov("evaluations", evals);
    res.cov("distinct_nontrivial", nontrivial.len() as u64);
    res.cov("panics_recorded", panics_total);
    res.cov("exhaustive", true);
    res.cov("rule", "caller command lines/exe names made of 2-, 3- and 4-byte UTF-8 characters behind 0..w-1 ASCII bytes (every alignment against the byte-offset cuts at 512/1024/4096) x allowed/denied; callers whose executable path is not valid UTF-8 (directory, file name, both); callers whose main thread has exited (executable and command line unreadable), that are gone, or whose recorded pid is 0 / 2^32-1; requests with each header-value byte (0x09, 0x7f, 0x80..0xff; quick: 6 representatives) single and repeated, URLs/queries of 1000..65000 bytes, 90 repeated headers, a 30000-byte header value, requests without / with an empty / with two Host headers, HTTP/1.0, OPTIONS *, CONNECT (authority-form), absolute-form targets, chunked bodies that exceed the size limit while being read, /provision queries with extreme time ticks, ordinary requests while other local clients keep silent connections open; query values with truncated / invalid percent escapes while rules with query parameters are in force; host replies to the key keeper's status poll over 9 content types x bodies (empty, 1-3 bytes, valid, multi-byte bodies at every alignment) x content-length / chunked with a 1- or 3-byte first chunk (odd UTF-16 frames) / a declared Content-Length of 2^63 or 2^40 with the connection closed; correct status answers that come 2x / 4x / 20x the poll interval late; 16 rule documents with dangling, duplicate, missing and empty names in force while matching requests arrive; wake-up notifications to the key keeper at every 0.125 ms offset across its poll interval; the cases run in a supervised child process, so a death of the whole process (abort, allocation failure) is attributed to the case in progress; after every case: no panic anywhere in the process, the request got an HTTP response, and listener, /provision, key keeper and status task are still live".to_string());
    res.assume("a panic is attributed to the case during or directly after which it is recorded");
    std::process::exit(res.finish());
}
