//! C18: telemetry is delivered at most once, well-formed, in bounded batches.
//! The real EventReader runs (paused clock) against a mock host that serves goal state, shared
//! config and instance metadata and records every telemetry POST; event files are generated from an
//! alphabet of counts x content classes x sizes around the 64 KiB batch limit x upload answer
//! patterns. The bodies are parsed with an independent XML parser (xml-rs) and compared with the
//! events that were written to the store.

use gpa_harness::shared_state::SharedState;
use gpa_harness::telemetry::event_reader::EventReader;
use gpa_harness::telemetry::telemetry_event::{TelemetryData, TelemetryEvent};
use proxy_agent_shared::telemetry::Event;
use serde_json::{json, Value};
use std::collections::{BTreeMap, BTreeSet};
use std::sync::{Arc, Mutex};
use std::time::{Duration, Instant};
use vcommon::rawhttp::{simple_response, Action, MockHost, Msg};
use vcommon::result::{is_thorough, EngineResult};

const LIMIT: usize = 64 * 1024;

fn extract_raw_strings(path: &str) -> Vec<String> {
    let src = std::fs::read_to_string(path).unwrap_or_default();
    let mut out = Vec::new();
    let mut rest = src.as_str();
    while let Some(i) = rest.find("r#\"") {
        let r = &rest[i + 3..];
        if let Some(j) = r.find("\"#") {
            out.push(r[..j].to_string());
            rest = &r[j + 2..];
        } else {
            break;
        }
    }
    out
}

struct HostCtl {
    /// answers for the telemetry POSTs, consumed front to back; when empty: 200
    answers: Vec<u16>, // 200, 500, 0 = reset
    posts: Vec<(Vec<u8>, u16)>,
    goalstate_gets: u64,
}

fn parse_body(body: &[u8]) -> Result<Vec<BTreeMap<String, String>>, String> {
    use xml::reader::{EventReader as XmlReader, XmlEvent};
    let text = std::str::from_utf8(body).map_err(|e| format!("body is not UTF-8: {e}"))?;
    let mut events: Vec<BTreeMap<String, String>> = Vec::new();
    let mut path: Vec<String> = Vec::new();
    let mut cdata: Option<String> = None;
    let cfg = xml::ParserConfig::new().cdata_to_characters(false).trim_whitespace(false);
    for ev in XmlReader::new_with_config(text.as_bytes(), cfg) {
        match ev.map_err(|e| format!("not well-formed: {e}"))? {
            XmlEvent::StartElement { name, .. } => {
                path.push(name.local_name.clone());
                let want: &[&str] = &["TelemetryData", "Provider", "Event"];
                if path.len() > 3 || path[path.len() - 1] != want[path.len() - 1] {
                    return Err(format!("unexpected element structure {:?}", path));
                }
                if path.len() == 3 {
                    cdata = Some(String::new());
                }
            }
            XmlEvent::EndElement { .. } => {
                if path.len() == 3 {
                    let payload = cdata.take().unwrap_or_default();
                    events.push(parse_params(&payload)?);
                }
                path.pop();
            }
            XmlEvent::CData(s) => {
                if path.len() != 3 {
                    return Err("CDATA outside an Event element".into());
                }
                cdata.as_mut().unwrap().push_str(&s);
            }
            XmlEvent::Characters(s) | XmlEvent::Whitespace(s) => {
                if path.len() == 3 && !s.is_empty() {
                    return Err(format!("text outside CDATA inside an Event: {:?}", s.chars().take(40).collect::<String>()));
                }
            }
            _ => {}
        }
    }
    Ok(events)
}

fn parse_params(payload: &str) -> Result<BTreeMap<String, String>, String> {
    use xml::reader::{EventReader as XmlReader, XmlEvent};
    let wrapped = format!("<r>{payload}</r>");
    let mut out = BTreeMap::new();
    let mut depth = 0;
    for ev in XmlReader::new(wrapped.as_bytes()) {
        match ev.map_err(|e| format!("event payload not well-formed: {e}"))? {
            XmlEvent::StartElement { name, attributes, .. } => {
                depth += 1;
                if depth == 2 {
                    if name.local_name != "Param" {
                        return Err(format!("unexpected element {} in an event payload", name.local_name));
                    }
                    let n = attributes.iter().find(|a| a.name.local_name == "Name").map(|a| a.value.clone()).unwrap_or_default();
                    let v = attributes.iter().find(|a| a.name.local_name == "Value").map(|a| a.value.clone()).unwrap_or_default();
                    if attributes.len() != 3 {
                        return Err(format!("Param {n} has {} attributes", attributes.len()));
                    }
                    if out.insert(n.clone(), v).is_some() {
                        return Err(format!("Param {n} appears twice in one event"));
                    }
                } else if depth > 2 {
                    return Err("nested element inside a Param".into());
                }
            }
            XmlEvent::EndElement { .. } => depth -= 1,
            XmlEvent::Characters(s) if depth >= 1 && !s.trim().is_empty() => return Err(format!("text between Params: {:?}", s.chars().take(40).collect::<String>())),
            _ => {}
        }
    }
    Ok(out)
}

#[derive(Clone)]
struct Ev {
    id: String,
    message: String,
    task: String,
    oversize: bool,
    /// other free-text fields of a stored event (None = an ordinary value)
    version: Option<String>,
    timestamp: Option<String>,
    level: Option<String>,
}

fn mk_event(e: &Ev) -> Event {
    Event {
        EventLevel: e.level.clone().unwrap_or("Info".into()),
        Message: e.message.clone(),
        Version: e.version.clone().unwrap_or("1.0.0".into()),
        TaskName: e.task.clone(),
        EventPid: "123".into(),
        EventTid: "456".into(),
        OperationId: e.id.clone(),
        TimeStamp: e.timestamp.clone().unwrap_or("2026-01-01T00:00:00.000Z".into()),
    }
}

fn rendered_size(events: &[Ev]) -> usize {
    // envelope measured with the subject's own public API (only used to choose message lengths)
    let mut td = TelemetryData::new();
    let meta = META.get().expect("metadata").clone();
    for e in events {
        td.add_event(TelemetryEvent::from_event_log(&mk_event(e), meta.clone()));
    }
    td.get_size()
}

static META: std::sync::OnceLock<gpa_harness::telemetry::event_reader::VmMetaData> = std::sync::OnceLock::new();

struct RunOut {
    posts: Vec<(Vec<u8>, u16)>,
    terminated: bool,
    files_left: Vec<String>,
}

fn run_once(host: &MockHost, ctl: &Arc<Mutex<HostCtl>>, port: u16, dir: &std::path::Path, files: &[Vec<Ev>], answers: &[u16]) -> RunOut {
    let _ = std::fs::remove_dir_all(dir);
    std::fs::create_dir_all(dir).unwrap();
    for (i, f) in files.iter().enumerate() {
        let evs: Vec<Event> = f.iter().map(mk_event).collect();
        std::fs::write(dir.join(format!("{:020}.json", 1000 + i)), serde_json::to_vec(&evs).unwrap()).unwrap();
    }
    {
        let mut c = ctl.lock().unwrap();
        c.answers = answers.to_vec();
        c.posts.clear();
        c.goalstate_gets = 0;
    }
    let dir2 = dir.to_path_buf();
    let done = Arc::new(std::sync::atomic::AtomicBool::new(false));
    let (d2, ctl2) = (done.clone(), ctl.clone());
    let th = std::thread::Builder::new()
        .name("subject".into())
        .spawn(move || {
            let rt = tokio::runtime::Builder::new_current_thread().enable_all().start_paused(true).build().unwrap();
            rt.block_on(async move {
                let shared = SharedState::start_all();
                let token = shared.get_cancellation_token();
                let reader = EventReader::new(dir2, false, token.clone(), shared.get_key_keeper_shared_state(), shared.get_telemetry_shared_state(), shared.get_agent_status_shared_state());
                let h = tokio::spawn(async move { reader.start(Some(Duration::from_secs(1)), Some("127.0.0.1"), Some(port)).await });
                // the first cycle is over when the reader asks for the goal state a second time
                loop {
                    tokio::time::sleep(Duration::from_millis(200)).await;
                    if ctl2.lock().unwrap().goalstate_gets >= 2 {
                        break;
                    }
                }
                token.cancel();
                let _ = h.await;
            });
            d2.store(true, std::sync::atomic::Ordering::SeqCst);
        })
        .unwrap();
    let t = Instant::now();
    while !done.load(std::sync::atomic::Ordering::SeqCst) && t.elapsed() < Duration::from_secs(12) {
        std::thread::sleep(Duration::from_millis(1));
    }
    let terminated = done.load(std::sync::atomic::Ordering::SeqCst);
    if terminated {
        let _ = th.join();
        let t = Instant::now();
        while host.open_connections() > 0 && t.elapsed() < Duration::from_secs(3) {
            std::thread::sleep(Duration::from_micros(300));
        }
        host.truncate_log();
    }
    let files_left: Vec<String> = std::fs::read_dir(dir).map(|rd| rd.flatten().map(|e| e.file_name().to_string_lossy().to_string()).collect()).unwrap_or_default();
    let posts = ctl.lock().unwrap().posts.clone();
    RunOut { posts, terminated, files_left }
}

fn main() {
    proxy_agent_shared::logger::logger_manager::set_logger_level(proxy_agent_shared::logger::LoggerLevel::Error);
    let thorough = is_thorough();
    let mut res = EngineResult::new("C18");
    let repo = std::env::var("VERIF_REPO").unwrap_or("/repo".into());
    let gs = extract_raw_strings(&format!("{repo}/proxy_agent/src/host_clients/goal_state.rs"));
    let ii = extract_raw_strings(&format!("{repo}/proxy_agent/src/host_clients/instance_info.rs"));
    if gs.len() < 2 || ii.is_empty() {
        vcommon::result::machinery("cannot find the sample goal state / shared config / instance documents in the repository sources");
    }
    let host = MockHost::start("host", "127.0.0.1:0").unwrap();
    let port = host.addr.port();
    let goalstate = gs[0].replace("168.63.129.16:80", &format!("127.0.0.1:{port}"));
    let sharedconfig = gs[1].clone();
    let instance = ii[0].clone();
    {
        // the metadata the reader will derive from the served documents (same public parsers and getters as update_vm_meta_data)
        use gpa_harness::host_clients::goal_state::{GoalState, SharedConfig};
        use gpa_harness::host_clients::instance_info::InstanceInfo;
        let g: GoalState = serde_xml_rs::from_str(&goalstate).unwrap_or_else(|e| vcommon::result::machinery(&format!("sample goal state: {e}")));
        let sc: SharedConfig = serde_xml_rs::from_str(&sharedconfig).unwrap_or_else(|e| vcommon::result::machinery(&format!("sample shared config: {e}")));
        let inst: InstanceInfo = serde_json::from_str(&instance).unwrap_or_else(|e| vcommon::result::machinery(&format!("sample instance info: {e}")));
        let _ = META.set(gpa_harness::telemetry::event_reader::VmMetaData {
            container_id: g.get_container_id(),
            role_name: sc.get_role_name(),
            role_instance_name: sc.get_role_instance_name(),
            tenant_name: sc.get_deployment_name(),
            subscription_id: inst.get_subscription_id(),
            resource_group_name: inst.get_resource_group_name(),
            vm_id: inst.get_vm_id(),
            image_origin: inst.get_image_origin(),
        });
    }
    let ctl = Arc::new(Mutex::new(HostCtl { answers: vec![], posts: vec![], goalstate_gets: 0 }));
    {
        let ctl = ctl.clone();
        host.set_responder(Arc::new(move |m: &Msg, _c, _i| {
            let t = m.target();
            if t.contains("comp=goalstate") {
                ctl.lock().unwrap().goalstate_gets += 1;
                Action::Reply(vec![simple_response(200, &[("Content-Type", "text/xml; charset=utf-8")], goalstate.as_bytes())])
            } else if t.contains("type=sharedConfig") {
                Action::Reply(vec![simple_response(200, &[("Content-Type", "text/xml; charset=utf-8")], sharedconfig.as_bytes())])
            } else if t.starts_with("/metadata/instance") {
                Action::Reply(vec![simple_response(200, &[("Content-Type", "application/json; charset=utf-8")], instance.as_bytes())])
            } else if t.contains("comp=telemetrydata") {
                let mut c = ctl.lock().unwrap();
                let a = if c.answers.is_empty() { 200 } else { c.answers.remove(0) };
                c.posts.push((m.body.clone(), a));
                match a {
                    0 => Action::Reset,
                    // the host accepts the batch (200) but its answer's body is cut short: 64 bytes announced, 8 sent, connection closed
                    1200 => Action::ReplyClose(vec![b"HTTP/1.1 200 OK\r\nContent-Type: text/plain\r\nContent-Length: 64\r\n\r\naccepted".to_vec()]),
                    // failures that carry data: a throttling answer with a Retry-After header (seconds / an HTTP date far ahead)
                    1503 => Action::Reply(vec![simple_response(503, &[("Retry-After", "4294967295")], b"")]),
                    1429 => Action::Reply(vec![simple_response(429, &[("Retry-After", "4294967295")], b"busy")]),
                    1504 => Action::Reply(vec![simple_response(503, &[("Retry-After", "Fri, 31 Dec 9999 23:59:59 GMT")], b"")]),
                    s => Action::Reply(vec![simple_response(s, &[], b"")]),
                }
            } else {
                Action::Reply(vec![simple_response(404, &[], b"")])
            }
        }));
    }
    let dir = std::path::PathBuf::from(std::env::var("VERIF_TARGET").unwrap_or("/verif/target".into())).join(format!("run/c18-{}", std::process::id()));

    // ---- alphabet
    let classes: Vec<(&str, &str)> = vec![
        ("plain", "plain text message"),
        ("markup", "<a href=\"x\">&amp; 'q' </a> & > <"),
        ("cdata-end", "before ]]> after"),
        ("cdata-nest", "a ]]]]><![CDATA[> b ]]> c <![CDATA[ d"),
        ("utf8-2", "h\u{e9}llo w\u{f6}rld"),
        ("utf8-3", "\u{20ac}\u{4e2d}\u{6587} text"),
        ("utf8-4", "\u{1f600} smile \u{1f680}"),
        ("mixed", "\u{1f600} <x> ]]> & \u{e9} \"q\" 'a' </Event></Provider>"),
        ("bare-cdata-end-only", "]]>"),
        ("looks-like-param", "\" /><Param Name=\"Injected\" Value=\"1"),
    ];
    let base1 = rendered_size(&[Ev { id: "ev-0".into(), message: String::new(), task: "t".into(), oversize: false, version: None, timestamp: None, level: None }]);
    let base2 = rendered_size(&[Ev { id: "ev-0".into(), message: String::new(), task: "t".into(), oversize: false, version: None, timestamp: None, level: None }, Ev { id: "ev-1".into(), message: String::new(), task: "t".into(), oversize: false, version: None, timestamp: None, level: None }]);
    let per_event = base2 - base1; // bytes one more (empty-message) event adds
    let envelope = base1 - per_event;
    let mut cases: Vec<(Value, Vec<Vec<Ev>>, Vec<u16>)> = Vec::new();
    let mut nid = 0usize;
    let mut ev = |message: String, task: &str| -> Ev {
        nid += 1;
        Ev { id: format!("ev-{nid}"), message, task: task.to_string(), oversize: false, version: None, timestamp: None, level: None }
    };
    // (a) counts x content classes, one and two files
    for (cname, text) in &classes {
        for count in if thorough { vec![0usize, 1, 2, 3, 40] } else { vec![1usize, 3] } {
            let f1: Vec<Ev> = (0..count).map(|i| ev(format!("{text} #{i}"), cname)).collect();
            cases.push((json!({"family": "content", "class": cname, "events": count, "files": 1}), vec![f1.clone()], vec![]));
            if thorough || count == 3 {
                let f2: Vec<Ev> = (0..2).map(|i| ev(format!("{text} second file #{i}"), cname)).collect();
                cases.push((json!({"family": "content", "class": cname, "events": count, "files": 2}), vec![f1, f2], vec![]));
            }
        }
    }
    // (a2) the same content classes in the other free-text fields of a stored event (version, time stamp, level): a file
    // is whatever lies in the event folder, not only what this agent version writes
    for (cname, text) in &classes {
        for field in ["version", "timestamp", "level"] {
            let mut e1 = ev(format!("field {field} #{cname}"), "other-field");
            let mut e2 = ev("a plain event behind it".to_string(), "other-field");
            let v = Some(text.to_string());
            match field {
                "version" => e1.version = v,
                "timestamp" => e1.timestamp = v,
                _ => e1.level = v,
            }
            e2.version = None;
            cases.push((json!({"family": "content-in-other-field", "class": cname, "field": field}), vec![vec![e1, e2]], vec![]));
        }
    }
    // (b) sizes: batch of k events whose total rendered size is exactly LIMIT-1 / LIMIT / LIMIT+1
    for k in [1usize, 2, 3] {
        for total in [LIMIT - 2, LIMIT - 1, LIMIT, LIMIT + 1] {
            for extra_events in [0usize, 2] {
                let body_budget = total - envelope - k * per_event;
                let each = body_budget / k;
                let mut f: Vec<Ev> = Vec::new();
                for i in 0..k {
                    let len = if i == 0 { body_budget - each * (k - 1) } else { each };
                    f.push(ev("m".repeat(len), "size"));
                }
                // hit the target exactly (operation ids have varying lengths): adjust the first message
                let now = rendered_size(&f);
                let l0 = f[0].message.len() as i64 + total as i64 - now as i64;
                f[0].message = "m".repeat(l0.max(0) as usize);
                assert_eq!(rendered_size(&f), total, "size family construction");
                for e in f.iter_mut() {
                    e.oversize = rendered_size(std::slice::from_ref(e)) >= LIMIT;
                }
                for i in 0..extra_events {
                    f.push(ev(format!("small {i}"), "size"));
                }
                cases.push((json!({"family": "size", "events_in_batch": k, "rendered_total": total, "small_events_after": extra_events}), vec![f], vec![]));
            }
        }
    }
    // (c) one event alone above the limit, first / middle / last
    for pos in 0..3usize {
        for big in [LIMIT + 10, 70 * 1024, 200 * 1024] {
            let mut f: Vec<Ev> = (0..3).map(|i| ev(format!("normal {i}"), "big")).collect();
            let mut e = ev("B".repeat(big), "big");
            e.oversize = rendered_size(std::slice::from_ref(&e)) >= LIMIT;
            f.insert(pos, e);
            cases.push((json!({"family": "oversize", "position": pos, "message_bytes": big}), vec![f], vec![]));
        }
    }
    // (c2) the event above the limit consists of 2-, 3- and 4-byte characters behind 0..w-1 ASCII bytes (whatever is done
    // with its text on the way out - logged, truncated, measured - meets a character boundary at every alignment)
    for (ch, wd) in [("\u{e9}", 2usize), ("\u{20ac}", 3), ("\u{1f600}", 4)] {
        for k in 0..wd {
            let mut f: Vec<Ev> = (0..2).map(|i| ev(format!("normal {i}"), "bigmb")).collect();
            let mut e = ev(format!("{}{}", "a".repeat(k), ch.repeat(70 * 1024 / wd)), "bigmb");
            e.oversize = rendered_size(std::slice::from_ref(&e)) >= LIMIT;
            f.insert(1, e);
            cases.push((json!({"family": "oversize-multibyte", "char_width": wd, "ascii_prefix": k}), vec![f], vec![]));
        }
    }
    // (c3) files without events, alone and between files with events
    cases.push((json!({"family": "empty-file", "files": "[]"}), vec![vec![]], vec![]));
    cases.push((json!({"family": "empty-file", "files": "[A,B] [] [C]"}), vec![vec![ev("A".into(), "empty"), ev("B".into(), "empty")], vec![], vec![ev("C".into(), "empty")]], vec![]));
    // (d) upload failure patterns: every pattern of length <= 5 over {200, 500} (+ reset variants)
    let maxp = if thorough { 5 } else { 3 };
    for len in 1..=maxp {
        for seq in vcommon::explore::sequences(2, len) {
            let answers: Vec<u16> = seq.iter().map(|&b| if b == 0 { 500 } else { 200 }).collect();
            // two batches: a large event forces a second batch
            let f: Vec<Ev> = vec![ev("x".repeat(40 * 1024), "retry"), ev("y".repeat(40 * 1024), "retry"), ev("tail".into(), "retry")];
            cases.push((json!({"family": "upload-answers", "answers": answers}), vec![f], answers));
        }
    }
    for answers in [vec![0u16, 200], vec![0, 0, 0, 0, 0, 200], vec![500, 0, 200], vec![1200], vec![1200, 200], vec![500, 1200, 200], vec![1200, 1200], vec![202], vec![204], vec![201, 200], vec![500, 202], vec![202, 202, 202]] {
        let f: Vec<Ev> = vec![ev("x".repeat(40 * 1024), "retry"), ev("y".repeat(40 * 1024), "retry")];
        cases.push((json!({"family": "upload-answers", "answers": answers}), vec![f], answers));
    }
    // failures that carry a Retry-After header (last: a subject that hangs leaves a spinning thread behind)
    for answers in [vec![1503u16, 200], vec![1429, 200], vec![1504, 200], vec![1503, 1503, 1503, 1503, 1503], vec![200, 1429, 1503, 200]] {
        let f: Vec<Ev> = vec![ev("x".repeat(40 * 1024), "retry"), ev("y".repeat(40 * 1024), "retry")];
        cases.push((json!({"family": "upload-answers-with-retry-after", "answers": answers}), vec![f], answers));
    }
    if let Ok(path) = std::env::var("VERIF_REPLAY") {
        let doc: Value = serde_json::from_str(&std::fs::read_to_string(path).unwrap()).unwrap();
        cases.retain(|c| c.0 == doc["case"]);
    }

    let mut evals = 0u64;
    let mut nontrivial: BTreeSet<String> = BTreeSet::new();
    let mut bodies_total = 0u64;
    let mut hung = 0u32;
    for (desc, files, answers) in &cases {
        evals += 1;
        nontrivial.insert(desc.to_string());
        let out = run_once(&host, &ctl, port, &dir, files, answers);
        let all: Vec<&Ev> = files.iter().flatten().collect();
        if !out.terminated {
            res.violation(&format!("processing-does-not-terminate:{}", desc["family"].as_str().unwrap_or("?")), "the event reader did not finish its cycle (no second goal-state poll within 12 s of real time on a paused clock)", desc.clone());
            hung += 1;
            if hung >= 3 {
                break; // every hang leaves a spinning thread behind
            }
            continue;
        }
        for f in &out.files_left {
            if f.ends_with(".json") {
                res.violation("consumed-file-not-removed", &format!("event file {f} is still in the event directory after the cycle"), desc.clone());
            }
        }
        bodies_total += out.posts.len() as u64;
        // per event id: distinct bodies it occurs in, and bodies answered 2xx
        let mut occurs: BTreeMap<String, BTreeSet<u64>> = BTreeMap::new();
        let mut accepted: BTreeMap<String, u32> = BTreeMap::new();
        let mut seen_body_ok: BTreeSet<u64> = BTreeSet::new();
        for (body, status) in &out.posts {
            if body.len() >= LIMIT {
                res.violation("batch-too-large", &format!("a batch of {} bytes was uploaded (limit: smaller than {LIMIT})", body.len()), desc.clone());
            }
            let digest = vcommon::explore::fnv(body);
            match parse_body(body) {
                Err(why) => {
                    res.violation(&format!("batch-not-well-formed:{}", desc.get("class").and_then(|c| c.as_str()).unwrap_or(desc["family"].as_str().unwrap_or("?"))), &why, desc.clone());
                }
                Ok(events) => {
                    for params in events {
                        let id = params.get("Context3").cloned().unwrap_or_default();
                        match all.iter().find(|e| e.id == id) {
                            None => res.violation("event-not-from-the-store", &format!("an uploaded event carries operation id {id:?} which no stored event has (structure altered?) params {:?}", params.keys().collect::<Vec<_>>()), desc.clone()),
                            Some(orig) => {
                                if params.get("Context1") != Some(&orig.message) || params.get("TaskName") != Some(&orig.task) {
                                    res.violation(&format!("event-text-changed:{}", orig.task), &format!("event {id}: uploaded text {:?} differs from the stored text {:?}", params.get("Context1").map(|s| s.chars().take(60).collect::<String>()), orig.message.chars().take(60).collect::<String>()), desc.clone());
                                }
                                let want_version = orig.version.clone().unwrap_or("1.0.0".into());
                                let want_ts = orig.timestamp.clone().unwrap_or("2026-01-01T00:00:00.000Z".into());
                                let want_level = orig.level.clone().unwrap_or("Info".into());
                                for (pname, want) in [("GAVersion", &want_version), ("OpcodeName", &want_ts), ("Context2", &want_ts), ("CapabilityUsed", &want_level)] {
                                    if params.get(pname) != Some(want) {
                                        res.violation(&format!("event-text-changed:{pname}"), &format!("event {id}: uploaded {pname} {:?} differs from the stored text {:?}", params.get(pname).map(|s| s.chars().take(60).collect::<String>()), want.chars().take(60).collect::<String>()), desc.clone());
                                    }
                                }
                                if params.len() != 23 {
                                    res.violation("event-param-count", &format!("event {id} has {} params (expected 23): injected or missing fields", params.len()), desc.clone());
                                }
                                occurs.entry(id.clone()).or_default().insert(digest);
                                let _ = &mut seen_body_ok;
                                if (200..300).contains(status) || *status == 1200 {
                                    *accepted.entry(id).or_insert(0) += 1;
                                }
                            }
                        }
                    }
                }
            }
        }
        for (id, bodies) in &occurs {
            if bodies.len() > 1 {
                res.violation("event-in-more-than-one-batch", &format!("event {id} was uploaded in {} different batches", bodies.len()), desc.clone());
            }
        }
        for (id, n) in &accepted {
            if *n > 1 {
                res.violation("event-accepted-twice", &format!("event {id} was in {n} batches that the host answered with 2xx"), desc.clone());
            }
        }
        for e in &all {
            if e.oversize && occurs.contains_key(&e.id) {
                res.violation("oversize-event-uploaded", &format!("event {} cannot fit any batch but was uploaded", e.id), desc.clone());
            }
            // without upload failures every event that fits must arrive: an oversize neighbour must not block it
            if !e.oversize && answers.is_empty() && !occurs.contains_key(&e.id) {
                res.violation("event-lost-without-upload-failure", &format!("event {} ({} message bytes) was never uploaded although the host accepted every batch", e.id, e.message.len()), desc.clone());
            }
        }
        if evals <= 2 {
            res.sample(json!({"case": desc, "batches": out.posts.len(), "batch_sizes": out.posts.iter().map(|p| p.0.len()).collect::<Vec<_>>()}));
        }
    }
    let _ = std::fs::remove_dir_all(&dir);
    res.cov("evaluations", evals);
    res.cov("distinct_nontrivial", nontrivial.len() as u64);
    res.cov("batches_parsed", bodies_total);
    res.cov("measured_envelope_bytes", envelope as u64);
    res.cov("measured_bytes_per_empty_event", per_event as u64);
    res.cov("exhaustive", hung == 0);
    res.cov("rule", format!("event files x {{1,2}} files x event counts x 10 content classes (markup, CDATA terminators, nested CDATA, 2/3/4-byte UTF-8, attribute-injection text, ...) in the message, and the same classes in the version / time stamp / level fields of a stored event; batches of 1-3 events whose rendered size is exactly limit-2..limit+1 (envelope measured: {envelope} + {per_event} per event), with and without small events behind; one event above the limit first/middle/last, also made of 2-/3-/4-byte characters at every alignment; files without events; every upload answer pattern of length <= {maxp} over {{200, 500}} plus connection resets and accepting answers (200) whose body is cut short, and other accepting statuses (201, 202, 204), and throttling answers (503 / 429) that carry a Retry-After header of 4294967295 seconds or a date in the year 9999; each run = one cycle of the real EventReader on a paused clock; bodies parsed with xml-rs (document, then each CDATA payload)"));
    res.assume("event text is free of control characters (as the statement restricts)");
    res.assume("goal state / shared config / instance documents served by the mock are the samples embedded in the repository's own unit tests");
    std::process::exit(res.finish());
}
