//! C19: disk usage by rolling logs, event files and rule dumps stays within configured bounds.
//! Explicit-state search over write histories on the real RollingLogger (from several initial
//! directory states, with restarts), tick/burst histories on the real event logger (paused
//! clock), and write_all histories for the rule dumps.

use gpa_harness::proxy::authorization_rules::{AuthorizationRulesForLogging, ComputedAuthorizationRules};
use proxy_agent_shared::logger::rolling_logger::RollingLogger;
use proxy_agent_shared::telemetry::event_logger;
use serde_json::json;
use std::collections::{HashSet, VecDeque};
use std::path::{Path, PathBuf};
use std::time::Duration;
use vcommon::result::{is_thorough, EngineResult};

const S: u64 = 100;
const N: u16 = 3;
const NAME: &str = "vt.log";

#[derive(Clone, Copy, Debug, PartialEq, Eq, Hash)]
enum Op {
    Write(usize),     // message length
    WriteMany(usize), // two lines of this length
    Restart,
}

fn list(dir: &Path, prefix: &str) -> Vec<(String, u64)> {
    let mut v: Vec<(String, u64)> = std::fs::read_dir(dir)
        .map(|rd| rd.filter_map(|e| e.ok()).filter(|e| e.file_name().to_string_lossy().starts_with(prefix)).map(|e| (e.file_name().to_string_lossy().to_string(), e.metadata().map(|m| m.len()).unwrap_or(0))).collect())
        .unwrap_or_default();
    v.sort();
    v
}

fn fresh_dir(base: &Path, tag: &str) -> PathBuf {
    let d = base.join(tag);
    let _ = std::fs::remove_dir_all(&d);
    std::fs::create_dir_all(&d).unwrap();
    d
}

/// initial directory states left by "earlier runs with the same settings" (+ foreign files)
fn init_dir(d: &Path, kind: usize) {
    let write = |name: &str, len: usize| std::fs::write(d.join(name), vec![b'x'; len]).unwrap();
    match kind {
        0 => {}
        1 => {
            // at the count limit, current file almost full
            write("vt.log.2020-01-01T00.00.00.000-1.log", 100);
            write("vt.log.2020-01-01T00.00.01.000-2.log", 120);
            write("vt.log", 99);
        }
        2 => {
            // current file exactly at / above the size limit (a previous run's last write)
            write("vt.log", 130);
        }
        3 => {
            // foreign files and a sibling logger's files
            write("other.txt", 500);
            write("vt.Connection.log", 400);
            write("vt.log.2020-01-01T00.00.00.000-1.log", 100);
            write("vt.log", 50);
        }
        5 | 6 => {
            // an earlier run died between renaming the full file and pruning (or the listing failed once): one / three
            // archives more than the configured count, current file almost full
            for i in 0..(N as usize + if kind == 5 { 0 } else { 2 }) {
                write(&format!("vt.log.2020-01-01T00.00.{:02}.000-{}.log", i, i + 1), 100);
            }
            write("vt.log", 99);
        }
        _ => {
            // current file present but empty, two archives
            write("vt.log.2020-01-01T00.00.00.000-1.log", 100);
            write("vt.log.2020-01-01T00.00.01.000-2.log", 100);
            write("vt.log", 0);
        }
    }
}

fn apply(logger: &mut RollingLogger, d: &Path, op: Op) -> u64 {
    match op {
        Op::Write(n) => {
            let _ = logger.write(log::Level::Info, "m".repeat(n));
            (34 + n + 1) as u64
        }
        Op::WriteMany(n) => {
            let _ = logger.write_many(vec!["a".repeat(n), "b".repeat(n)]);
            (2 * (n + 1)) as u64
        }
        Op::Restart => {
            *logger = RollingLogger::create_new(d.to_path_buf(), NAME.to_string(), S, N);
            0
        }
    }
}

fn run_history(base: &Path, kind: usize, hist: &[Op]) -> (Vec<String>, String) {
    // returns problems of the LAST step and the canonical state after it
    let d = fresh_dir(base, "rl");
    init_dir(&d, kind);
    let mut logger = RollingLogger::create_new(d.clone(), NAME.to_string(), S, N);
    let mut problems = Vec::new();
    let foreign_before: Vec<(String, u64)> = list(&d, "").into_iter().filter(|f| !f.0.starts_with(NAME)).collect();
    for (i, op) in hist.iter().enumerate() {
        let before = list(&d, NAME);
        let w = apply(&mut logger, &d, *op);
        let after = list(&d, NAME);
        if i + 1 == hist.len() {
            // more files than configured: never after a roll (a new archive appeared: the prune step ran), never more than
            // before (files left over by an interrupted earlier run are removed at the next roll)
            let rolled = after.iter().any(|f| f.0 != NAME && !before.iter().any(|b| b.0 == f.0));
            if after.len() > N as usize && (rolled || after.len() > before.len()) {
                problems.push(format!("count: {} files match the log name after the operation (configured count {}): {:?}", after.len(), N, after.iter().map(|f| &f.0).collect::<Vec<_>>()));
            }
            if let Some(cur) = after.iter().find(|f| f.0 == NAME) {
                let allowed = (S - 1) + w;
                let had = before.iter().find(|f| f.0 == NAME).map(|f| f.1).unwrap_or(0);
                if cur.1 > allowed && cur.1 > had {
                    problems.push(format!("size: current file is {} bytes after a write of {} bytes; limit {} (+ one write)", cur.1, w, S));
                }
            }
            // archived files never grow and the oldest go first
            if after.len() >= before.len() {
                // nothing to check
            }
            let before_arch: Vec<&String> = before.iter().filter(|f| f.0 != NAME).map(|f| &f.0).collect();
            let after_arch: Vec<&String> = after.iter().filter(|f| f.0 != NAME).map(|f| &f.0).collect();
            let removed: Vec<&&String> = before_arch.iter().filter(|f| !after_arch.contains(f)).collect();
            if let (Some(newest_removed), Some(oldest_kept)) = (removed.iter().max(), after_arch.iter().filter(|f| before_arch.contains(f)).min()) {
                if **newest_removed > *oldest_kept {
                    problems.push(format!("order: archive {} was removed while the older {} was kept", newest_removed, oldest_kept));
                }
            }
            let foreign_after: Vec<(String, u64)> = list(&d, "").into_iter().filter(|f| !f.0.starts_with(NAME)).collect();
            if foreign_after != foreign_before {
                problems.push("foreign: files that do not belong to this log were changed".to_string());
            }
        }
    }
    let fin = list(&d, NAME);
    let cur = fin.iter().find(|f| f.0 == NAME).map(|f| f.1);
    let canon = format!("n={} cur={:?} sizes={:?}", fin.len(), cur.map(|c| if c == 0 { 0 } else if c < S { 1 } else { 2 }), fin.iter().filter(|f| f.0 != NAME).map(|f| f.1.min(2 * S)).collect::<Vec<_>>().len());
    (problems, canon)
}

/// one life of the event logger in its own process (its queue and stop flag are process-wide and one-shot): bursts on
/// ticks, then a last burst and `stop()` while those events are still queued; prints the file count after every step
fn event_logger_life() -> ! {
    proxy_agent_shared::logger::logger_manager::set_logger_level(proxy_agent_shared::logger::LoggerLevel::Error);
    let spec: serde_json::Value = serde_json::from_str(&std::env::var("VERIF_C19_EVCHILD").unwrap()).unwrap();
    let dir = PathBuf::from(spec["dir"].as_str().unwrap());
    let cap = spec["cap"].as_u64().unwrap() as usize;
    let bursts: Vec<usize> = spec["bursts"].as_array().unwrap().iter().map(|b| b.as_u64().unwrap() as usize).collect();
    let last = spec["last_burst"].as_u64().unwrap() as usize;
    let rt = tokio::runtime::Builder::new_current_thread().enable_all().start_paused(true).build().unwrap();
    let counts: Vec<usize> = rt.block_on(async {
        let d = dir.clone();
        let h = tokio::spawn(async move {
            event_logger::start(d, Duration::from_secs(1), cap, |_s: String| async {}).await;
        });
        tokio::time::sleep(Duration::from_millis(10)).await;
        let mut counts = vec![list(&dir, "").len()];
        for b in bursts {
            for k in 0..b {
                event_logger::write_event(if k % 3 == 0 { log::Level::Error } else if k % 5 == 0 { log::Level::Warn } else { log::Level::Info }, format!("e{k}"), "m", "mod", "none");
            }
            tokio::time::sleep(Duration::from_millis(1001)).await;
            tokio::task::yield_now().await;
            counts.push(list(&dir, "").len());
        }
        for k in 0..last {
            event_logger::write_event(if k % 2 == 0 { log::Level::Error } else { log::Level::Info }, format!("last{k}"), "m", "mod", "none");
        }
        event_logger::stop();
        let _ = tokio::time::timeout(Duration::from_secs(30), h).await;
        counts.push(list(&dir, "").len());
        counts
    });
    println!("{}", serde_json::to_string(&counts).unwrap());
    std::process::exit(0)
}

/// one `write_all` of the rule dumps in its own process (killed by the parent at chosen system calls)
fn dump_writer_life() -> ! {
    proxy_agent_shared::logger::logger_manager::set_logger_level(proxy_agent_shared::logger::LoggerLevel::Error);
    let spec: serde_json::Value = serde_json::from_str(&std::env::var("VERIF_C19_DUMPCHILD").unwrap()).unwrap();
    let dir = PathBuf::from(spec["dir"].as_str().unwrap());
    let max = spec["max"].as_u64().unwrap() as usize;
    let dumps = AuthorizationRulesForLogging::new(None, ComputedAuthorizationRules { imds: None, wireserver: None, hostga: None });
    dumps.write_all(&dir, max);
    std::process::exit(0)
}

fn main() {
    if std::env::var("VERIF_C19_EVCHILD").is_ok() {
        event_logger_life();
    }
    if std::env::var("VERIF_C19_DUMPCHILD").is_ok() {
        dump_writer_life();
    }
    proxy_agent_shared::logger::logger_manager::set_logger_level(proxy_agent_shared::logger::LoggerLevel::Error);
    let thorough = is_thorough();
    let mut res = EngineResult::new("C19");
    let base = PathBuf::from(std::env::var("VERIF_TARGET").unwrap_or("/verif/target".into())).join(format!("run/c19-{}", std::process::id()));
    let _ = std::fs::remove_dir_all(&base);
    std::fs::create_dir_all(&base).unwrap();

    // ---------------- A. rolling logger: BFS over histories ----------------
    let ops: Vec<Op> = vec![Op::Write(1), Op::Write(S as usize - 35 - 1), Op::Write(S as usize), Op::Write(3 * S as usize), Op::WriteMany(10), Op::WriteMany(S as usize), Op::Restart];
    let depth = if thorough { 7 } else { 5 };
    let mut states = 0u64;
    let mut transitions = 0u64;
    let mut traces = 0u64;
    for kind in 0..7 {
        let mut seen: HashSet<String> = HashSet::new();
        let mut frontier: VecDeque<Vec<Op>> = VecDeque::new();
        frontier.push_back(vec![]);
        while let Some(h) = frontier.pop_front() {
            if h.len() >= depth {
                continue;
            }
            for op in &ops {
                let mut h2 = h.clone();
                h2.push(*op);
                let (problems, canon) = run_history(&base, kind, &h2);
                transitions += 1;
                traces += 1;
                for p in problems {
                    let sig = format!("rolling-log:{}", p.split(':').next().unwrap());
                    res.violation(&sig, &p, json!({"initial_dir": kind, "history": h2.iter().map(|o| format!("{:?}", o)).collect::<Vec<_>>(), "size_limit": S, "count_limit": N}));
                }
                // the last two ops matter for what the next op sees (restart, size class)
                let key = format!("{canon}|last={:?}", op);
                if seen.insert(key) {
                    if traces < 3 {
                        res.sample(json!({"rolling_log_history": h2.iter().map(|o| format!("{:?}", o)).collect::<Vec<_>>(), "initial_dir": kind, "state": canon}));
                    }
                    frontier.push_back(h2);
                }
            }
        }
        states += seen.len() as u64;
    }

    // ---------------- A2. a log whose archive name cannot be created (the roll's rename fails while appending still works)
    {
        let d = fresh_dir(&base, "rl-long");
        for name_len in [200usize, 225, 240] {
            let name = format!("{}.log", "n".repeat(name_len));
            let _ = std::fs::remove_file(d.join(&name));
            let logger = RollingLogger::create_new(d.clone(), name.clone(), S, N);
            let mut largest = 0u64;
            for i in 0..12 {
                let n = [1usize, S as usize / 2, S as usize][i % 3];
                let _ = logger.write(log::Level::Info, "m".repeat(n));
                largest = largest.max((34 + n + 1) as u64);
                transitions += 1;
                let size = std::fs::metadata(d.join(&name)).map(|m| m.len()).unwrap_or(0);
                if size > (S - 1) + largest {
                    res.violation("rolling-log:size:roll-cannot-rename", &format!("a log named with {name_len} characters (its archive name may exceed NAME_MAX) is {size} bytes after write {}; limit {S} + one write of at most {largest}", i + 1), json!({"family": "long-log-name", "name_length": name_len, "write": i + 1}));
                    break;
                }
            }
            traces += 1;
        }
    }

    // ---------------- B. event logger: bursts x ticks on a paused clock ----------------
    let ev_dir = fresh_dir(&base, "events");
    let cap = 3usize;
    let rt = tokio::runtime::Builder::new_current_thread().enable_all().start_paused(true).build().unwrap();
    let mut ev_hist = 0u64;
    rt.block_on(async {
        let d = ev_dir.clone();
        tokio::spawn(async move {
            event_logger::start(d, Duration::from_secs(1), cap, |_s: String| async {}).await;
        });
        tokio::time::sleep(Duration::from_millis(10)).await;
        // pre-filled directory kinds x burst sequences
        let prefill: Vec<Vec<&str>> = vec![vec![], vec!["1.json"], vec!["1.json", "2.json"], vec!["1.json", "2.json", "3.json"], vec!["1.json", "2.tmp"], vec!["1.json", "2.tmp", "3.tmp"], vec!["1.json", "2.json", "leftover.tmp"], vec!["a.tmp", "b.tmp", "c.tmp", "d.tmp"]];
        // small bursts around the file cap, and bursts far above what one file used to take (the queue holds 1000 events)
        let bursts: Vec<usize> = if thorough { vec![0usize, 1, cap - 1, cap, cap + 1, 101, 650, 1001] } else { vec![0usize, 1, cap, cap + 1, 250, 1001] };
        let nt = if thorough { 4 } else { 3 };
        for pf in &prefill {
            for seq in vcommon::explore::sequences(bursts.len(), nt) {
                for f in std::fs::read_dir(&ev_dir).unwrap().flatten() {
                    let _ = std::fs::remove_file(f.path());
                }
                for f in pf {
                    std::fs::write(ev_dir.join(f), b"[]").unwrap();
                }
                ev_hist += 1;
                let start_count = pf.len();
                for (ti, bi) in seq.iter().enumerate() {
                    let before = list(&ev_dir, "").len();
                    for k in 0..bursts[*bi] {
                        event_logger::write_event(if k % 3 == 0 { log::Level::Error } else if k % 5 == 0 { log::Level::Warn } else { log::Level::Info }, format!("e{k}"), "m", "mod", "none");
                    }
                    tokio::time::sleep(Duration::from_millis(1001)).await;
                    tokio::task::yield_now().await;
                    let after = list(&ev_dir, "");
                    transitions += 1;
                    if after.len() > cap.max(start_count) || (before >= cap && after.len() > before) {
                        res.violation(
                            "event-dir:more-files-than-cap",
                            &format!("after tick {} the event directory holds {} files (cap {}): {:?}", ti + 1, after.len(), cap, after.iter().map(|f| &f.0).collect::<Vec<_>>()),
                            json!({"prefilled": pf, "bursts": seq.iter().map(|b| bursts[*b]).collect::<Vec<_>>(), "cap": cap}),
                        );
                        break;
                    }
                    if before < cap && bursts[*bi] > 0 && after.len() <= before {
                        // (how many files a burst becomes is the implementation's business as long as the cap holds)
                        res.violation(
                            "event-dir:events-not-written-below-cap",
                            &format!("tick {}: {} events queued with {} files present (cap {}) but the directory now holds {}", ti + 1, bursts[*bi], before, cap, after.len()),
                            json!({"prefilled": pf, "bursts": seq.iter().map(|b| bursts[*b]).collect::<Vec<_>>(), "cap": cap}),
                        );
                        break;
                    }
                }
            }
        }
    });
    traces += ev_hist;

    // ---------------- B2. event logger lives: each life is a process (start, bursts on ticks, a last burst, stop while
    // those events are queued); up to three lives in a row on the same directory ("restarts that find the files left
    // by earlier runs")
    let mut ev_lives = 0u64;
    {
        let d = fresh_dir(&base, "events-lives");
        let exe = std::env::current_exe().unwrap();
        let prefill: Vec<Vec<&str>> = vec![vec![], vec!["1.json", "2.json"], vec!["1.json", "2.json", "3.json"], vec!["1.json", "2.tmp", "3.tmp"]];
        let lives: Vec<(Vec<usize>, usize)> = vec![(vec![], 0), (vec![], 1), (vec![], 250), (vec![1], 1), (vec![1, 1], 1), (vec![1, 1, 1], 1001), (vec![0], 5)];
        let chain = if thorough { 3 } else { 2 };
        for pf in &prefill {
            for seq in vcommon::explore::sequences(lives.len(), chain) {
                for f in std::fs::read_dir(&d).unwrap().flatten() {
                    let _ = std::fs::remove_file(f.path());
                }
                for f in pf {
                    std::fs::write(d.join(f), b"[]").unwrap();
                }
                let start_count = pf.len();
                'chain: for (li, lix) in seq.iter().enumerate() {
                    let (bursts, last) = &lives[*lix];
                    let spec = json!({"dir": d.to_string_lossy(), "cap": cap, "bursts": bursts, "last_burst": last});
                    let o = std::process::Command::new(&exe).env("VERIF_C19_EVCHILD", spec.to_string()).output().unwrap_or_else(|e| vcommon::result::machinery(&format!("spawn event logger life: {e}")));
                    ev_lives += 1;
                    transitions += bursts.len() as u64 + 1;
                    let counts: Vec<usize> = match serde_json::from_slice(o.stdout.split(|b| *b == b'\n').rev().find(|l| l.starts_with(b"[")).unwrap_or(b"")) {
                        Ok(c) => c,
                        Err(_) => vcommon::result::machinery(&format!("event logger life gave no counts (exit {:?}): {}", o.status.code(), String::from_utf8_lossy(&o.stderr))),
                    };
                    for w in counts.windows(2) {
                        if w[1] > cap.max(start_count) || (w[0] >= cap && w[1] > w[0]) {
                            res.violation(
                                "event-dir:more-files-than-cap:across-stop",
                                &format!("life {} of the event logger (bursts {:?}, then {} events queued at stop): the event directory went from {} to {} files (cap {}); counts after each step {:?}", li + 1, bursts, last, w[0], w[1], cap, counts),
                                json!({"family": "event-logger-lives", "prefilled": pf, "lives": seq.iter().map(|i| json!({"bursts": lives[*i].0, "queued_at_stop": lives[*i].1})).collect::<Vec<_>>(), "cap": cap}),
                            );
                            break 'chain;
                        }
                    }
                }
            }
        }
    }
    traces += ev_lives;
    res.cov("event_logger_lives", ev_lives);

    // ---------------- C. rule dumps ----------------
    let max = 5usize;
    let dumps = AuthorizationRulesForLogging::new(None, ComputedAuthorizationRules { imds: None, wireserver: None, hostga: None });
    let mut dump_hist = 0u64;
    for pre in [0usize, max - 1, max, max + 3] {
        let d = fresh_dir(&base, "dumps");
        for i in 0..pre {
            std::fs::write(d.join(format!("AuthorizationRules_2020-01-0{}T00.00.00.000-{}.json", i + 1, i)), b"{}").unwrap();
        }
        std::fs::write(d.join("unrelated.json"), b"{}").unwrap();
        dump_hist += 1;
        let mut prev = list(&d, "AuthorizationRules_");
        for k in 1..=(2 * max + 1) {
            dumps.write_all(&d, max);
            transitions += 1;
            let now = list(&d, "AuthorizationRules_");
            let case = json!({"prefilled": pre, "write_all_calls": k, "max": max});
            if now.len() > max.max(prev.len().min(max)) && !(pre > max && now.len() <= prev.len()) {
                res.violation("rule-dumps:more-than-max", &format!("{} rule dumps kept (max {})", now.len(), max), case.clone());
            }
            let removed: Vec<&String> = prev.iter().map(|f| &f.0).filter(|f| !now.iter().any(|n| &n.0 == *f)).collect();
            let kept_old: Vec<&String> = prev.iter().map(|f| &f.0).filter(|f| now.iter().any(|n| &n.0 == *f)).collect();
            if let (Some(nr), Some(ok)) = (removed.iter().max(), kept_old.iter().min()) {
                if nr > ok {
                    res.violation("rule-dumps:newer-removed-before-older", &format!("dump {} removed while the older {} was kept", nr, ok), case.clone());
                }
            }
            if now.len() == prev.len() && removed.is_empty() {
                res.violation("rule-dumps:not-written", "write_all left the directory unchanged", case.clone());
            }
            if !d.join("unrelated.json").exists() {
                res.violation("rule-dumps:foreign-file-removed", "a file that is not a rule dump was removed", case);
            }
            prev = now;
            std::thread::sleep(Duration::from_millis(2));
        }
    }
    // the log folder holds an entry that cannot be stat-ed (a dangling symbolic link, e.g. left by a log shipper): whatever
    // the listing of old dumps makes of it, the number of dumps stays within the bound
    for pre in [0usize, max] {
        let d = fresh_dir(&base, "dumps-dangling");
        for i in 0..pre {
            std::fs::write(d.join(format!("AuthorizationRules_2020-01-0{}T00.00.00.000-{}.json", i + 1, i)), b"{}").unwrap();
        }
        std::os::unix::fs::symlink(d.join("no-such-target"), d.join("AuthorizationRules_dangling.json")).unwrap();
        std::os::unix::fs::symlink(d.join("no-such-target"), d.join("zz-dangling")).unwrap();
        dump_hist += 1;
        for k in 1..=(2 * max + 1) {
            dumps.write_all(&d, max);
            transitions += 1;
            let now: Vec<_> = list(&d, "AuthorizationRules_").into_iter().filter(|f| f.0 != "AuthorizationRules_dangling.json").collect();
            if now.len() > max {
                res.violation("rule-dumps:more-than-max:unlistable-entry", &format!("{} rule dumps kept (max {}) in a folder that holds a dangling symbolic link", now.len(), max), json!({"family": "dumps-with-dangling-symlink", "prefilled": pre, "write_all_calls": k, "max": max}));
                break;
            }
            std::thread::sleep(Duration::from_millis(2));
        }
    }
    // the agent dies in the middle of a rule-dump rotation (SIGKILL on entry of the k-th unlink / rename / open of the
    // writer, every k): what the next run finds is within the bound too
    let mut dump_kills = 0u64;
    if std::process::Command::new("strace").arg("-V").output().is_ok() {
        let exe = std::env::current_exe().unwrap();
        for pre in [max - 1, max] {
            for (call, upto) in [("unlink,unlinkat", 3u32), ("rename,renameat,renameat2", 2)] {
                for k in 1..=upto {
                    let d = fresh_dir(&base, "dumps-kill");
                    for i in 0..pre {
                        std::fs::write(d.join(format!("AuthorizationRules_2020-01-0{}T00.00.00.000-{}.json", i + 1, i)), b"{}").unwrap();
                    }
                    let spec = json!({"dir": d.to_string_lossy(), "max": max});
                    let st = std::process::Command::new("strace")
                        .args(["-f", "-qq", "-o", "/dev/null", "-e", &format!("trace={call}"), "-e", &format!("inject={call}:signal=SIGKILL:when={k}")])
                        .arg(&exe)
                        .env("VERIF_C19_DUMPCHILD", spec.to_string())
                        .stdout(std::process::Stdio::null())
                        .stderr(std::process::Stdio::null())
                        .status();
                    if st.is_err() {
                        vcommon::result::machinery("cannot run the dump writer under strace");
                    }
                    dump_kills += 1;
                    transitions += 1;
                    let now = list(&d, "AuthorizationRules_").into_iter().filter(|f| f.0.ends_with(".json")).count();
                    if now > max {
                        res.violation("rule-dumps:more-than-max:after-a-kill", &format!("{now} rule dumps (max {max}) are on disk after the writer was killed at its {k}. {call} call ({pre} dumps before)"), json!({"family": "dump-writer-killed", "prefilled": pre, "kill_at": format!("{call}#{k}"), "max": max}));
                    }
                }
            }
        }
    } else {
        vcommon::result::machinery("strace is not available");
    }
    res.cov("dump_writer_kill_points", dump_kills);
    traces += dump_hist;
    let _ = std::fs::remove_dir_all(&base);

    res.cov("states", states);
    res.cov("transitions", transitions);
    res.cov("traces_validated_against_impl", traces);
    res.cov("rolling_log_depth", depth as u64);
    res.cov("event_logger_histories", ev_hist);
    res.cov("rule_dump_histories", dump_hist);
    res.cov("exhaustive", true);
    res.cov("rule", format!("rolling logger (size {S}, count {N}): BFS to depth {depth} over write(1 | fills to just below the limit | {S} | {}), write_many(2 x 10 | 2 x {S}), restart from 7 initial directories (empty; at the count limit with an almost full current file; current file above the size limit; foreign + sibling-logger files; empty current file; one and three archives more than the count, as an interrupted earlier run leaves them), plus logs whose name is so long that the archive name cannot be created (the roll's rename fails), dedup on (file count, current size class, last op); event logger (cap {cap}, paused clock): every sequence of 3 (4) ticks with bursts of 0/1/cap-1/cap/cap+1/101/650/1001 (quick: 0/1/cap/cap+1/250/1001) events from 8 pre-filled directories incl. leftover .tmp files; event logger lives (one process each: start, bursts on ticks, a last burst of 0/1/5/250/1001 events queued when stop() is called): every chain of 2 (3) lives out of 7 on one directory, from 4 pre-filled directories; rule dumps (max {max}): 2*max+1 write_all calls from directories with 0, max-1, max, max+3 dumps, and from directories with 0 / max dumps that also hold dangling symbolic links, plus the writer process killed (SIGKILL by strace) on entry of each of its unlink / rename calls; the dump writer killed at every unlink / rename", 3 * S));
    res.assume("initial directories above the configured count are outside the quantifier (earlier runs with the same settings never leave them); for those only non-increase is demanded");
    std::process::exit(res.finish());
}
