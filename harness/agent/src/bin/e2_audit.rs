//! C11: enforce blocks, audit forwards and records, every denial is recorded exactly once.
//! Exploration of request histories on the real proxy; after every step the published
//! failed-authorization summary (public getter, and status.json written by the real
//! ProxyAgentStatusTask) is compared with a reference multiset.

use gpa_harness::proxy_agent_status::ProxyAgentStatusTask;
use gpa_harness::verif::policy::Policy;
use gpa_harness::verif::world::{self, AuditRec, World, WorldOpts, HOSTGA, IMDS, WS};
use serde_json::{json, Value};
use std::collections::{BTreeMap, BTreeSet};
use std::sync::Arc;
use std::time::Duration;
use vcommon::rawhttp::{build_request, simple_response, Action, Client, Msg};
use vcommon::result::{is_thorough, EngineResult};

#[derive(Clone, Debug)]
struct Caller {
    label: &'static str,
    user: &'static str,
    uid: u32,
    is_root: bool,
    exe: &'static str,
    arg: &'static str,
    pid: u32,
    dest: &'static str,
}

#[derive(Clone, Copy, Debug, PartialEq, Eq, Hash, PartialOrd, Ord)]
struct ReqKind {
    caller: usize,
    url: usize,
    host_fails: bool,
}

const URLS: [&str; 3] = ["/a/x", "/deny/x", "/other"];

type Summary = BTreeMap<(String, String, String, String, u16), u64>;

fn policy(mode: &'static str, default_allow: bool) -> Policy {
    Policy::simple("p", mode, default_allow).with(&["/a", "/deny"], &[(0, "alice"), (0, "root")])
}

struct Outcome {
    status: Result<u16, String>,
    upstream: Vec<(String, String, Vec<u8>, Vec<(String, Vec<u8>)>)>, // method, target, body, headers (minus volatile)
    bytes: usize,
}

fn stable_headers(m: &Msg) -> Vec<(String, Vec<u8>)> {
    m.headers
        .iter()
        .filter(|(n, _)| {
            let l = n.to_lowercase();
            l != "x-ms-azure-host-date" && l != "x-ms-azure-host-authorization"
        })
        .map(|(n, v)| (n.to_lowercase(), v.clone()))
        .collect()
}

/// status with which the host answers a relayed request when it answers at all
static HOST_STATUS: std::sync::atomic::AtomicU16 = std::sync::atomic::AtomicU16::new(200);

fn do_request(w: &World, callers: &[Caller], k: ReqKind, sport: u16, conn: Option<&mut Client>) -> Outcome {
    let c = &callers[k.caller];
    let hi = if c.dest == WS { 0 } else if c.dest == HOSTGA { 1 } else { 2 };
    let host = w.hosts.all()[hi];
    if k.host_fails {
        host.set_responder(Arc::new(|_m: &Msg, _c, _i| Action::Reset));
    } else {
        host.set_responder(Arc::new(|_m: &Msg, _c, _i| Action::Reply(vec![simple_response(HOST_STATUS.load(std::sync::atomic::Ordering::SeqCst), &[], b"ok")])));
    }
    let cur = host.cursor();
    let raw = build_request("POST", URLS[k.url], &[("Host", b"h"), ("Metadata", b"true"), ("X-Req", b"1")], Some(b"body"), None);
    let status = match conn {
        Some(cl) => cl.send(&raw).map_err(|e| e.to_string()).and_then(|_| cl.read_response(false, Duration::from_secs(10)).map(|m| m.status())),
        None => {
            let rec = AuditRec::to(c.dest, c.uid, c.pid, c.is_root);
            match w.connect(Some(sport), Some(&rec)) {
                Ok(mut cl) => {
                    let r = cl.send(&raw).map_err(|e| e.to_string()).and_then(|_| cl.read_response(false, Duration::from_secs(10)).map(|m| m.status()));
                    cl.close();
                    r
                }
                Err(e) => Err(format!("connect: {e}")),
            }
        }
    };
    let upstream = host.requests_since(cur).into_iter().map(|(_, m)| (m.method().to_string(), m.target().to_string(), m.body.clone(), stable_headers(&m))).collect();
    Outcome { status, upstream, bytes: host.bytes_since(cur) }
}

fn read_summary(w: &World) -> Summary {
    let st = w.shared.get_agent_status_shared_state();
    let v = w.rt.block_on(async { st.get_all_failed_connection_summary().await.unwrap() });
    let mut s = Summary::new();
    for e in v {
        *s.entry((e.userName.clone(), e.processFullPath.clone().unwrap_or_default(), e.processCmdLine.clone(), e.ip.clone(), e.port)).or_insert(0) += e.count;
    }
    s
}

fn read_status_json(path: &std::path::Path) -> Option<Summary> {
    let txt = std::fs::read_to_string(path).ok()?;
    let v: Value = serde_json::from_str(&txt).ok()?;
    let mut s = Summary::new();
    for e in v["failedAuthenticateSummary"].as_array()? {
        *s.entry((
            e["userName"].as_str()?.to_string(),
            e["processFullPath"].as_str().unwrap_or("").to_string(),
            e["processCmdLine"].as_str()?.to_string(),
            e["ip"].as_str()?.to_string(),
            e["port"].as_u64()? as u16,
        ))
        .or_insert(0) += e["count"].as_u64()?;
    }
    Some(s)
}

fn main() {
    world::install_panic_recorder();
    let thorough = is_thorough();
    // one worker process per mode/default configuration, each with its own world in nested namespaces
    let me = vcommon::result::worker();
    if me.is_none() && std::env::var("VERIF_REPLAY").is_err() && std::env::var("VERIF_NO_SHARD").is_err() {
        let mut res = EngineResult::new("C11");
        // (a seventh worker runs the daily-clear family; monotonic time is owned through the clock shim there)
        let so = vcommon::clockshim::build(&format!("{}/run", std::env::var("VERIF_TARGET").unwrap_or("/verif/target".into())));
        vcommon::result::run_workers(&mut res, 7, &format!("ip addr add 168.63.129.16/32 dev lo; ip addr add 169.254.169.254/32 dev lo; mount -t tmpfs tmpfs /var/lib/azure-proxy-agent; mount -t tmpfs tmpfs /var/log/azure-proxy-agent; mkdir -p /var/log/azure-proxy-agent/events; export LD_PRELOAD={so}; export VERIF_CLOCKSHIM={so};"));
        let _ = std::fs::remove_file(&so);
        res.cov("workers", 7u64);
        std::process::exit(res.finish());
    }
    let (wi, wn) = me.unwrap_or((0, 1));
    let daily_clear_worker = wn == 7 && wi == 6;
    let w = World::start(WorldOpts::default());
    let mut res = EngineResult::new("C11");
    let mut callers = vec![
        Caller { label: "alice", user: "alice", uid: 1001, is_root: false, exe: "/usr/bin/vt-curl", arg: "100111", pid: 0, dest: IMDS },
        Caller { label: "bob", user: "bob", uid: 1002, is_root: false, exe: "/usr/bin/vt-wget", arg: "100222", pid: 0, dest: IMDS },
        Caller { label: "root-waagent", user: "root", uid: 0, is_root: true, exe: "/usr/bin/vt-waagent", arg: "100333", pid: 0, dest: WS },
        Caller { label: "root-ext", user: "root", uid: 0, is_root: true, exe: "/usr/bin/vt-ext", arg: "100444", pid: 0, dest: WS },
        // the same process as root-waagent, talking to the HostGAPlugin endpoint (same IP, other port)
        Caller { label: "root-waagent@hostga", user: "root", uid: 0, is_root: true, exe: "/usr/bin/vt-waagent", arg: "100333", pid: 0, dest: HOSTGA },
    ];
    for i in 0..callers.len() {
        if callers[i].dest == HOSTGA {
            callers[i].pid = callers[2].pid;
            continue;
        }
        let c = &mut callers[i];
        c.pid = w.spawn_proc(c.exe, &[c.arg], if c.uid == 0 { None } else { Some(c.uid) });
    }
    // the real status task, fast interval, into a private directory
    let status_dir = std::path::PathBuf::from("/var/log/azure-proxy-agent/vt-status");
    let _ = std::fs::create_dir_all(&status_dir);
    {
        let task = ProxyAgentStatusTask::new(Duration::from_millis(if daily_clear_worker { 300 } else { 2 }), status_dir.clone(), w.shared.get_cancellation_token(), w.shared.get_key_keeper_shared_state(), w.shared.get_agent_status_shared_state());
        w.rt.spawn(async move { task.start().await });
    }
    let status_file = status_dir.join("status.json");
    if daily_clear_worker {
        // the summaries are cleared once a day: a denial recorded shortly before that pass is still published (the status
        // task of this worker runs every 300 ms; 24 h of monotonic time pass at once right after the denial)
        w.set_rules(IMDS, policy("enforce", false).to_item());
        let st_shared = w.shared.get_agent_status_shared_state();
        let alice = &callers[0];
        let key = (alice.user.to_string(), alice.exe.to_string(), format!("{} {}", alice.exe, alice.arg), "169.254.169.254".to_string(), 80u16);
        let mut sport = 33000u16;
        let mut trials = 0u64;
        for trial in 0..3u64 {
            w.rt.block_on(async { st_shared.clear_all_summary().await.unwrap() });
            // wait for a pass to have just happened
            let stamp = |p: &std::path::Path| std::fs::metadata(p).and_then(|m| m.modified()).ok();
            let m0 = stamp(&status_file);
            let t = std::time::SystemTime::now();
            while stamp(&status_file) == m0 && t.elapsed().map_or(false, |e| e < Duration::from_secs(3)) {
                std::thread::sleep(Duration::from_millis(1));
            }
            sport += 1;
            let o = do_request(&w, &callers, ReqKind { caller: 0, url: 2, host_fails: false }, sport, None);
            let recorded = read_summary(&w).get(&key).cloned().unwrap_or(0);
            if o.status != Ok(403) || recorded != 1 {
                vcommon::result::machinery(&format!("daily-clear family: the denial was not produced (status {:?}, recorded {recorded})", o.status));
            }
            vcommon::clockshim::advance(24 * 3600 + 60);
            let mut published = false;
            let t = std::time::SystemTime::now();
            let mut versions = 0u64;
            let mut last_stamp = stamp(&status_file);
            while t.elapsed().map_or(false, |e| e < Duration::from_millis(1500)) {
                if let Some(sum) = read_status_json(&status_file) {
                    if sum.get(&key).cloned().unwrap_or(0) >= 1 {
                        published = true;
                        break;
                    }
                }
                let s2 = stamp(&status_file);
                if s2 != last_stamp {
                    versions += 1;
                    last_stamp = s2;
                }
                std::thread::sleep(Duration::from_millis(1));
            }
            trials += 1;
            if !published {
                res.violation("status-file:denial-never-published:before-the-daily-clear", &format!("a denial recorded right after a status pass, 24 h of monotonic time passing at once: {versions} later version(s) of status.json were written in 1.5 s and none carries the denial; the summary now holds {:?}", read_summary(&w)), json!({"family": "denial-shortly-before-the-daily-clear", "trial": trial}));
            }
        }
        res.cov("daily_clear_trials", trials);
        res.cov("exhaustive", true);
        std::process::exit(res.finish());
    }

    let mut kinds: Vec<ReqKind> = Vec::new();
    for c in 0..callers.len() {
        for u in 0..URLS.len() {
            for hf in [false, true] {
                kinds.push(ReqKind { caller: c, url: u, host_fails: hf });
            }
        }
    }
    let configs: Vec<(&'static str, bool)> = vec![("enforce", false), ("audit", false), ("disabled", false), ("enforce", true), ("audit", true), ("Audit", false)];
    let max_len = if thorough { 3 } else { 2 };
    // quick: full alphabet to length 2; thorough: length 3 over the alphabet without the second root process
    let mut histories: Vec<Vec<ReqKind>> = Vec::new();
    for n in 1..=max_len {
        let alpha: Vec<ReqKind> = if n == 3 { kinds.iter().filter(|k| k.caller != 3 && !(k.caller == 4 && k.host_fails)).cloned().collect() } else { kinds.clone() };
        for seq in vcommon::explore::sequences(alpha.len(), n) {
            histories.push(seq.iter().map(|&i| alpha[i]).collect());
        }
    }
    // blocks: 5 identical denials
    for k in [ReqKind { caller: 1, url: 0, host_fails: false }, ReqKind { caller: 2, url: 1, host_fails: false }] {
        histories.push(vec![k; 5]);
    }
    if let Ok(path) = std::env::var("VERIF_REPLAY") {
        let doc: Value = serde_json::from_str(&std::fs::read_to_string(path).unwrap()).unwrap();
        let want = doc["case"]["history"].clone();
        histories.retain(|h| json!(h.iter().map(|k| json!({"caller": callers[k.caller].label, "url": URLS[k.url], "host_fails": k.host_fails})).collect::<Vec<_>>()) == want);
    }

    let mut sport: u16 = 33000;
    let mut evals = 0u64;
    let mut exempt_upload_total = 0u64;
    let mut host_refused_total = 0u64;
    let mut nontrivial: BTreeSet<String> = BTreeSet::new();
    let mut status_json_checked = 0u64;
    let mut hist_n = 0u64;
    let st_shared = w.shared.get_agent_status_shared_state();

    for (ci, (mode, default_allow)) in configs.iter().enumerate() {
        if ci % wn != wi {
            continue;
        }
        let pol = policy(mode, *default_allow);
        // baseline outcomes under a rule set that allows everything (mode disabled), per request kind
        w.set_rules(IMDS, policy("disabled", true).to_item());
        w.set_rules(WS, policy("disabled", true).to_item());
        w.set_rules(HOSTGA, policy("disabled", true).to_item());
        let mut baseline: BTreeMap<ReqKind, (Result<u16, String>, Vec<(String, String, Vec<u8>, Vec<(String, Vec<u8>)>)>)> = BTreeMap::new();
        for k in &kinds {
            sport = if sport >= 35000 { 33000 } else { sport + 1 };
            let o = do_request(&w, &callers, *k, sport, None);
            baseline.insert(*k, (o.status, o.upstream));
        }
        w.set_rules(IMDS, pol.to_item());
        w.set_rules(WS, pol.to_item());
        w.set_rules(HOSTGA, pol.to_item());
        for h in &histories {
            w.rt.block_on(async { st_shared.clear_all_summary().await.unwrap() });
            let mut refsum = Summary::new();
            hist_n += 1;
            let hjson = json!(h.iter().map(|k| json!({"caller": callers[k.caller].label, "url": URLS[k.url], "host_fails": k.host_fails})).collect::<Vec<_>>());
            let case = json!({"mode": mode, "default_allow": default_allow, "history": hjson});
            for (si, k) in h.iter().enumerate() {
                let c = &callers[k.caller];
                sport = if sport >= 35000 { 33000 } else { sport + 1 };
                let o = do_request(&w, &callers, *k, sport, None);
                evals += 1;
                let denied = !pol.disabled() && !pol.allows(c.user, URLS[k.url]);
                if denied {
                    nontrivial.insert(format!("{mode}{default_allow}{:?}", k));
                    let (ip, port) = c.dest.split_once(':').unwrap();
                    *refsum.entry((c.user.to_string(), c.exe.to_string(), format!("{} {}", c.exe, c.arg), ip.to_string(), port.parse().unwrap())).or_insert(0) += 1;
                }
                if denied && pol.enforce() {
                    if o.status != Ok(403) || o.bytes != 0 {
                        res.violation("enforce-denial-not-blocked", &format!("step {}: enforced denial got {:?} with {} bytes upstream", si + 1, o.status, o.bytes), case.clone());
                    }
                } else {
                    let b = &baseline[k];
                    if o.status != b.0 || o.upstream != b.1 {
                        let sig = if denied { "audit-denial-not-relayed-like-an-allowed-request" } else { "allowed-request-not-relayed" };
                        res.violation(sig, &format!("step {}: status {:?} upstream {:?}; the same request under an allowing rule set: status {:?} upstream {:?}", si + 1, o.status, o.upstream.iter().map(|u| (&u.0, &u.1)).collect::<Vec<_>>(), b.0, b.1.iter().map(|u| (&u.0, &u.1)).collect::<Vec<_>>()), case.clone());
                    }
                }
                let got = read_summary(&w);
                if got != refsum {
                    let sig = if got.values().sum::<u64>() > refsum.values().sum::<u64>() {
                        "summary:more-occurrences-than-denials"
                    } else if got.values().sum::<u64>() < refsum.values().sum::<u64>() {
                        if k.host_fails { "summary:denial-not-recorded:host-failed" } else { "summary:denial-not-recorded" }
                    } else {
                        "summary:wrong-key"
                    };
                    res.violation(sig, &format!("after step {} the failed-authorization summary is {:?}, expected {:?}", si + 1, got, refsum), case.clone());
                    break;
                }
            }
            // status.json, for a slice of the histories (each costs ~2 status intervals)
            if hist_n % (if thorough { 3 } else { 7 }) == 0 || h.len() == 5 {
                std::thread::sleep(Duration::from_millis(7));
                let mut ok = false;
                let mut last = None;
                for _ in 0..200 {
                    last = read_status_json(&status_file);
                    if last.as_ref() == Some(&refsum) {
                        ok = true;
                        break;
                    }
                    std::thread::sleep(Duration::from_millis(3));
                }
                status_json_checked += 1;
                if !ok {
                    res.violation("status-file:summary-differs", &format!("status.json failedAuthenticateSummary {:?}, expected {:?}", last, refsum), case.clone());
                }
            }
            if hist_n <= 2 || (h.len() == 5 && res.samples.len() < 5) {
                res.sample(json!({"case": case, "expected_summary": refsum.iter().map(|(k, v)| json!({"key": [k.0, k.1, k.2, k.3, k.4], "count": v})).collect::<Vec<_>>()}));
            }
        }
        // the host itself refuses relayed requests (401 / 403 / 500): only what the *rules* deny is recorded, and once
        {
            let mut refused_n = 0u64;
            for hs in [401u16, 403, 500] {
                HOST_STATUS.store(hs, std::sync::atomic::Ordering::SeqCst);
                w.rt.block_on(async { st_shared.clear_all_summary().await.unwrap() });
                let mut refsum = Summary::new();
                'callers: for ci in 0..callers.len() {
                    for ui in 0..URLS.len() {
                        for _rep in 0..2 {
                            let k = ReqKind { caller: ci, url: ui, host_fails: false };
                            let c = &callers[ci];
                            sport = if sport >= 35000 { 33000 } else { sport + 1 };
                            let o = do_request(&w, &callers, k, sport, None);
                            evals += 1;
                            refused_n += 1;
                            let denied = !pol.disabled() && !pol.allows(c.user, URLS[ui]);
                            if denied {
                                let (ip, port) = c.dest.split_once(':').unwrap();
                                *refsum.entry((c.user.to_string(), c.exe.to_string(), format!("{} {}", c.exe, c.arg), ip.to_string(), port.parse().unwrap())).or_insert(0) += 1;
                            }
                            let case = json!({"mode": mode, "default_allow": default_allow, "family": "host-refuses-relayed-requests", "host_status": hs, "caller": c.label, "url": URLS[ui]});
                            if !(denied && pol.enforce()) && o.status != Ok(hs) {
                                res.violation("host-status-not-passed-on", &format!("the host answered {hs} to a relayed request, the client got {:?}", o.status), case.clone());
                            }
                            let got = read_summary(&w);
                            if got != refsum {
                                res.violation(
                                    if got.values().sum::<u64>() > refsum.values().sum::<u64>() { "summary:more-occurrences-than-denials:host-refused" } else { "summary:denial-not-recorded:host-refused" },
                                    &format!("the host answers {hs} to relayed requests; after a request by {} for {} the failed-authorization summary is {:?}, expected {:?}", c.label, URLS[ui], got, refsum),
                                    case,
                                );
                                break 'callers;
                            }
                        }
                    }
                }
            }
            HOST_STATUS.store(200, std::sync::atomic::Ordering::SeqCst);
            host_refused_total += refused_n;
        }
        // the two uploads that are forwarded without a signature are judged by the rules like any other request
        {
            w.rt.block_on(async { st_shared.clear_all_summary().await.unwrap() });
            let mut refsum = Summary::new();
            'up: for ci in 0..callers.len() {
                for (m, t) in [("PUT", "/vmAgentLog"), ("POST", "/machine/?comp=telemetrydata"), ("PUT", "/deny/vmAgentLog")] {
                    let c = &callers[ci];
                    let hi = if c.dest == WS { 0 } else if c.dest == HOSTGA { 1 } else { 2 };
                    let host = w.hosts.all()[hi];
                    host.set_responder(Arc::new(|_m: &Msg, _c, _i| Action::Reply(vec![simple_response(200, &[], b"ok")])));
                    let cur = host.cursor();
                    sport = if sport >= 35000 { 33000 } else { sport + 1 };
                    let raw = build_request(m, t, &[("Host", b"h")], Some(b"log line"), None);
                    let rec = AuditRec::to(c.dest, c.uid, c.pid, c.is_root);
                    let status = w.connect(Some(sport), Some(&rec)).map_err(|e| e.to_string()).and_then(|mut cl| {
                        let r = cl.send(&raw).map_err(|e| e.to_string()).and_then(|_| cl.read_response(false, Duration::from_secs(10)).map(|m| m.status()));
                        cl.close();
                        r
                    });
                    evals += 1;
                    exempt_upload_total += 1;
                    let upstream = host.requests_since(cur).len();
                    let denied = !pol.disabled() && !pol.allows(c.user, t);
                    if denied {
                        let (ip, port) = c.dest.split_once(':').unwrap();
                        *refsum.entry((c.user.to_string(), c.exe.to_string(), format!("{} {}", c.exe, c.arg), ip.to_string(), port.parse().unwrap())).or_insert(0) += 1;
                    }
                    let case = json!({"mode": mode, "default_allow": default_allow, "family": "signature-exempt-uploads", "caller": c.label, "method": m, "url": t});
                    if denied && pol.enforce() {
                        if status != Ok(403) || upstream != 0 {
                            res.violation("enforce:denied-upload-not-refused", &format!("{m} {t} by {} is denied by the rules (enforce): client got {:?}, {upstream} request(s) upstream", c.label, status), case.clone());
                        }
                    } else if status != Ok(200) || upstream != 1 {
                        res.violation("upload-not-relayed", &format!("{m} {t} by {} (denied by the rules: {denied}): client got {:?}, {upstream} request(s) upstream", c.label, status), case.clone());
                    }
                    let got = read_summary(&w);
                    if got != refsum {
                        res.violation(
                            if got.values().sum::<u64>() > refsum.values().sum::<u64>() { "summary:more-occurrences-than-denials:exempt-upload" } else { "summary:denial-not-recorded:exempt-upload" },
                            &format!("after {m} {t} by {} the failed-authorization summary is {:?}, expected {:?}", c.label, got, refsum),
                            case,
                        );
                        break 'up;
                    }
                }
            }
        }
        // a denied request that announces a body and never finishes sending it (content-length larger than what comes, an
        // open chunk): refused and recorded at once, not when the client gives up
        if pol.enforce() {
            let c = &callers[1];
            let denied = !pol.disabled() && !pol.allows(c.user, URLS[1]);
            if denied {
                for (label, raw) in [
                    ("content-length-100-only-3-bytes-sent", format!("POST {} HTTP/1.1\r\nHost: h\r\nContent-Length: 100\r\n\r\nabc", URLS[1]).into_bytes()),
                    ("chunked-body-left-open", format!("POST {} HTTP/1.1\r\nHost: h\r\nTransfer-Encoding: chunked\r\n\r\n5\r\nhello\r\n", URLS[1]).into_bytes()),
                    ("head-only-content-length-100", format!("POST {} HTTP/1.1\r\nHost: h\r\nContent-Length: 100\r\n\r\n", URLS[1]).into_bytes()),
                ] {
                    w.rt.block_on(async { st_shared.clear_all_summary().await.unwrap() });
                    sport = if sport >= 35000 { 33000 } else { sport + 1 };
                    let mut cl = w.connect(Some(sport), Some(&AuditRec::to(c.dest, c.uid, c.pid, c.is_root))).unwrap();
                    let _ = cl.send(&raw);
                    let st = cl.read_response(false, Duration::from_secs(3)).map(|m| m.status());
                    let recorded: u64 = read_summary(&w).values().sum();
                    evals += 1;
                    if st != Ok(403) || recorded != 1 {
                        res.violation("enforce:denial-waits-for-the-body", &format!("a denied request whose body never completes ({label}): the client, still connected, got {:?} within 3 s and {recorded} denial(s) are recorded (expected 403 and 1)", st), json!({"mode": mode, "default_allow": default_allow, "family": "denied-request-with-unfinished-body", "shape": label}));
                    }
                    cl.close();
                }
            }
        }
        // concurrent block: 3 keep-alive connections, the same denied request on each, interleaved
        {
            w.rt.block_on(async { st_shared.clear_all_summary().await.unwrap() });
            let k = ReqKind { caller: 1, url: 0, host_fails: false };
            let c = &callers[1];
            let mut conns: Vec<Client> = Vec::new();
            for _ in 0..3 {
                sport = if sport >= 35000 { 33000 } else { sport + 1 };
                conns.push(w.connect(Some(sport), Some(&AuditRec::to(c.dest, c.uid, c.pid, c.is_root))).unwrap());
            }
            let raw = build_request("POST", URLS[k.url], &[("Host", b"h")], Some(b"body"), None);
            for round in 0..2 {
                for cl in conns.iter_mut() {
                    cl.send(&raw).unwrap();
                }
                for cl in conns.iter_mut() {
                    let _ = cl.read_response(false, Duration::from_secs(10));
                }
                let _ = round;
            }
            evals += 6;
            let denied = !pol.disabled() && !pol.allows(c.user, URLS[k.url]);
            let total: u64 = read_summary(&w).values().sum();
            if total != if denied { 6 } else { 0 } {
                res.violation("summary:concurrent-count", &format!("6 identical requests on 3 concurrent connections recorded {total} denials, expected {}", if denied { 6 } else { 0 }), json!({"mode": mode, "default_allow": default_allow, "family": "concurrent"}));
            }
            for cl in conns {
                cl.close();
            }
        }
        // mode change under a kept-alive connection: the connection served a request while the rules were disabled;
        // the configuration under test is installed; the same denied request on the same connection is then judged
        // (and recorded) under the configuration in force when it arrives
        {
            let c = &callers[1];
            let raw = build_request("POST", URLS[0], &[("Host", b"h")], Some(b"body"), None);
            for ep in [IMDS, WS, HOSTGA] {
                w.set_rules(ep, policy("disabled", true).to_item());
            }
            w.rt.block_on(async { st_shared.clear_all_summary().await.unwrap() });
            sport = if sport >= 35000 { 33000 } else { sport + 1 };
            let mut cl = w.connect(Some(sport), Some(&AuditRec::to(c.dest, c.uid, c.pid, c.is_root))).unwrap();
            let hi = [WS, HOSTGA, IMDS].iter().position(|d| *d == c.dest).unwrap();
            cl.send(&raw).unwrap();
            let first = cl.read_response(false, Duration::from_secs(10)).map(|m| m.status());
            for ep in [IMDS, WS, HOSTGA] {
                w.set_rules(ep, pol.to_item());
            }
            let cur = w.hosts.all()[hi].cursor();
            let second = cl.send(&raw).map_err(|e| e.to_string()).and_then(|_| cl.read_response(false, Duration::from_secs(10)).map(|m| m.status()));
            let upstream = w.hosts.all()[hi].requests_since(cur).len();
            evals += 2;
            let denied = !pol.disabled() && !pol.allows(c.user, URLS[0]);
            let total: u64 = read_summary(&w).values().sum();
            let case = json!({"mode": mode, "default_allow": default_allow, "family": "keep-alive-mode-change"});
            if first != Ok(200) {
                res.violation("keep-alive-mode-change:first-request", &format!("request under disabled rules got {:?}", first), case.clone());
            }
            if denied && pol.enforce() && (second != Ok(403) || upstream != 0) {
                res.violation("enforce:denied-request-relayed:keep-alive-mode-change", &format!("a request the enforced rules deny, on a connection opened while the rules were disabled, got {:?} with {upstream} request(s) upstream", second), case.clone());
            }
            if denied && pol.audit() && (second != Ok(200) || upstream != 1) {
                res.violation("audit:denied-request-not-relayed:keep-alive-mode-change", &format!("audit mode: {:?}, {upstream} upstream", second), case.clone());
            }
            if total != denied as u64 {
                res.violation("summary:keep-alive-mode-change", &format!("the denial on a connection opened while the rules were disabled was recorded {total} times, expected {}", denied as u64), case.clone());
            }
            cl.close();
        }
        // the host closes its side of the relay connection after an allowed request; the next request on the same client
        // connection is one the rules deny: it is judged (and recorded) by the rules, whatever state the relay connection is in
        if pol.enforce() || pol.audit() {
            let c = &callers[0];
            let hi = [WS, HOSTGA, IMDS].iter().position(|d| *d == c.dest).unwrap();
            let host = w.hosts.all()[hi];
            host.set_responder(std::sync::Arc::new(|_m: &Msg, _c, _i| Action::ReplyClose(vec![simple_response(200, &[], b"ok")])));
            w.rt.block_on(async { st_shared.clear_all_summary().await.unwrap() });
            sport = if sport >= 35000 { 33000 } else { sport + 1 };
            let mut cl = w.connect(Some(sport), Some(&AuditRec::to(c.dest, c.uid, c.pid, c.is_root))).unwrap();
            let first = cl.send(&build_request("GET", URLS[0], &[("Host", b"h")], None, None)).map_err(|e| e.to_string()).and_then(|_| cl.read_response(false, Duration::from_secs(10)).map(|m| m.status()));
            std::thread::sleep(Duration::from_millis(30));
            let cur = host.cursor();
            let second = cl.send(&build_request("POST", URLS[1], &[("Host", b"h")], Some(b"body"), None)).map_err(|e| e.to_string()).and_then(|_| cl.read_response(false, Duration::from_secs(10)).map(|m| m.status()));
            let upstream = host.requests_since(cur).len();
            evals += 2;
            let total: u64 = read_summary(&w).values().sum();
            let case = json!({"mode": mode, "default_allow": default_allow, "family": "host-closed-relay-connection"});
            if first != Ok(200) {
                res.violation("host-closed-relay-connection:first-request", &format!("granted request got {:?}", first), case.clone());
            }
            if pol.enforce() && (second != Ok(403) || upstream != 0) {
                res.violation("enforce:denial-not-answered-403:host-closed-relay-connection", &format!("a request the enforced rules deny, sent after the host had closed the relay connection, got {:?} with {upstream} request(s) upstream", second), case.clone());
            }
            if total != 1 {
                res.violation("summary:host-closed-relay-connection", &format!("the denial sent after the host had closed the relay connection was recorded {total} times, expected 1"), case.clone());
            }
            cl.close();
            host.set_responder(std::sync::Arc::new(|_m: &Msg, _c, _i| Action::Reply(vec![simple_response(200, &[], b"ok")])));
        }
        // many distinct callers: every denial is recorded, however many different keys the summary already holds
        if (pol.enforce() || pol.audit()) && ci == 0 {
            w.rt.block_on(async { st_shared.clear_all_summary().await.unwrap() });
            let n_callers = if thorough { 1100usize } else { 520 };
            let raw = build_request("POST", URLS[1], &[("Host", b"h")], Some(b"body"), None);
            let mut answered = 0u64;
            for i in 0..n_callers {
                let pid = w.spawn_proc("/usr/bin/vt-many", &[&format!("{}", 200000 + i)], Some(1002));
                sport = if sport >= 35000 { 33000 } else { sport + 1 };
                if let Ok(mut cl) = w.connect(Some(sport), Some(&AuditRec::to(IMDS, 1002, pid, false))) {
                    if cl.send(&raw).is_ok() && cl.read_response(false, Duration::from_secs(10)).is_ok() {
                        answered += 1;
                    }
                    cl.close();
                }
            }
            evals += n_callers as u64;
            let sum = read_summary(&w);
            let (keys, total) = (sum.len(), sum.values().sum::<u64>());
            if keys != n_callers || total != n_callers as u64 {
                res.violation("summary:many-distinct-callers", &format!("{n_callers} denied requests from {n_callers} different processes ({answered} answered) are recorded under {keys} keys with {total} occurrences"), json!({"mode": mode, "default_allow": default_allow, "family": "many-distinct-callers", "callers": n_callers}));
            }
            w.reap_children_named("/usr/bin/vt-many");
        }
        // burst: many attributed connections, one denied request each, all sent before any response is read
        // (SAMPLED family: the server-side interleaving is whatever the runtime does)
        if pol.enforce() || pol.audit() {
            w.rt.block_on(async { st_shared.clear_all_summary().await.unwrap() });
            let c = &callers[1];
            let nburst = if thorough { 600 } else { 250 };
            let raw = build_request("POST", URLS[0], &[("Host", b"h")], Some(b"body"), None);
            let mut conns: Vec<Client> = Vec::new();
            let mut port = 38000u16;
            for _ in 0..nburst {
                port += 1;
                conns.push(w.connect(Some(port), Some(&AuditRec::to(c.dest, c.uid, c.pid, c.is_root))).unwrap());
                // the kernel map holds 200 records: never leave more than a few waiting to be picked up
                // (attribution under map pressure is C06/C07's subject, not this one's)
                let t = std::time::Instant::now();
                while w.audit_present(port) && t.elapsed() < Duration::from_secs(10) {
                    std::thread::sleep(Duration::from_micros(200));
                }
            }
            for cl in conns.iter_mut() {
                cl.send(&raw).unwrap();
            }
            let mut answered = 0u64;
            let mut statuses: BTreeMap<String, u64> = BTreeMap::new();
            for cl in conns.iter_mut() {
                match cl.read_response(false, Duration::from_secs(20)) {
                    Ok(m) => {
                        answered += 1;
                        *statuses.entry(m.status().to_string()).or_insert(0) += 1;
                    }
                    Err(e) => *statuses.entry(e).or_insert(0) += 1,
                }
            }
            evals += nburst as u64;
            let total: u64 = read_summary(&w).values().sum();
            if total != nburst as u64 {
                res.violation("summary:burst-count", &format!("{nburst} concurrent denied requests ({answered} answered) recorded {total} denials; client-side outcomes {statuses:?}"), json!({"mode": mode, "default_allow": default_allow, "family": "burst", "connections": nburst}));
            }
            for cl in conns {
                cl.close();
            }
        }
    }
    for p in world::take_panics() {
        res.violation("panic", &p, json!({"note": "panic during exploration"}));
    }
    res.cov("evaluations", evals);
    res.cov("distinct_nontrivial", nontrivial.len() as u64);
    res.cov("histories", hist_n);
    res.cov("status_json_comparisons", status_json_checked);
    res.cov("exhaustive", true);
    res.cov("host_refused_requests", host_refused_total);
    res.cov("signature_exempt_upload_requests", exempt_upload_total);
    res.cov("rule", format!("every history of <= {max_len} requests over {{alice, bob -> IMDS; two elevated root processes -> WireServer, one of them also -> HostGAPlugin}} x 3 URLs (granted, matched-but-ungranted, unmatched) x {{host answers, host resets the connection}} (length-3 histories without the second root process), plus every caller x URL twice while the host answers relayed requests with 401 / 403 / 500, plus the two signature-exempt uploads (and the same method under the matched-but-ungranted prefix) by every caller, plus a denial recorded right after a status pass with 24 h of monotonic time passing at once (LD_PRELOAD clock shim; the daily clear of the summaries comes with the next pass): some published status.json carries it; plus denied requests whose announced body never completes (403 and the record at once), plus 5 identical denials, 6 denials on 3 concurrent keep-alive connections, a denied request on a connection that was opened (and served) while the rules were disabled, a denied request after the host closed the relay connection, 520 (1100) denied requests from as many different processes, and a sampled burst of 250 (600) concurrent denied requests, under {} mode/default configurations; after every request the public failed-authorization summary is compared with the reference multiset (user, process path, command line, destination -> count); status.json of the real status task is compared for every 3rd (quick: 7th) history (status interval 2 ms) and every 5-denial block; non-trivial = request the rules deny", configs.len()));
    res.assume("audit-mode denials are compared with the same request under an allowing rule set (status and what the host received, modulo date/MAC headers)");
    std::process::exit(res.finish());
}
