//! C10: the key id in a signature always names the key that produced the MAC.
//! Deterministic scheduler over the real code: every operation on the key-keeper actor
//! (get_key / set_key) parks at the cfg(azure_guestproxyagent_verif) scheduling point until the
//! explorer releases it; DFS enumerates every interleaving of the signing threads (a proxied
//! request, the agent's own goal-state call) with the key keeper's rotation sequence.

use gpa_harness::common::constants;
use gpa_harness::host_clients::{imds_client::ImdsClient, wire_server_client::WireServerClient};
use gpa_harness::shared_state::verif_sched;
use gpa_harness::verif::hostcheck::{self, SigVerdict};
use gpa_harness::verif::world::{self, AuditRec, World, WorldOpts, WS};
use serde_json::{json, Value};
use std::collections::{BTreeMap, HashMap};
use std::sync::atomic::{AtomicBool, AtomicU64, Ordering};
use std::sync::{Arc, Mutex};
use std::time::{Duration, Instant};
use vcommon::rawhttp::{build_request, simple_response, Action, Msg};
use vcommon::result::{is_thorough, EngineResult};

const K1: (&str, &str) = ("11111111-1111-1111-1111-111111111111", "1111111111111111111111111111111111111111111111111111111111111111");
const K2: (&str, &str) = ("22222222-2222-2222-2222-222222222222", "2222222222222222222222222222222222222222222222222222222222222222");
// a 384-bit secret: the MAC is under the whole secret of the named key, whatever its size
const K3: (&str, &str) = ("33333333-3333-3333-3333-333333333333", "333333333333333333333333333333333333333333333333333333333333333344444444444444444444444444444444");

struct Parked {
    seq: u64,
    label: &'static str,
    task: Option<String>,
    release: tokio::sync::oneshot::Sender<()>,
}

static ACTIVE: AtomicBool = AtomicBool::new(false);
/// number of own host calls (goal state / IMDS) the mock still answers with 403 in this execution
static REJECT: std::sync::atomic::AtomicI64 = std::sync::atomic::AtomicI64::new(0);
static SEQ: AtomicU64 = AtomicU64::new(0);
static PARKED: Mutex<Vec<Parked>> = Mutex::new(Vec::new());

fn install_hook() {
    verif_sched::install(Arc::new(|label: &'static str| {
        Box::pin(async move {
            if !ACTIVE.load(Ordering::SeqCst) {
                return;
            }
            let (tx, rx) = tokio::sync::oneshot::channel();
            let task = tokio::task::try_id().map(|i| i.to_string());
            PARKED.lock().unwrap().push(Parked { seq: SEQ.fetch_add(1, Ordering::SeqCst), label, task, release: tx });
            let _ = rx.await;
        })
    }));
}

#[derive(Clone, Copy, Debug, PartialEq, Eq, Hash, PartialOrd, Ord)]
enum Th {
    K,  // key keeper: update_key(K2); clear_key(); update_key(K3)
    S1, // proxied request (task not owned by the harness)
    S1b,
    S1k, // proxied request on a kept-alive connection that already served a request under K1 before the schedule starts
    S2, // the agent's own goal-state call
    S3, // the agent's own IMDS call
}

struct Exec {
    order: Vec<Th>,
    alternatives: Vec<usize>, // number of enabled threads at each step
    requests: Vec<Msg>,
    client_status: Vec<Result<u16, String>>,
}

fn wait_until<F: FnMut() -> bool>(mut f: F, what: &str) {
    let t = Instant::now();
    while !f() {
        if t.elapsed() > Duration::from_secs(8) {
            vcommon::result::machinery(&format!("scheduler: timeout waiting for {what}"));
        }
        std::thread::sleep(Duration::from_micros(150));
    }
}

fn run_schedule(w: &World, threads: &[Th], prefix: &[usize], sport: &mut u16, root_pid: u32) -> Exec {
    run_schedule_r(w, threads, prefix, sport, root_pid, 0)
}

fn run_schedule_r(w: &World, threads: &[Th], prefix: &[usize], sport: &mut u16, root_pid: u32, reject: i64) -> Exec {
    ACTIVE.store(false, Ordering::SeqCst);
    REJECT.store(reject, Ordering::SeqCst);
    PARKED.lock().unwrap().clear();
    w.set_key(Some(K1));
    let kk = w.shared.get_key_keeper_shared_state();
    // kept-alive connections that have already served a request (signed under K1) when the schedule starts
    let mut warm: Vec<vcommon::rawhttp::Client> = Vec::new();
    for _ in threads.iter().filter(|t| **t == Th::S1k) {
        *sport = if *sport >= 49000 { 48000 } else { *sport + 1 };
        let rec = AuditRec::to(WS, 0, root_pid, true);
        let mut c = w.connect(Some(*sport), Some(&rec)).unwrap_or_else(|e| vcommon::result::machinery(&format!("connect: {e}")));
        let r = c.send(&build_request("GET", "/warm", &[("Host", b"h")], None, None)).map_err(|e| e.to_string()).and_then(|_| c.read_response(false, Duration::from_secs(20)).map(|m| m.status()));
        if r != Ok(200) {
            vcommon::result::machinery(&format!("warm-up request of a kept-alive connection: {:?}", r));
        }
        warm.push(c);
    }
    let cur_ws = w.hosts.ws.cursor();
    let cur_imds = w.hosts.imds.cursor();
    ACTIVE.store(true, Ordering::SeqCst);

    let mut task_of: HashMap<String, Th> = HashMap::new();
    let mut handles: Vec<(Th, tokio::task::JoinHandle<()>)> = Vec::new();
    let mut client_done: Vec<(Th, Arc<AtomicBool>, Arc<Mutex<Option<Result<u16, String>>>>)> = Vec::new();
    for th in threads {
        match th {
            Th::K => {
                let kk2 = kk.clone();
                let h = w.rt.spawn(async move {
                    let _ = kk2.update_key(world::make_key(K2.0, K2.1)).await;
                    let _ = kk2.clear_key().await;
                    let _ = kk2.update_key(world::make_key(K3.0, K3.1)).await;
                });
                task_of.insert(h.id().to_string(), Th::K);
                handles.push((Th::K, h));
            }
            Th::S2 => {
                let c = WireServerClient::new(constants::WIRE_SERVER_IP, constants::WIRE_SERVER_PORT, kk.clone());
                let h = w.rt.spawn(async move {
                    let _ = c.get_goalstate().await;
                });
                task_of.insert(h.id().to_string(), Th::S2);
                handles.push((Th::S2, h));
            }
            Th::S3 => {
                let c = ImdsClient::new(constants::IMDS_IP, constants::IMDS_PORT, kk.clone());
                let h = w.rt.spawn(async move {
                    let _ = c.get_imds_instance_info().await;
                });
                task_of.insert(h.id().to_string(), Th::S3);
                handles.push((Th::S3, h));
            }
            Th::S1 | Th::S1b | Th::S1k => {
                let mut c = if *th == Th::S1k {
                    warm.pop().unwrap()
                } else {
                    *sport = if *sport >= 49000 { 48000 } else { *sport + 1 };
                    let rec = AuditRec::to(WS, 0, root_pid, true);
                    w.connect(Some(*sport), Some(&rec)).unwrap_or_else(|e| vcommon::result::machinery(&format!("connect: {e}")))
                };
                let done = Arc::new(AtomicBool::new(false));
                let out = Arc::new(Mutex::new(None));
                let (d2, o2) = (done.clone(), out.clone());
                let target = match th {
                    Th::S1 => "/s1",
                    Th::S1b => "/s1b",
                    _ => "/s1k",
                };
                std::thread::spawn(move || {
                    let r = c.send(&build_request("GET", target, &[("Host", b"h")], None, None)).map_err(|e| e.to_string()).and_then(|_| c.read_response(false, Duration::from_secs(20)).map(|m| m.status()));
                    *o2.lock().unwrap() = Some(r);
                    d2.store(true, Ordering::SeqCst);
                    c.close();
                });
                client_done.push((*th, done, out));
                // proxied requests are anonymous tasks: wait until this one is parked before starting
                // the next anonymous one, so that they can be told apart by arrival order
                let want = client_done.len();
                wait_until(|| PARKED.lock().unwrap().iter().filter(|p| p.task.as_ref().map_or(true, |t| !task_of.contains_key(t))).count() >= want, "proxied request to reach its first key read");
            }
        }
    }
    // anonymous parked ops are attributed by the order in which their tasks first appeared
    let mut anon_tasks: Vec<String> = Vec::new();
    let anon_threads: Vec<Th> = threads.iter().filter(|t| matches!(t, Th::S1 | Th::S1b | Th::S1k)).cloned().collect();
    let mut owner = |p: &Parked, anon_tasks: &mut Vec<String>| -> Th {
        let id = p.task.clone().unwrap_or_default();
        if let Some(t) = task_of.get(&id) {
            return *t;
        }
        if !anon_tasks.contains(&id) {
            anon_tasks.push(id.clone());
        }
        anon_threads[anon_tasks.iter().position(|t| *t == id).unwrap().min(anon_threads.len() - 1)]
    };
    let finished = |th: Th| -> bool {
        if let Some((_, h)) = handles.iter().find(|(t, _)| *t == th) {
            return h.is_finished();
        }
        client_done.iter().find(|(t, _, _)| *t == th).map_or(true, |(_, d, _)| d.load(Ordering::SeqCst))
    };
    let mut order = Vec::new();
    let mut alternatives = Vec::new();
    let mut step = 0usize;
    loop {
        // wait until every unfinished thread is parked
        wait_until(
            || {
                let parked = PARKED.lock().unwrap();
                let mut owners: Vec<Th> = Vec::new();
                for p in parked.iter() {
                    owners.push(owner(p, &mut anon_tasks));
                }
                threads.iter().all(|t| finished(*t) || owners.contains(t))
            },
            "all threads to park or finish",
        );
        let mut enabled: Vec<Th> = {
            let parked = PARKED.lock().unwrap();
            let mut v: Vec<Th> = parked.iter().map(|p| owner(p, &mut anon_tasks)).collect();
            v.sort();
            v.dedup();
            v
        };
        enabled.retain(|t| !finished(*t));
        if enabled.is_empty() {
            break;
        }
        let choice = if step < prefix.len() { prefix[step] } else { 0 };
        if choice >= enabled.len() {
            vcommon::result::machinery(&format!("replay divergence at step {step}: choice {choice} of {} enabled", enabled.len()));
        }
        let th = enabled[choice];
        alternatives.push(enabled.len());
        order.push(th);
        // release the oldest parked op of that thread
        let op = {
            let mut parked = PARKED.lock().unwrap();
            let idx = parked.iter().enumerate().filter(|(_, p)| owner(p, &mut anon_tasks) == th).min_by_key(|(_, p)| p.seq).map(|(i, _)| i).unwrap();
            parked.remove(idx)
        };
        let _ = op.label;
        let _ = op.release.send(());
        // wait until that thread parks again or finishes
        wait_until(|| finished(th) || PARKED.lock().unwrap().iter().any(|p| owner(p, &mut anon_tasks) == th), "released thread to park again or finish");
        step += 1;
    }
    ACTIVE.store(false, Ordering::SeqCst);
    let mut requests: Vec<Msg> = w.hosts.ws.requests_since(cur_ws).into_iter().map(|(_, m)| m).collect();
    requests.extend(w.hosts.imds.requests_since(cur_imds).into_iter().map(|(_, m)| m));
    let client_status = client_done.iter().map(|(_, _, o)| o.lock().unwrap().clone().unwrap_or(Err("no result".into()))).collect();
    Exec { order, alternatives, requests, client_status }
}

fn main() {
    world::install_panic_recorder();
    let thorough = is_thorough();
    let w = World::start(WorldOpts::default());
    let mut res = EngineResult::new("C10");
    install_hook();
    let root_pid = w.spawn_proc("/usr/bin/vt-waagent", &["100000"], None);
    let resp: vcommon::rawhttp::Responder = Arc::new(|m: &Msg, _c, _i| {
        let own = m.target().contains("goalstate") || m.target().starts_with("/metadata/instance");
        if own && REJECT.fetch_sub(1, Ordering::SeqCst) > 0 {
            return Action::Reply(vec![simple_response(403, &[], b"")]);
        }
        Action::Reply(vec![simple_response(200, &[("Content-Type", "application/json")], b"{}")])
    });
    w.hosts.ws.set_responder(resp.clone());
    w.hosts.imds.set_responder(resp);
    let mut keys: HashMap<String, String> = HashMap::new();
    for k in [K1, K2, K3] {
        keys.insert(k.0.into(), k.1.into());
    }
    let mut sport = 48000u16;

    // (threads, number of own host calls the mock rejects with 403 first)
    let mut families: Vec<(Vec<Th>, i64)> = vec![(vec![Th::K, Th::S1], 0), (vec![Th::K, Th::S2], 0), (vec![Th::K, Th::S3], 0), (vec![Th::K, Th::S1, Th::S2], 0), (vec![Th::K, Th::S1, Th::S1b], 0), (vec![Th::K, Th::S2], 1), (vec![Th::K, Th::S3], 1), (vec![Th::K, Th::S1k], 0), (vec![Th::K, Th::S1k, Th::S1], 0)];
    if thorough {
        families.push((vec![Th::K, Th::S1, Th::S2, Th::S3], 0));
        families.push((vec![Th::K, Th::S1, Th::S1b, Th::S2], 0));
        families.push((vec![Th::K, Th::S2, Th::S3], 2));
        families.push((vec![Th::K, Th::S1, Th::S2], 1));
    }
    if let Ok(path) = std::env::var("VERIF_REPLAY") {
        let doc: Value = serde_json::from_str(&std::fs::read_to_string(path).unwrap()).unwrap();
        let fam: Vec<Th> = doc["case"]["threads"].as_array().unwrap().iter().map(|t| match t.as_str().unwrap() { "K" => Th::K, "S1" => Th::S1, "S1b" => Th::S1b, "S1k" => Th::S1k, "S2" => Th::S2, _ => Th::S3 }).collect();
        let prefix: Vec<usize> = doc["case"]["choices"].as_array().unwrap().iter().map(|c| c.as_u64().unwrap() as usize).collect();
        let reject = doc["case"]["host_rejects_first"].as_i64().unwrap_or(0);
        let e = run_schedule_r(&w, &fam, &prefix, &mut sport, root_pid, reject);
        judge(&mut res, &fam, reject, &prefix, &e, &keys, &mut BTreeMap::new());
        res.cov("states", 1);
        res.cov("transitions", e.order.len() as u64);
        res.cov("traces_validated_against_impl", 1);
        res.sample(doc["case"].clone());
        std::process::exit(res.finish());
    }

    // determinism gate
    {
        let a = run_schedule(&w, &families[3].0, &[], &mut sport, root_pid);
        let b = run_schedule(&w, &families[3].0, &[], &mut sport, root_pid);
        let f = |e: &Exec| format!("{:?}{:?}{:?}", e.order, e.alternatives, e.requests.iter().map(|m| m.header(hostcheck::AUTHZ).map(|v| v.split(' ').take(2).collect::<Vec<_>>().join(" "))).collect::<Vec<_>>()); // scheme and key id: the MAC covers the date header, i.e. the wall clock
        if f(&a) != f(&b) {
            vcommon::result::machinery(&format!("determinism gate: the default schedule gave different observations:\n{}\n{}", f(&a), f(&b)));
        }
    }

    let mut schedules = 0u64;
    let mut transitions = 0u64;
    let mut pairings: BTreeMap<String, u64> = BTreeMap::new();
    let mut per_family: Vec<Value> = Vec::new();
    for (fam, reject) in &families {
        // DFS over choice vectors
        let mut stack: Vec<Vec<usize>> = vec![vec![]];
        let mut n = 0u64;
        while let Some(prefix) = stack.pop() {
            let e = run_schedule_r(&w, fam, &prefix, &mut sport, root_pid, *reject);
            n += 1;
            schedules += 1;
            transitions += e.order.len() as u64;
            judge(&mut res, fam, *reject, &prefix, &e, &keys, &mut pairings);
            if schedules <= 2 {
                res.sample(json!({"threads": fam.iter().map(|t| format!("{:?}", t)).collect::<Vec<_>>(), "order_of_key_actor_operations": e.order.iter().map(|t| format!("{:?}", t)).collect::<Vec<_>>(), "authorization_headers_at_host": e.requests.iter().map(|m| m.header(hostcheck::AUTHZ)).collect::<Vec<_>>()}));
            }
            // children: at every step beyond the prefix, the alternatives 1..k-1
            for i in (prefix.len()..e.alternatives.len()).rev() {
                for alt in 1..e.alternatives[i] {
                    let mut p: Vec<usize> = prefix.clone();
                    p.extend(std::iter::repeat(0).take(i - prefix.len()));
                    p.push(alt);
                    stack.push(p);
                }
            }
            if res.n_violations() > 0 && n > 400 {
                break;
            }
        }
        per_family.push(json!({"threads": fam.iter().map(|t| format!("{:?}", t)).collect::<Vec<_>>(), "host_rejects_first": reject, "schedules": n}));
    }
    for p in world::take_panics() {
        res.violation("panic", &p, json!({"note": "panic during exploration"}));
    }
    verif_sched::clear();
    // ---- SAMPLED, labelled: free-running threads sign with different key snapshots at the same time (no scheduler:
    // whatever state the signing functions share between callers is exercised by real parallelism); every header
    // is checked with the independent canonicaliser and HMAC under the key its id names
    let iters: usize = if thorough { 120_000 } else { 30_000 };
    let bad: Arc<Mutex<Vec<String>>> = Arc::new(Mutex::new(Vec::new()));
    let signed_total = Arc::new(AtomicU64::new(0));
    let mut hs = Vec::new();
    for t in 0..4usize {
        let (bad, signed_total) = (bad.clone(), signed_total.clone());
        hs.push(std::thread::spawn(move || {
            let keys = [K1, K2, K3];
            let url: hyper::Uri = "http://168.63.129.16/machine?comp=goalstate".parse().unwrap();
            let mut extra = HashMap::new();
            extra.insert("x-ms-version".to_string(), "2012-11-30".to_string());
            for i in 0..iters {
                let k = keys[(t + i) % 3];
                let body = format!("body-{t}-{i}");
                let req = match gpa_harness::common::hyper_client::build_request(hyper::Method::POST, &url, &extra, Some(body.as_bytes()), Some(k.0.to_string()), Some(k.1.to_string())) {
                    Ok(r) => r,
                    Err(e) => {
                        bad.lock().unwrap().push(format!("build_request failed: {e}"));
                        return;
                    }
                };
                let headers: Vec<(String, Vec<u8>)> = req.headers().iter().map(|(n, v)| (n.as_str().to_string(), v.as_bytes().to_vec())).collect();
                let authz = req.headers().get(hostcheck::AUTHZ).and_then(|v| v.to_str().ok()).unwrap_or("").to_string();
                let target = req.uri().path_and_query().map(|p| p.as_str().to_string()).unwrap_or_default();
                let canon = gpa_harness::verif::sigref::canonical("POST", body.as_bytes(), &headers, &target);
                let want = gpa_harness::verif::sigref::mac_hex(k.1, &canon).unwrap_or_default();
                let ok = match gpa_harness::verif::sigref::parse_authz(&authz) {
                    Some((guid, mac)) => guid == k.0 && mac.eq_ignore_ascii_case(&want),
                    None => false,
                };
                signed_total.fetch_add(1, Ordering::Relaxed);
                if !ok {
                    let other: Vec<&str> = keys.iter().filter(|o| gpa_harness::verif::sigref::mac_hex(o.1, &canon).map(|m| authz.to_lowercase().ends_with(&m.to_lowercase())).unwrap_or(false)).map(|o| o.0).collect();
                    let mut b = bad.lock().unwrap();
                    if b.len() < 5 {
                        b.push(format!("thread {t} iteration {i}: header {authz:?} for key {} does not carry that key's MAC (it is the MAC under {:?})", k.0, other));
                    }
                    return;
                }
            }
        }));
    }
    for h in hs {
        let _ = h.join();
    }
    for b in bad.lock().unwrap().iter() {
        res.violation("id-secret-mismatch:parallel-signers", b, json!({"family": "parallel-signers (sampled)", "threads": 4, "iterations_per_thread": iters}));
    }
    res.cov("parallel_signer_requests_sampled", signed_total.load(Ordering::Relaxed));
    // ---- SAMPLED, labelled: key snapshots taken through the key-keeper actor by free-running tasks while another task
    // rotates the key (the scheduler above parks get_key / set_key as a whole: an actor conversation that a snapshot is
    // assembled from is only interleaved by real parallelism); every snapshot is (id, its own secret)
    let snap_iters: u64 = if thorough { 60000 } else { 15000 };
    let torn: Arc<Mutex<Vec<String>>> = Arc::new(Mutex::new(Vec::new()));
    let snaps = Arc::new(AtomicU64::new(0));
    {
        ACTIVE.store(false, Ordering::SeqCst);
        let kk = w.shared.get_key_keeper_shared_state();
        let stop = Arc::new(AtomicBool::new(false));
        let rot = {
            let (kk, stop) = (kk.clone(), stop.clone());
            w.rt.spawn(async move {
                let ks = [K1, K2, K3];
                let mut i = 0usize;
                while !stop.load(Ordering::SeqCst) {
                    let k = ks[i % 3];
                    let _ = kk.update_key(world::make_key(k.0, k.1)).await;
                    if i % 7 == 0 {
                        let _ = kk.clear_key().await;
                    }
                    i += 1;
                    tokio::task::yield_now().await;
                }
            })
        };
        let mut hs = Vec::new();
        for _t in 0..3 {
            let (kk, torn, snaps) = (kk.clone(), torn.clone(), snaps.clone());
            hs.push(w.rt.spawn(async move {
                for _ in 0..snap_iters {
                    if let Ok(Some(k)) = kk.get_current_key().await {
                        snaps.fetch_add(1, Ordering::Relaxed);
                        let want = [K1, K2, K3].iter().find(|x| x.0 == k.guid).map(|x| x.1);
                        if want != Some(k.key.as_str()) {
                            let mut t = torn.lock().unwrap();
                            if t.len() < 3 {
                                t.push(format!("snapshot with id {} carries the secret {}...", k.guid, &k.key[..8.min(k.key.len())]));
                            }
                        }
                    }
                }
            }));
        }
        w.rt.block_on(async {
            for h in hs {
                let _ = h.await;
            }
        });
        stop.store(true, Ordering::SeqCst);
        let _ = w.rt.block_on(rot);
        w.set_key(Some(K1));
    }
    for b in torn.lock().unwrap().iter() {
        res.violation("id-secret-mismatch:key-snapshot-during-rotation", b, json!({"family": "key-snapshots-during-rotation (sampled)", "tasks": 3, "iterations_per_task": snap_iters}));
    }
    res.cov("key_snapshots_during_rotation_sampled", snaps.load(Ordering::Relaxed));
    res.cov("states", schedules);
    res.cov("transitions", transitions);
    res.cov("traces_validated_against_impl", schedules);
    res.cov("schedules_per_family", json!(per_family));
    res.cov("distinct_id_secret_pairings_observed", json!(pairings));
    res.cov("exhaustive", true);
    res.cov("rule", "every interleaving of the key-actor operations of: K = [update_key(K2), clear_key, update_key(K3)] (starting from K1 latched), S1 = a proxied request (real listener, real sockets; S1k: on a kept-alive connection that already served a request under K1), S2 = WireServerClient::get_goalstate, S3 = ImdsClient::get_imds_instance_info (thorough: also all four together and two proxied requests); also with the mock rejecting the first own host call(s) with 403 (retry paths); each operation parks at the guarded scheduling point in KeyKeeperSharedState::get_key/set_key and is released one at a time; states = complete schedules, transitions = released operations; every request the mock host receives is verified from its raw bytes under the key registered for the announced id; plus a SAMPLED family: 4 free-running threads sign 30000 (120000) requests each through hyper_client::build_request with three alternating key snapshots; and a SAMPLED family: 3 free-running tasks take 15000 (60000) key snapshots each through the actor while another task rotates the key".to_string());
    res.assume("all cross-task state of the key lives in the key-keeper actor, whose handlers contain no await: the order of actor operations determines the behaviour");
    std::process::exit(res.finish());
}

fn judge(res: &mut EngineResult, fam: &[Th], reject: i64, prefix: &[usize], e: &Exec, keys: &HashMap<String, String>, pairings: &mut BTreeMap<String, u64>) {
    let mut choices: Vec<usize> = prefix.to_vec();
    choices.extend(std::iter::repeat(0).take(e.order.len().saturating_sub(prefix.len())));
    let case = json!({"threads": fam.iter().map(|t| format!("{:?}", t)).collect::<Vec<_>>(), "host_rejects_first": reject, "choices": choices, "order": e.order.iter().map(|t| format!("{:?}", t)).collect::<Vec<_>>()});
    let expected_reqs = fam.iter().filter(|t| **t != Th::K).count();
    if e.requests.len() < expected_reqs {
        res.violation("request-missing", &format!("{} of {} requests reached the host; client statuses {:?}", e.requests.len(), expected_reqs, e.client_status), case.clone());
    }
    for m in &e.requests {
        let sent: Vec<String> = m.headers.iter().map(|h| h.0.to_lowercase()).collect();
        let route = if m.target().starts_with("/s1") { "proxied" } else if m.target().contains("goalstate") { "goalstate" } else { "imds" };
        match hostcheck::verify_signature(m, keys, &sent) {
            SigVerdict::Unsigned => *pairings.entry(format!("{route}:unsigned")).or_insert(0) += 1,
            SigVerdict::Valid { guid, .. } => *pairings.entry(format!("{route}:id {} + its own secret", &guid[..1])).or_insert(0) += 1,
            SigVerdict::Bad(why) => {
                // which secret produced the MAC?
                let hv = m.header(hostcheck::AUTHZ).unwrap_or_default();
                let announced = hv.split(' ').nth(1).unwrap_or("?").to_string();
                let mut actual = "?".to_string();
                for (g, k) in keys {
                    let mut fake = m.clone();
                    for h in fake.headers.iter_mut() {
                        if h.0.eq_ignore_ascii_case(hostcheck::AUTHZ) {
                            h.1 = hv.replace(&announced, g).into_bytes();
                        }
                    }
                    if matches!(hostcheck::verify_signature(&fake, keys, &sent), SigVerdict::Valid { .. }) {
                        actual = g.clone();
                    }
                    let _ = k;
                }
                *pairings.entry(format!("{route}:id {} + secret of {}", &announced[..1], &actual[..1])).or_insert(0) += 1;
                res.violation(
                    &format!("id-secret-mismatch:{route}"),
                    &format!("{route} request announced key id {announced} but its MAC was produced with the secret of {actual} ({why})"),
                    case.clone(),
                );
            }
        }
    }
}
