//! C12: the latched key value never leaves the key store.
//! Whole agent (the real service::start_service, real loggers, real config paths) as a child
//! process inside the guest-like namespaces; the coordinator owns the mock WireServer (lock-step on
//! the status poll), drives histories of host events, restarts and faults that carry key
//! material, lets the child issue client requests, and finally scans every file the agent can write,
//! its stdout/stderr, the console and every byte returned to clients for any secret ever issued.

use gpa_harness::redirector::BpfObject;
use gpa_harness::service;
use gpa_harness::shared_state::SharedState;
use gpa_harness::verif::world::{self, audit_key, map_fd, AuditRec, RawMap};
use serde_json::{json, Value};
use std::io::{BufRead, Write};
use std::os::unix::fs::{MetadataExt, PermissionsExt};
use std::sync::{Arc, Condvar, Mutex};
use std::time::{Duration, Instant};
use vcommon::rawhttp::{build_request, simple_response, Action, Client, MockHost, Msg};
use vcommon::result::{is_thorough, EngineResult};

const KEYS_DIR: &str = "/var/lib/azure-proxy-agent/keys";
const LOG_DIR: &str = "/var/log/azure-proxy-agent";

// ------------------------------------------------------------------------------------------------ child

fn child_main() -> ! {
    // the agent with the configuration an installation ships, except a 0-second poll interval
    // (polls are gated by the coordinator's mock host)
    std::fs::write(
        "/etc/azure/proxy-agent.json",
        r#"{"logFolder":"/var/log/azure-proxy-agent","eventFolder":"/var/log/azure-proxy-agent/events","latchKeyFolder":"/var/lib/azure-proxy-agent/keys","monitorIntervalInSeconds":60,"pollKeyStatusIntervalInSeconds":0,"hostGAPluginSupport":1,"ebpfProgramName":"ebpf_cgroup.o","cgroupRoot":"/sys/fs/cgroup","fileLogLevel":"Trace"}"#,
    )
    .unwrap();
    let rt = tokio::runtime::Builder::new_multi_thread().worker_threads(2).enable_all().build().unwrap();
    let shared = rt.block_on(async {
        let shared = SharedState::start_all();
        service::start_service(shared.clone()).await;
        shared
    });
    // the kernel program cannot be attached here; give the proxy real kernel maps so that
    // attributed connections can be produced (as in the E2 world)
    std::thread::sleep(Duration::from_millis(150));
    let bpf = BpfObject::from_ebpf_file(&world::ebpf_object_path()).expect("bpf object");
    let audit = RawMap { fd: map_fd(&bpf, "audit_map"), key_size: 8, value_size: 20 };
    rt.block_on(async {
        let r = shared.get_redirector_shared_state();
        r.update_bpf_object(Arc::new(std::sync::Mutex::new(bpf))).await.unwrap();
        r.set_local_port(3080).await.unwrap();
    });
    // the provisioning machinery writes its files as in production
    let my_pid = std::process::id();
    let stdin = std::io::stdin();
    let mut port = 50000u16;
    for line in stdin.lock().lines() {
        let line = match line {
            Ok(l) => l,
            Err(_) => break,
        };
        let mut it = line.split_whitespace();
        let cmd = it.next().unwrap_or("");
        let reply_path = it.next().unwrap_or("/tmp/reply").to_string();
        port += 1;
        let raw: Option<(Vec<u8>, Option<AuditRec>)> = match cmd {
            "allowed" => Some((build_request("GET", "/metadata/instance?api-version=2021-02-01", &[("Host", b"h"), ("Metadata", b"true")], None, None), Some(AuditRec::to(world::IMDS, 0, my_pid, true)))),
            "wireserver" => Some((build_request("GET", "/machine?comp=goalstate", &[("Host", b"h"), ("x-ms-version", b"2012-11-30")], None, None), Some(AuditRec::to(world::WS, 0, my_pid, true)))),
            "denied" => Some((build_request("GET", "/machine?comp=goalstate", &[("Host", b"h")], None, None), Some(AuditRec::to(world::WS, 1001, my_pid, false)))),
            // signed requests the host itself refuses (a key the host no longer accepts, a resource it protects)
            "host-says-403" => Some((build_request("GET", "/machine?comp=refuse403", &[("Host", b"h"), ("x-ms-version", b"2012-11-30")], None, None), Some(AuditRec::to(world::WS, 0, my_pid, true)))),
            "host-says-401" => Some((build_request("POST", "/machine?comp=refuse401", &[("Host", b"h")], Some(b"<x/>"), None), Some(AuditRec::to(world::WS, 0, my_pid, true)))),
            "direct" => Some((build_request("GET", "/x", &[("Host", b"h")], None, None), None)),
            "provision" => Some((build_request("GET", "/provision", &[("Host", b"h"), ("Metadata", b"true"), ("x-ms-azure-time_tick", b"1")], None, None), None)),
            "provision-notify" => Some((build_request("GET", "/provision", &[("Host", b"h"), ("Metadata", b"true"), ("x-ms-azure-notify", b"true"), ("x-ms-azure-time_tick", b"99999999999999999999999")], None, None), None)),
            "exit" => std::process::exit(0),
            _ => None,
        };
        let mut out: Vec<u8> = Vec::new();
        if let Some((raw, rec)) = raw {
            if let Some(r) = &rec {
                let mut v = [0u8; 20];
                v[0..4].copy_from_slice(&r.uid.to_ne_bytes());
                v[4..8].copy_from_slice(&r.pid.to_ne_bytes());
                v[8..12].copy_from_slice(&r.is_root.to_ne_bytes());
                v[12..16].copy_from_slice(&r.dst_ip);
                v[16..20].copy_from_slice(&((r.dst_port.to_be() as u32).to_ne_bytes()));
                audit.update(&audit_key(port), &v);
            }
            match vcommon::rawhttp::connect_from([127, 0, 0, 1], Some(port), world::PROXY.parse().unwrap()) {
                Ok(s) => {
                    let mut c = Client::new(s);
                    let _ = c.send(&raw);
                    match c.read_response(false, Duration::from_secs(10)) {
                        Ok(m) => {
                            out.extend_from_slice(&m.raw_head);
                            out.extend_from_slice(&m.body);
                        }
                        Err(e) => out.extend_from_slice(format!("ERR {e}").as_bytes()),
                    }
                    c.close();
                }
                Err(e) => out.extend_from_slice(format!("ERR connect {e}").as_bytes()),
            }
        }
        let tmp = format!("{reply_path}.tmp");
        std::fs::write(&tmp, &out).unwrap();
        std::fs::rename(&tmp, &reply_path).unwrap();
    }
    std::process::exit(0)
}

// ------------------------------------------------------------------------------------------------ coordinator

#[derive(Clone, Copy, Debug, PartialEq, Eq, Hash)]
enum Ev {
    Enable,
    Disable,
    Rotate,
    Noop,
    Restart,
    /// acquire answered with the real key but a body the agent cannot use
    AcquireMissingField,
    AcquireTrailingGarbage,
    AcquireNonHexKey,
    /// a well-formed hex key of an unusual size (128 bit / 512 bit)
    AcquireShortHexKey,
    AcquireLongHexKey,
    Acquire500WithKeyInBody,
    StatusMalformed,
    Attest500,
    /// environment: somebody removes the key directory while the agent runs (a clean-up job, an operator)
    KeyDirRemoved,
    /// environment: the stored key files are damaged but still contain the key (bytes appended after the document /
    /// the closing brace lost to a torn write); what the agent says about them on its next start is searched too
    KeyFilesGarbageAppended,
    KeyFilesLastByteLost,
}

struct Host {
    enabled: bool,
    latched: Option<usize>,
    issued: Vec<String>, // secrets
    fault: Option<Ev>,
    hist_tag: u64,
    acl_problems: Vec<String>,
    /// the key directory was removed by the environment in this history
    dir_removed: bool,
    /// the environment refuses chown on the key directory (no CAP_CHOWN): its owner cannot be demanded
    chown_fails: bool,
}

struct Gate {
    parked: bool,
    permits: usize,
    shutdown: bool,
}

struct Shared {
    host: Mutex<Host>,
    gate: Mutex<Gate>,
    cv: Condvar,
}

fn guid_of(tag: u64, i: usize) -> String {
    format!("{:08x}-0000-4000-8000-{:012x}", tag as u32, i)
}
fn secret_of(tag: u64, i: usize) -> String {
    vcommon::sha::hex(&vcommon::sha::sha256(format!("c12-secret-{tag}-{i}").as_bytes()))
}

fn start_host(sh: Arc<Shared>) -> MockHost {
    let h = MockHost::start("wireserver", world::WS).unwrap_or_else(|e| vcommon::result::machinery(&format!("bind {}: {e}", world::WS)));
    h.set_responder(Arc::new(move |m: &Msg, _c, _i| {
        let t = m.target().to_string();
        if t.starts_with("/secure-channel/status") {
            let mut g = sh.gate.lock().unwrap();
            g.parked = true;
            sh.cv.notify_all();
            while g.permits == 0 && !g.shutdown {
                g = sh.cv.wait(g).unwrap();
            }
            if g.shutdown {
                g.parked = false;
                return Action::Reset;
            }
            g.permits -= 1;
            g.parked = false;
            drop(g);
            let mut host = sh.host.lock().unwrap();
            let mut d = json!({"authorizationScheme": "Azure-HMAC-SHA256", "keyDeliveryMethod": "http", "keyGuid": host.latched.map(|i| guid_of(host.hist_tag, i)), "secureChannelState": if host.enabled { "Wireserver" } else { "Disabled" }, "version": "1.0"});
            if host.fault == Some(Ev::StatusMalformed) {
                host.fault = None;
                // a status document that does not validate (no key material: a status document never carries the key)
                d["keyDeliveryMethod"] = json!("bogus");
                d.as_object_mut().unwrap().remove("secureChannelState");
            }
            Action::Reply(vec![simple_response(200, &[("Content-Type", "application/json")], d.to_string().as_bytes())])
        } else if t == "/secure-channel/key" {
            // the key directory must be restricted before the first key file is created in it
            {
                let mut host = sh.host.lock().unwrap();
                match std::fs::metadata(KEYS_DIR) {
                    Ok(md) => {
                        let has_key_file = std::fs::read_dir(KEYS_DIR).map(|rd| rd.flatten().any(|e| e.file_name().to_string_lossy().ends_with(".key"))).unwrap_or(false);
                        if !has_key_file && (md.permissions().mode() & 0o777 != 0o700 || (md.uid() != 0 && !host.chown_fails)) {
                            host.acl_problems.push(format!("key directory has mode {:o} owner {} when the first key is handed out", md.permissions().mode() & 0o777, md.uid()));
                        }
                    }
                    Err(_) if host.dir_removed => {} // nothing can be stored; what the agent creates afterwards is checked after the poll
                    Err(_) => host.acl_problems.push("key directory does not exist when the first key is handed out".into()),
                }
            }
            let mut host = sh.host.lock().unwrap();
            let i = host.issued.len();
            let secret = secret_of(host.hist_tag, i);
            host.issued.push(secret.clone());
            let guid = guid_of(host.hist_tag, i);
            let good = json!({"authorizationScheme": "Azure-HMAC-SHA256", "guid": guid, "issued": "2026-01-01T00:00:00Z", "key": secret, "incarnationId": 1});
            let f = host.fault.take();
            match f {
                Some(Ev::AcquireMissingField) => {
                    let mut d = good.clone();
                    d.as_object_mut().unwrap().remove("issued");
                    Action::Reply(vec![simple_response(200, &[("Content-Type", "application/json")], d.to_string().as_bytes())])
                }
                Some(Ev::AcquireTrailingGarbage) => Action::Reply(vec![simple_response(200, &[("Content-Type", "application/json")], format!("{} trailing", good).as_bytes())]),
                Some(Ev::AcquireNonHexKey) => {
                    let mut d = good.clone();
                    d["key"] = json!(format!("ZZ{}", &secret[2..]));
                    host.issued.push(format!("ZZ{}", &secret[2..]));
                    Action::Reply(vec![simple_response(200, &[("Content-Type", "application/json")], d.to_string().as_bytes())])
                }
                Some(e @ (Ev::AcquireShortHexKey | Ev::AcquireLongHexKey)) => {
                    let k = if e == Ev::AcquireShortHexKey { secret[..32].to_string() } else { format!("{}{}", secret, secret_of(host.hist_tag, i + 1000)) };
                    let mut d = good.clone();
                    d["key"] = json!(k);
                    host.issued.push(k);
                    Action::Reply(vec![simple_response(200, &[("Content-Type", "application/json")], d.to_string().as_bytes())])
                }
                Some(Ev::Acquire500WithKeyInBody) => Action::Reply(vec![simple_response(500, &[("Content-Type", "application/json")], good.to_string().as_bytes())]),
                other => {
                    host.fault = other;
                    Action::Reply(vec![simple_response(200, &[("Content-Type", "application/json")], good.to_string().as_bytes())])
                }
            }
        } else if t.ends_with("/key-attestation") {
            let mut host = sh.host.lock().unwrap();
            if host.fault == Some(Ev::Attest500) {
                host.fault = None;
                return Action::Reply(vec![simple_response(500, &[], b"attest failed")]);
            }
            let guid = t.trim_start_matches("/secure-channel/key/").trim_end_matches("/key-attestation").to_string();
            let tag = host.hist_tag;
            if let Some(i) = (0..host.issued.len()).find(|i| guid_of(tag, *i) == guid) {
                host.latched = Some(i);
            }
            Action::Reply(vec![simple_response(200, &[], b"")])
        } else if t.contains("refuse403") {
            Action::Reply(vec![simple_response(403, &[], b"forbidden")])
        } else if t.contains("refuse401") {
            Action::Reply(vec![simple_response(401, &[], b"unauthorized")])
        } else {
            Action::Reply(vec![simple_response(200, &[("Content-Type", "text/xml")], b"<GoalState></GoalState>")])
        }
    }));
    h
}

struct Child {
    proc_: std::process::Child,
    n: u64,
    run_dir: String,
}

impl Child {
    /// `slow_acl`: the environment answers every chown/chmod on the key directory 0.7 s late (strace delay injection
    /// on exactly those calls); the order "directory restricted, then first key requested" must not depend on their speed
    fn spawn(run_dir: &str, seg: usize, slow_acl: bool) -> Child {
        Self::spawn_env(run_dir, seg, slow_acl, false)
    }
    /// `chown_fails`: every chown on the key directory is refused with EPERM (an agent without CAP_CHOWN, as the shipped
    /// unit file arranges, on a directory somebody else owns)
    fn spawn_env(run_dir: &str, seg: usize, slow_acl: bool, chown_fails: bool) -> Child {
        use std::os::unix::process::CommandExt;
        let exe = std::env::current_exe().unwrap();
        let out = std::fs::File::create(format!("{run_dir}/child{seg}.stdout")).unwrap();
        let err = std::fs::File::create(format!("{run_dir}/child{seg}.stderr")).unwrap();
        let mut cmd;
        if chown_fails {
            cmd = std::process::Command::new("strace");
            cmd.args(["-f", "-qq", "-e", "trace=chown,lchown,fchownat", "-e", "inject=chown,lchown,fchownat:error=EPERM", "-P", KEYS_DIR, "-o", "/dev/null"]);
            cmd.arg(exe);
        } else if slow_acl {
            cmd = std::process::Command::new("strace");
            cmd.args(["-f", "-qq", "-e", "trace=chown,lchown,fchownat,chmod,fchmodat", "-e", "inject=chown,lchown,fchownat,chmod,fchmodat:delay_enter=700000", "-P", KEYS_DIR, "-o", "/dev/null"]);
            cmd.arg(exe);
        } else {
            cmd = std::process::Command::new(exe);
        }
        cmd.process_group(0);
        let p = cmd.env("VERIF_C12_CHILD", "1").stdin(std::process::Stdio::piped()).stdout(out).stderr(err).spawn().unwrap_or_else(|e| vcommon::result::machinery(&format!("spawn: {e}")));
        Child { proc_: p, n: 0, run_dir: run_dir.to_string() }
    }
    fn request(&mut self, kind: &str) -> Vec<u8> {
        self.n += 1;
        let path = format!("{}/reply.{}.{}", self.run_dir, self.proc_.id(), self.n);
        let _ = writeln!(self.proc_.stdin.as_mut().unwrap(), "{kind} {path}");
        let _ = self.proc_.stdin.as_mut().unwrap().flush();
        let t = Instant::now();
        loop {
            if let Ok(b) = std::fs::read(&path) {
                return b;
            }
            if t.elapsed() > Duration::from_secs(15) {
                return b"ERR no reply from child".to_vec();
            }
            std::thread::sleep(Duration::from_millis(1));
        }
    }
    fn kill(mut self) {
        // the whole group: a tracee survives the death of its tracer
        unsafe {
            libc::kill(-(self.proc_.id() as i32), libc::SIGKILL);
        }
        let _ = self.proc_.kill();
        let _ = self.proc_.wait();
    }
}

fn wait_parked(sh: &Shared, secs: u64) -> bool {
    let mut g = sh.gate.lock().unwrap();
    let t = Instant::now();
    while !g.parked {
        let (ng, _) = sh.cv.wait_timeout(g, Duration::from_millis(100)).unwrap();
        g = ng;
        if t.elapsed() > Duration::from_secs(secs) {
            return false;
        }
    }
    true
}

fn scan_tree(root: &str, secrets: &[String], hits: &mut Vec<(String, String)>, skip_key_files: bool) {
    let mut stack = vec![std::path::PathBuf::from(root)];
    while let Some(p) = stack.pop() {
        let md = match std::fs::symlink_metadata(&p) {
            Ok(m) => m,
            Err(_) => continue,
        };
        if md.is_dir() {
            if let Ok(rd) = std::fs::read_dir(&p) {
                for e in rd.flatten() {
                    stack.push(e.path());
                }
            }
        } else if md.is_file() {
            let name = p.file_name().unwrap().to_string_lossy().to_string();
            // (the key store is the directory the configured folder resolves to)
            let in_key_store = p.parent().map(|d| d == std::path::Path::new(KEYS_DIR) || (std::fs::canonicalize(d).ok().is_some() && std::fs::canonicalize(d).ok() == std::fs::canonicalize(KEYS_DIR).ok())).unwrap_or(false);
            if skip_key_files && in_key_store && (name.ends_with(".key") || name.ends_with(".tmp")) {
                continue;
            }
            if let Ok(data) = std::fs::read(&p) {
                scan_bytes(&data, secrets, &p.to_string_lossy(), hits);
            }
        }
    }
}

fn scan_bytes(data: &[u8], secrets: &[String], place: &str, hits: &mut Vec<(String, String)>) {
    let text = String::from_utf8_lossy(data).to_lowercase();
    for s in secrets {
        let l = s.to_lowercase();
        let raw = vcommon::sha::unhex(s);
        let found = text.contains(&l) || raw.map_or(false, |r| r.len() >= 16 && data.windows(r.len()).any(|w| w == r.as_slice()));
        if found {
            let cls = if place.contains("/keys/") {
                "key-dir-other-file"
            } else if place.ends_with(".stdout") || place.ends_with(".stderr") {
                "stdout-stderr"
            } else if place.contains("console") {
                "console"
            } else if place.contains("/events/") {
                "event-file"
            } else if place.contains("status.json") {
                "status-file"
            } else if place.contains("AuthorizationRules") {
                "rule-dump"
            } else if place.starts_with("/tmp") || place.starts_with("/var/tmp") || place.starts_with("/dev/shm") || place.starts_with("/run") {
                "scratch-directory"
            } else if place.starts_with("client-response") {
                "client-response"
            } else {
                "log-file"
            };
            // which line carries it (for the report)
            let line = text.lines().find(|ln| ln.contains(&l)).unwrap_or("").chars().take(240).collect::<String>().replace(&l, "<SECRET>");
            hits.push((cls.to_string(), format!("{place}: {line}")));
        }
    }
}

/// key files only ever sit in a root-owned directory of mode 0700
fn key_dir_check(res: &mut EngineResult, case: &Value, when: &str) {
    if let Ok(md) = std::fs::metadata(KEYS_DIR) {
        let has_key = std::fs::read_dir(KEYS_DIR).map(|rd| rd.flatten().any(|e| e.file_name().to_string_lossy().ends_with(".key"))).unwrap_or(false);
        let chown_fails = case["key_dir_prestate"].as_u64().unwrap_or(0) & 4 != 0;
        if has_key && (md.permissions().mode() & 0o777 != 0o700 || (md.uid() != 0 && !chown_fails)) {
            res.violation("key-dir-mode", &format!("{when}: the key directory holding key files has mode {:o} owner {}", md.permissions().mode() & 0o777, md.uid()), case.clone());
        }
    }
}

fn clean_state() {
    if std::fs::symlink_metadata(KEYS_DIR).map(|m| m.file_type().is_symlink()).unwrap_or(false) {
        let _ = std::fs::remove_file(KEYS_DIR);
    }
    for d in [KEYS_DIR, LOG_DIR, "/var/lib/azure-proxy-agent/keys-real"] {
        let _ = std::fs::remove_dir_all(d);
    }
    for d in ["/tmp", "/var/tmp", "/dev/shm"] {
        if let Ok(rd) = std::fs::read_dir(d) {
            for e in rd.flatten() {
                let _ = if e.path().is_dir() { std::fs::remove_dir_all(e.path()) } else { std::fs::remove_file(e.path()) };
            }
        }
    }
    let _ = std::fs::create_dir_all(LOG_DIR);
    let _ = std::fs::write("/mnt/console", b"");
}

fn main() {
    if std::env::var("VERIF_C12_CHILD").is_ok() {
        child_main();
    }
    let thorough = is_thorough();
    let mut res = EngineResult::new("C12");
    let run_dir = format!("{}/run/c12-{}", std::env::var("VERIF_TARGET").unwrap_or("/verif/target".into()), std::process::id());
    let _ = std::fs::remove_dir_all(&run_dir);
    std::fs::create_dir_all(&run_dir).unwrap();
    let sh = Arc::new(Shared { host: Mutex::new(Host { enabled: false, latched: None, issued: vec![], fault: None, hist_tag: 0, acl_problems: vec![], dir_removed: false, chown_fails: false }), gate: Mutex::new(Gate { parked: false, permits: 0, shutdown: false }), cv: Condvar::new() });
    let host = start_host(sh.clone());

    // histories
    let base: Vec<Vec<Ev>> = vec![
        vec![Ev::Enable, Ev::Noop],
        vec![Ev::Enable, Ev::Rotate, Ev::Noop],
        vec![Ev::Enable, Ev::Disable, Ev::Enable],
        vec![Ev::Enable, Ev::Restart, Ev::Noop],
        vec![Ev::Enable, Ev::Restart, Ev::Rotate],
        vec![Ev::Disable, Ev::Enable, Ev::Restart],
    ];
    let faults = [Ev::AcquireMissingField, Ev::AcquireTrailingGarbage, Ev::AcquireNonHexKey, Ev::AcquireShortHexKey, Ev::AcquireLongHexKey, Ev::Acquire500WithKeyInBody, Ev::StatusMalformed, Ev::Attest500];
    let mut histories: Vec<(Vec<Ev>, u32)> = Vec::new(); // (events, key dir pre-state: bit 0 = left-over 0755 dir (else absent), bit 1 = chown/chmod on the key directory answer 0.7 s late, bit 2 = the directory belongs to another user and chown on it fails with EPERM, bit 3 = the configured folder is a symbolic link to a 0755 directory)
    for b in &base {
        histories.push((b.clone(), 0));
    }
    histories.push((vec![Ev::Enable, Ev::Noop], 1));
    histories.push((vec![Ev::Enable, Ev::Noop], 2));
    histories.push((vec![Ev::Enable, Ev::Restart, Ev::Rotate], 3));
    histories.push((vec![Ev::Enable, Ev::Noop], 8));
    histories.push((vec![Ev::Enable, Ev::Restart, Ev::Rotate], 8));
    histories.push((vec![Ev::Enable, Ev::Noop], 5));
    histories.push((vec![Ev::Enable, Ev::Restart, Ev::Rotate], 5));
    histories.push((vec![Ev::Enable, Ev::KeyDirRemoved, Ev::Rotate, Ev::Noop], 0));
    histories.push((vec![Ev::KeyDirRemoved, Ev::Enable, Ev::Noop], 0));
    histories.push((vec![Ev::Enable, Ev::KeyDirRemoved, Ev::Noop, Ev::Rotate], 0));
    histories.push((vec![Ev::Enable, Ev::KeyFilesGarbageAppended, Ev::Restart, Ev::Noop], 0));
    histories.push((vec![Ev::Enable, Ev::KeyFilesLastByteLost, Ev::Restart, Ev::Noop], 0));
    histories.push((vec![Ev::Enable, Ev::KeyFilesLastByteLost, Ev::Noop, Ev::Rotate], 0));
    for f in faults {
        histories.push((vec![f, Ev::Enable, Ev::Noop], 0));
        histories.push((vec![Ev::Enable, f, Ev::Rotate, Ev::Noop], 0));
        if thorough {
            histories.push((vec![Ev::Enable, Ev::Restart, f, Ev::Rotate], 0));
            histories.push((vec![f, Ev::Enable, f, Ev::Rotate, Ev::Noop], 1));
        }
    }
    if thorough {
        let evs = [Ev::Enable, Ev::Disable, Ev::Rotate, Ev::Restart];
        for seq in vcommon::explore::sequences(4, 4) {
            histories.push((seq.iter().map(|&i| evs[i]).collect(), 0));
        }
    }
    if let Ok(path) = std::env::var("VERIF_REPLAY") {
        let doc: Value = serde_json::from_str(&std::fs::read_to_string(path).unwrap()).unwrap();
        let want: Vec<String> = doc["case"]["history"].as_array().unwrap().iter().map(|v| v.as_str().unwrap().to_string()).collect();
        histories.retain(|h| h.0.iter().map(|e| format!("{:?}", e)).collect::<Vec<_>>() == want && json!(h.1) == doc["case"]["key_dir_prestate"]);
    }

    let client_kinds = ["allowed", "wireserver", "denied", "direct", "provision", "provision-notify", "host-says-403", "host-says-401"];
    let mut evals = 0u64;
    let mut nontrivial = std::collections::BTreeSet::new();
    let mut keys_issued_total = 0u64;
    for (hi, (hist, pre)) in histories.iter().enumerate() {
        clean_state();
        let slow_acl = *pre & 2 != 0;
        if *pre & 8 != 0 {
            // the configured key folder is a symbolic link to a directory on another volume (relocated), mode 0755
            let real = "/var/lib/azure-proxy-agent/keys-real";
            std::fs::create_dir_all(real).unwrap();
            std::fs::set_permissions(real, std::fs::Permissions::from_mode(0o755)).unwrap();
            std::os::unix::fs::symlink(real, KEYS_DIR).unwrap();
        }
        if *pre & 4 != 0 {
            std::fs::create_dir_all(KEYS_DIR).unwrap();
            std::os::unix::fs::chown(KEYS_DIR, Some(12345), Some(12345)).unwrap();
        }
        if *pre & 1 == 1 {
            std::fs::create_dir_all(KEYS_DIR).unwrap();
            std::fs::set_permissions(KEYS_DIR, std::fs::Permissions::from_mode(0o755)).unwrap();
        }
        {
            let mut h = sh.host.lock().unwrap();
            *h = Host { enabled: false, latched: None, issued: vec![], fault: None, hist_tag: 0xC1200000 + hi as u64, acl_problems: vec![], dir_removed: false, chown_fails: *pre & 4 != 0 };
        }
        let case = json!({"history": hist.iter().map(|e| format!("{:?}", e)).collect::<Vec<_>>(), "key_dir_prestate": pre});
        let mut seg = 0usize;
        let mut child = Child::spawn_env(&run_dir, seg, slow_acl, *pre & 4 != 0);
        let mut responses: Vec<(String, Vec<u8>)> = Vec::new();
        let mut machinery_fail = false;
        if !wait_parked(&sh, 20) {
            vcommon::result::machinery("agent child never polled the status endpoint");
        }
        for e in hist {
            match e {
                Ev::Restart => {
                    // stop the agent process (the mock host and the disks survive) and start a new one
                    {
                        let mut g = sh.gate.lock().unwrap();
                        g.shutdown = true;
                        sh.cv.notify_all();
                    }
                    child.kill();
                    let t = Instant::now();
                    while host.open_connections() > 0 && t.elapsed() < Duration::from_secs(5) {
                        sh.cv.notify_all();
                        std::thread::sleep(Duration::from_millis(1));
                    }
                    {
                        let mut g = sh.gate.lock().unwrap();
                        g.shutdown = false;
                        g.parked = false;
                        g.permits = 0;
                    }
                    seg += 1;
                    child = Child::spawn_env(&run_dir, seg, slow_acl, *pre & 4 != 0);
                    if !wait_parked(&sh, 20) {
                        machinery_fail = true;
                        break;
                    }
                    continue;
                }
                Ev::Enable => sh.host.lock().unwrap().enabled = true,
                Ev::Disable => sh.host.lock().unwrap().enabled = false,
                Ev::Rotate => sh.host.lock().unwrap().latched = None,
                Ev::Noop => {}
                Ev::KeyDirRemoved => {
                    let _ = std::fs::remove_dir_all(KEYS_DIR);
                    sh.host.lock().unwrap().dir_removed = true;
                }
                Ev::KeyFilesGarbageAppended | Ev::KeyFilesLastByteLost => {
                    if let Ok(rd) = std::fs::read_dir(KEYS_DIR) {
                        for f in rd.flatten().filter(|f| f.file_name().to_string_lossy().ends_with(".key")) {
                            if let Ok(mut d) = std::fs::read(f.path()) {
                                if matches!(e, Ev::KeyFilesGarbageAppended) {
                                    d.extend_from_slice(b"\0\0\0\0 trailing");
                                } else {
                                    while d.last().map_or(false, |b| b.is_ascii_whitespace()) {
                                        d.pop();
                                    }
                                    d.pop(); // the closing brace
                                }
                                let _ = std::fs::write(f.path(), d);
                            }
                        }
                    }
                }
                f => sh.host.lock().unwrap().fault = Some(*f),
            }
            // one agent poll
            {
                let mut g = sh.gate.lock().unwrap();
                g.permits += 1;
                g.parked = false;
                sh.cv.notify_all();
            }
            if !wait_parked(&sh, 20) {
                res.violation("key-keeper-stopped-polling", &format!("after {:?} the agent did not poll again", e), case.clone());
                break;
            }
            evals += 1;
            key_dir_check(&mut res, &case, &format!("after the poll that followed {:?}", e));
            for k in client_kinds {
                let r = child.request(k);
                responses.push((k.to_string(), r));
            }
        }
        if machinery_fail {
            vcommon::result::machinery("restarted agent child never polled");
        }
        // let the status task / loggers flush
        std::thread::sleep(Duration::from_millis(120));
        {
            let mut g = sh.gate.lock().unwrap();
            g.shutdown = true;
            sh.cv.notify_all();
        }
        child.kill();
        let t = Instant::now();
        while host.open_connections() > 0 && t.elapsed() < Duration::from_secs(5) {
            sh.cv.notify_all();
            std::thread::sleep(Duration::from_millis(1));
        }
        host.truncate_log();
        {
            let mut g = sh.gate.lock().unwrap();
            g.shutdown = false;
            g.parked = false;
            g.permits = 0;
        }
        // ---- scan
        let (secrets, acl_problems) = {
            let h = sh.host.lock().unwrap();
            (h.issued.clone(), h.acl_problems.clone())
        };
        keys_issued_total += secrets.len() as u64;
        if !secrets.is_empty() {
            nontrivial.insert(case.to_string());
        }
        let mut hits: Vec<(String, String)> = Vec::new();
        scan_tree(LOG_DIR, &secrets, &mut hits, false);
        scan_tree("/var/lib/azure-proxy-agent", &secrets, &mut hits, true);
        // world-readable scratch locations (the namespace's own): nothing carrying a key may be left there
        for d in ["/tmp", "/var/tmp", "/dev/shm", "/run"] {
            scan_tree(d, &secrets, &mut hits, false);
        }
        for s in 0..=seg {
            for suffix in ["stdout", "stderr"] {
                if let Ok(d) = std::fs::read(format!("{run_dir}/child{s}.{suffix}")) {
                    scan_bytes(&d, &secrets, &format!("child{s}.{suffix}"), &mut hits);
                }
            }
        }
        if let Ok(d) = std::fs::read("/mnt/console") {
            scan_bytes(&d, &secrets, "/dev/console", &mut hits);
        }
        for (k, r) in &responses {
            scan_bytes(r, &secrets, &format!("client-response:{k}"), &mut hits);
        }
        let mut fault_in_hist: Vec<String> = hist.iter().filter(|e| faults.contains(e)).map(|e| format!("{:?}", e)).collect();
        fault_in_hist.dedup(); // the same one-shot fault twice in a history is one class of history
        for (cls, what) in hits {
            let sig = format!("secret-in:{}:{}", cls, if fault_in_hist.is_empty() { "no-fault".to_string() } else { fault_in_hist.join("+") });
            res.violation(&sig, &format!("a key value issued by the host was found outside the key store: {what}"), case.clone());
        }
        for p in acl_problems {
            res.violation("key-dir-not-restricted-before-first-key", &p, case.clone());
        }
        // the key files themselves: inside a 0700 root-owned directory
        key_dir_check(&mut res, &case, "at the end of the history");
        if hi < 2 {
            res.sample(json!({"case": case, "keys_issued": secrets.len(), "client_requests": responses.len()}));
        }
        for f in std::fs::read_dir(&run_dir).unwrap().flatten() {
            let _ = std::fs::remove_file(f.path());
        }
    }
    let _ = std::fs::remove_dir_all(&run_dir);
    res.cov("evaluations", evals);
    res.cov("distinct_nontrivial", nontrivial.len() as u64);
    res.cov("histories", histories.len() as u64);
    res.cov("keys_issued", keys_issued_total);
    res.cov("exhaustive", true);
    res.cov("rule", "histories of host events over {enable, disable, rotate, no-op poll, agent restart} and one-shot faults that carry key material (acquire answered with the key but a missing field / trailing garbage / a non-hex key / a well-formed hex key of 128 or 512 bits, 500 with the key in the body, a status document that fails validation, attest 500), with the key directory absent or left over with mode 0755, with chown/chmod on the key directory answering 0.7 s late (strace delay injection), or with the directory owned by another user and chown refused with EPERM, or with the configured folder being a symbolic link to a 0755 directory, or removed by the environment while the agent runs (before the first latch / before a rotation), or with the stored key files damaged but still containing the key (bytes appended / closing brace lost) before a restart; the whole agent (real start_service, loggers at Trace, production paths) runs as a child process in lock-step with the mock host; after every poll eight client requests (allowed IMDS, WireServer, denied, direct, /provision, /provision with notify, two signed requests the host answers with 403 / 401); afterwards every file under the log/event/status/key directories (key files excepted) and under /tmp, /var/tmp, /dev/shm, /run, stdout/stderr, /dev/console and all client responses are searched for every secret issued (hex any case, raw bytes); non-trivial = history in which a key was issued".to_string());
    res.assume("the kernel program is not attached (no kprobes here); the child installs real kernel maps for attribution like the E2 world");
    std::process::exit(res.finish());
}
