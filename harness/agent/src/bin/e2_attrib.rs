//! C07: attribution is single-use. Explicit-state search over connection histories on the real
//! proxy (E2 world): open(port, record) / request(conn) / close(conn), breadth first with
//! canonical-state deduplication; every transition is executed on the real code (histories are
//! replayed from a clean state), every step is compared with a reference model.

use gpa_harness::verif::policy::Policy;
use gpa_harness::verif::world::{self, AuditRec, World, WorldOpts, HOSTGA, IMDS, OTHER, WS};
use serde_json::{json, Value};
use std::collections::{BTreeMap, HashSet, VecDeque};
use std::time::{Duration, Instant};
use vcommon::rawhttp::{build_request, Client, Event};
use vcommon::result::{is_thorough, EngineResult};

const PORTS: [u16; 2] = [41001, 41002];
const SENTINEL_PORT: u16 = 41900;

#[derive(Clone, Copy, Debug, PartialEq, Eq, Hash, PartialOrd, Ord)]
enum Ident {
    None,
    Alice,
    Bob,
    Root,
    /// elevated caller whose destination never answers the TCP handshake (the proxy's upstream connect stays
    /// pending): only open and close are explored on such a connection
    Slow,
}

/// a listening socket whose accept queue is full and never drained: SYNs to it go unanswered
const BLACKHOLE: &str = "168.63.129.16:8099";

#[derive(Clone, Copy, Debug, PartialEq, Eq, Hash)]
enum Op {
    Open(usize, Ident),
    Request(usize),
    Close(usize),
}

fn op_json(o: &Op) -> Value {
    match o {
        Op::Open(p, i) => json!({"open": PORTS[*p], "record": format!("{:?}", i)}),
        Op::Request(p) => json!({"request_on": PORTS[*p]}),
        Op::Close(p) => json!({"close": PORTS[*p]}),
    }
}

/// reference model state: per port, the identity of the open connection (if any)
type Model = [Option<Ident>; 2];

struct Ctx<'a> {
    w: &'a World,
    alice_pid: u32,
    bob_pid: u32,
    root_pid: u32,
}

impl<'a> Ctx<'a> {
    fn rec(&self, i: Ident) -> Option<AuditRec> {
        match i {
            Ident::None => None,
            Ident::Alice => Some(AuditRec::to(IMDS, 1001, self.alice_pid, false)),
            Ident::Bob => Some(AuditRec::to(IMDS, 1002, self.bob_pid, false)),
            // the same process id as alice, another user: a daemon that drops privileges keeps its pid
            Ident::Root => Some(AuditRec::to(WS, 0, self.alice_pid, true)),
            Ident::Slow => Some(AuditRec::to(BLACKHOLE, 0, self.root_pid, true)),
        }
    }
    /// a full request/response on a separate attributed connection: when it has been answered,
    /// every connection accepted before it has finished looking up its record (single-threaded
    /// subject runtime, FIFO actors)
    fn sentinel(&self) -> Result<(), String> {
        let rec = AuditRec::to(OTHER, 0, self.root_pid, true);
        let mut c = self.w.connect(Some(SENTINEL_PORT), Some(&rec)).map_err(|e| format!("sentinel connect: {e}"))?;
        c.send(&build_request("GET", "/sentinel", &[("Host", b"s")], None, None)).map_err(|e| e.to_string())?;
        let r = c.read_response(false, Duration::from_secs(10)).map(|m| m.status());
        c.close();
        match r {
            Ok(200) => Ok(()),
            other => Err(format!("sentinel got {:?}", other)),
        }
    }
    fn wait_consumed(&self, port: u16, ms: u64) -> bool {
        let t = Instant::now();
        loop {
            if !self.w.audit_present(port) {
                return true;
            }
            if t.elapsed() > Duration::from_millis(ms) {
                return false;
            }
            std::thread::sleep(Duration::from_micros(200));
        }
    }
}

struct StepObs {
    problems: Vec<(String, String)>,
}

/// run one history from a clean state; returns (per-step problems, final canonical state)
fn run_history(cx: &Ctx, hist: &[Op]) -> (Vec<StepObs>, String) {
    cx.w.clear_audit();
    let mut conns: [Option<Client>; 2] = [None, None];
    let mut model: Model = [None, None];
    let mut out = Vec::new();
    for op in hist {
        let mut problems = Vec::new();
        match *op {
            Op::Open(p, ident) => {
                let rec = cx.rec(ident);
                match cx.w.connect(Some(PORTS[p]), rec.as_ref()) {
                    Ok(c) => conns[p] = Some(c),
                    Err(e) => vcommon::result::machinery(&format!("cannot open connection from port {}: {e}", PORTS[p])),
                }
                model[p] = Some(ident);
                if let Err(e) = cx.sentinel() {
                    // an attributed connection that the proxy accepted and dropped without answering: if its kernel record
                    // is still in the map, the proxy let a connection go without consuming its record (anything that later
                    // connects from that port would inherit it); otherwise the harness lost its footing
                    if e.contains("Ok(421)") {
                        // the sentinel's own fresh kernel record was written right before it connected: being told "no record"
                        // means something else took that record away (or the lookup used another connection's key)
                        problems.push(("attributed-connection-treated-as-unattributed".into(), format!("a connection whose kernel record (source port {SENTINEL_PORT}) had just been written was answered 421 (no record): the record was consumed by something other than this connection's accept")));
                        cx.w.clear_audit();
                        out.push(StepObs { problems });
                        return (out, "aborted".into());
                    }
                    if cx.w.audit_present(SENTINEL_PORT) {
                        problems.push(("record-not-consumed-at-accept:connection-dropped".into(), format!("an attributed connection was accepted and dropped without an answer ({e}) and its kernel record (source port {SENTINEL_PORT}) is still in the audit map")));
                        cx.w.clear_audit();
                        out.push(StepObs { problems });
                        return (out, "aborted".into());
                    }
                    vcommon::result::machinery(&e);
                }
                // the record is consumed when the connection is accepted
                if rec.is_some() && !cx.wait_consumed(PORTS[p], 1500) {
                    problems.push(("record-not-consumed-at-accept".into(), format!("the kernel record for source port {} is still in the audit map after the connection was accepted", PORTS[p])));
                }
            }
            Op::Request(p) => {
                let ident = model[p].expect("request on closed conn");
                let cur = cx.w.hosts.cursors();
                let c = conns[p].as_mut().unwrap();
                let st = c
                    .send(&build_request("GET", "/a/x", &[("Host", b"h"), ("Metadata", b"true")], None, None))
                    .map_err(|e| e.to_string())
                    .and_then(|_| c.read_response(false, Duration::from_secs(10)).map(|m| m.status()));
                let hosts = cx.w.hosts.all();
                let mut seen: Vec<(usize, String)> = Vec::new(); // (host idx, claims)
                let mut bytes = 0usize;
                for (i, h) in hosts.iter().enumerate() {
                    for e in h.since(cur[i]) {
                        match e {
                            Event::Bytes { n, .. } => bytes += n,
                            Event::Request { req, .. } => seen.push((i, req.header("x-ms-azure-host-claims").unwrap_or_default())),
                            _ => {}
                        }
                    }
                }
                // expected: IMDS rules = enforce, grant /a to alice only
                let (want_status, want_host, want_claims): (u16, Option<usize>, &str) = match ident {
                    Ident::None => (421, None, ""),
                    Ident::Alice => (200, Some(2), "{ \"isRoot\": \"false\"}"),
                    Ident::Bob => (403, None, ""),
                    Ident::Root => (200, Some(0), "{ \"isRoot\": \"true\"}"),
                    Ident::Slow => unreachable!("no request is explored on a connection whose upstream never connects"),
                };
                let ok = st == Ok(want_status)
                    && match want_host {
                        None => bytes == 0 && seen.is_empty(),
                        Some(h) => seen.len() == 1 && seen[0].0 == h && seen[0].1 == want_claims,
                    };
                if !ok {
                    let kind = if ident == Ident::None && (st == Ok(200) || bytes > 0) {
                        "unattributed-connection-served-with-an-identity"
                    } else if ident != Ident::None && st == Ok(421) {
                        "attributed-connection-lost-its-identity"
                    } else {
                        "request-evaluated-with-wrong-identity"
                    };
                    problems.push((kind.into(), format!("connection from port {} with identity {:?}: status {:?}, upstream {:?} ({} bytes); expected status {} host {:?}", PORTS[p], ident, st, seen, bytes, want_status, want_host)));
                }
            }
            Op::Close(p) => {
                if let Some(c) = conns[p].take() {
                    c.close();
                }
                model[p] = None;
                // let the proxy notice the reset before the port is reused
                let _ = cx.sentinel();
            }
        }
        // invariant after every step: no record is left for any of the ports
        for (pi, port) in PORTS.iter().enumerate() {
            if cx.w.audit_present(*port) && !problems.iter().any(|p| p.0 == "record-not-consumed-at-accept") {
                problems.push(("stale-record".into(), format!("audit map holds a record for port {} (model: {:?})", port, model[pi])));
            }
        }
        out.push(StepObs { problems });
    }
    for c in conns.iter_mut() {
        if let Some(c) = c.take() {
            c.close();
        }
    }
    let _ = cx.sentinel();
    let canon = format!("{:?}|audit:{:?}", model, PORTS.iter().map(|p| cx.w.audit_present(*p)).collect::<Vec<_>>());
    (out, canon)
}

fn enabled(model: &Model, thorough: bool) -> Vec<Op> {
    let mut v = Vec::new();
    for p in 0..2 {
        match model[p] {
            None => {
                let ids: &[Ident] = if thorough { &[Ident::None, Ident::Alice, Ident::Bob, Ident::Root, Ident::Slow] } else { &[Ident::None, Ident::Alice, Ident::Root, Ident::Slow] };
                for i in ids {
                    v.push(Op::Open(p, *i));
                }
            }
            Some(Ident::Slow) => v.push(Op::Close(p)),
            Some(_) => {
                v.push(Op::Request(p));
                v.push(Op::Close(p));
            }
        }
    }
    v
}

fn model_after(hist: &[Op]) -> Model {
    let mut m: Model = [None, None];
    for op in hist {
        match *op {
            Op::Open(p, i) => m[p] = Some(i),
            Op::Close(p) => m[p] = None,
            Op::Request(_) => {}
        }
    }
    m
}

fn main() {
    world::install_panic_recorder();
    let thorough = is_thorough();
    let w = World::start(WorldOpts { worker_threads: 1, ..Default::default() });
    let mut res = EngineResult::new("C07");
    let cx = Ctx {
        w: &w,
        alice_pid: w.spawn_proc("/usr/bin/vt-curl", &["100000"], Some(1001)),
        bob_pid: w.spawn_proc("/usr/bin/vt-curl", &["100001"], Some(1002)),
        root_pid: w.spawn_proc("/usr/bin/vt-waagent", &["100000"], None),
    };
    // the black hole: backlog 0, accept queue filled, never accepted (and few SYN retries, so that the proxy's
    // pending upstream connects of closed client connections go away in seconds)
    let _ = std::fs::write("/proc/sys/net/ipv4/tcp_syn_retries", "2");
    let hole = std::net::TcpListener::bind(BLACKHOLE).unwrap_or_else(|e| vcommon::result::machinery(&format!("bind {BLACKHOLE}: {e}")));
    unsafe {
        use std::os::fd::AsRawFd;
        libc::listen(hole.as_raw_fd(), 0);
    }
    let mut fillers = Vec::new();
    let mut saturated = false;
    for _ in 0..8 {
        match std::net::TcpStream::connect_timeout(&BLACKHOLE.parse().unwrap(), Duration::from_millis(400)) {
            Ok(c) => fillers.push(c),
            Err(_) => {
                saturated = true;
                break;
            }
        }
    }
    if !saturated {
        vcommon::result::machinery("the black-hole listener still completes handshakes");
    }
    w.set_rules(IMDS, Policy::simple("enforce-deny-grants-alice", "enforce", false).with(&["/a"], &[(0, "alice")]).to_item());

    if let Ok(path) = std::env::var("VERIF_REPLAY") {
        let doc: Value = serde_json::from_str(&std::fs::read_to_string(path).unwrap()).unwrap();
        let hist: Vec<Op> = doc["case"]["history"]
            .as_array()
            .unwrap()
            .iter()
            .map(|o| {
                let port = |v: &Value| PORTS.iter().position(|p| json!(p) == *v).unwrap();
                if !o["open"].is_null() {
                    let id = match o["record"].as_str().unwrap() {
                        "None" => Ident::None,
                        "Alice" => Ident::Alice,
                        "Bob" => Ident::Bob,
                        "Slow" => Ident::Slow,
                        _ => Ident::Root,
                    };
                    Op::Open(port(&o["open"]), id)
                } else if !o["request_on"].is_null() {
                    Op::Request(port(&o["request_on"]))
                } else {
                    Op::Close(port(&o["close"]))
                }
            })
            .collect();
        let (obs, _) = run_history(&cx, &hist);
        for (i, o) in obs.iter().enumerate() {
            for (k, what) in &o.problems {
                res.violation(k, &format!("step {}: {}", i + 1, what), doc["case"].clone());
            }
        }
        res.cov("states", 1);
        res.cov("transitions", hist.len() as u64);
        res.cov("traces_validated_against_impl", 1);
        res.sample(doc["case"].clone());
        std::process::exit(res.finish());
    }

    // ---- determinism gate: one history twice
    let probe = vec![Op::Open(0, Ident::Alice), Op::Request(0), Op::Close(0), Op::Open(0, Ident::None), Op::Request(0)];
    let a = run_history(&cx, &probe);
    let b = run_history(&cx, &probe);
    let fmt = |x: &(Vec<StepObs>, String)| format!("{:?}{}", x.0.iter().map(|s| s.problems.clone()).collect::<Vec<_>>(), x.1);
    if fmt(&a) != fmt(&b) {
        // two runs of one history disagree. When either of them saw the subject break the property, that is the finding (a
        // subject that breaks it only now and then is still breaking it); only two *clean* but different runs mean the
        // harness does not own the schedule
        let mut reported = false;
        for (run, x) in [(1, &a), (2, &b)] {
            for (i, o) in x.0.iter().enumerate() {
                for (k, what) in &o.problems {
                    res.violation(k, &format!("determinism probe, run {run}, step {}: {}", i + 1, what), json!({"history": probe.iter().map(|o| format!("{:?}", o)).collect::<Vec<_>>(), "note": "the same history gave different observations in two runs"}));
                    reported = true;
                }
            }
        }
        if !reported {
            vcommon::result::machinery("determinism gate failed: the same history gave different observations");
        }
    }

    // ---- BFS over histories, dedup on (model state, kernel map content, number of requests made on open conns capped)
    let depth = if thorough { 7 } else { 5 };
    let mut seen: HashSet<String> = HashSet::new();
    let mut frontier: VecDeque<Vec<Op>> = VecDeque::new();
    frontier.push_back(vec![]);
    seen.insert("init".into());
    let mut transitions = 0u64;
    let mut executed = 0u64;
    let mut max_depth = 0usize;
    let mut outcomes: BTreeMap<String, u64> = BTreeMap::new();
    let bfs_start = Instant::now();
    let mut stopped_early = false;
    while let Some(hist) = frontier.pop_front() {
        if hist.len() >= depth {
            continue;
        }
        // a subject that violates the property may answer every step only after a time-out: once something
        // has been found and two minutes are spent, report that instead of running into the driver's time limit
        if res.n_violations() > 0 && bfs_start.elapsed() > Duration::from_secs(120) {
            stopped_early = true;
            break;
        }
        let model = model_after(&hist);
        for op in enabled(&model, thorough) {
            let mut h2 = hist.clone();
            h2.push(op);
            // state key includes, per open connection, whether it already served a request
            // (first-request and later-request behaviour may differ) and the last operation kind
            let mut served = [false, false];
            for o in &h2 {
                match *o {
                    Op::Open(p, _) | Op::Close(p) => served[p] = false,
                    Op::Request(p) => served[p] = true,
                }
            }
            let (obs, canon) = run_history(&cx, &h2);
            executed += 1;
            transitions += 1;
            max_depth = max_depth.max(h2.len());
            let last = obs.last().unwrap();
            *outcomes.entry(if last.problems.is_empty() { "ok".into() } else { last.problems[0].0.clone() }).or_insert(0) += 1;
            for (i, o) in obs.iter().enumerate() {
                if i + 1 < obs.len() {
                    continue; // earlier steps were judged when their own prefix was explored
                }
                for (k, what) in &o.problems {
                    res.violation(k, &format!("after history of {} steps: {}", h2.len(), what), json!({"history": h2.iter().map(op_json).collect::<Vec<_>>()}));
                }
            }
            let key = format!("{canon}|served:{:?}|lastreq:{}", served, matches!(op, Op::Request(_)));
            if seen.insert(key) {
                if executed <= 3 || (h2.len() == 4 && res.samples.len() < 5) {
                    res.sample(json!({"history": h2.iter().map(op_json).collect::<Vec<_>>(), "state": canon}));
                }
                frontier.push_back(h2);
            }
        }
    }

    // ---- concurrency part: 3 attributed connections opened before any request, 2 requests each, all 90 send orders
    let mut orders = 0u64;
    {
        let ids = [Ident::Alice, Ident::Root, Ident::Bob];
        let ports = [41011u16, 41012, 41013];
        let mut seqs: Vec<Vec<usize>> = Vec::new();
        fn gen(rem: [usize; 3], cur: &mut Vec<usize>, out: &mut Vec<Vec<usize>>) {
            if rem == [0, 0, 0] {
                out.push(cur.clone());
                return;
            }
            for i in 0..3 {
                if rem[i] > 0 {
                    let mut r = rem;
                    r[i] -= 1;
                    cur.push(i);
                    gen(r, cur, out);
                    cur.pop();
                }
            }
        }
        gen([2, 2, 2], &mut Vec::new(), &mut seqs);
        if !thorough {
            seqs.truncate(30);
        }
        for seq in &seqs {
            cx.w.clear_audit();
            let mut cs: Vec<Client> = Vec::new();
            for i in 0..3 {
                cs.push(cx.w.connect(Some(ports[i]), cx.rec(ids[i]).as_ref()).unwrap());
            }
            if cx.sentinel().is_err() && cx.w.audit_present(SENTINEL_PORT) {
                res.violation("record-not-consumed-at-accept:connection-dropped", &format!("an attributed connection was accepted and dropped without an answer and its kernel record (source port {SENTINEL_PORT}) is still in the audit map"), json!({"family": "concurrent", "order": seq}));
                cx.w.clear_audit();
            }
            // send all six requests in the chosen order without waiting, then read
            let cur = cx.w.hosts.cursors();
            for &i in seq {
                let tag = format!("/a/c{i}");
                let _ = cs[i].send(&build_request("GET", &tag, &[("Host", b"h")], None, None)); // a refused send shows as a missing response below
            }
            let mut statuses = vec![Vec::new(); 3];
            for i in 0..3 {
                for _ in 0..2 {
                    statuses[i].push(cs[i].read_response(false, Duration::from_secs(10)).map(|m| m.status()));
                }
            }
            orders += 1;
            let want = [vec![Ok(200), Ok(200)], vec![Ok(200), Ok(200)], vec![Ok(403), Ok(403)]];
            let hosts = cx.w.hosts.all();
            let mut bad = statuses != want;
            for (hi, h) in hosts.iter().enumerate() {
                for (_, m) in h.requests_since(cur[hi]) {
                    let claims = m.header("x-ms-azure-host-claims").unwrap_or_default();
                    let ok = match m.target() {
                        "/a/c0" => hi == 2 && claims.contains("false"),
                        "/a/c1" => hi == 0 && claims.contains("true"),
                        _ => false,
                    };
                    if !ok {
                        bad = true;
                    }
                }
            }
            if bad {
                res.violation("concurrent-connections-identity-mixup", &format!("send order {:?}: statuses {:?}", seq, statuses), json!({"family": "concurrent", "order": seq}));
            }
            for c in cs {
                c.close();
            }
        }
    }

    // ---- family: one port number on two local addresses. Connection A comes straight to the listener from
    // 127.0.0.1:p (the kernel hook never saw it); connection B is a diverted connection from 127.0.0.2:p, for which
    // the kernel wrote its record under (TCP, p). Whatever the order in which the record is written and the two
    // connections reach the listener, A is unattributed and B is served with its own identity.
    let mut two_addr_cases = 0u64;
    {
        let p2 = 41777u16;
        let alice = cx.rec(Ident::Alice).unwrap();
        let req = build_request("GET", "/a/x", &[("Host", b"h"), ("Metadata", b"true")], None, None);
        let open = |ip: [u8; 4]| vcommon::rawhttp::connect_from(ip, Some(p2), world::PROXY.parse().unwrap()).map(Client::new);
        let ask = |c: &mut Client| c.send(&req).map_err(|e| e.to_string()).and_then(|_| c.read_response(false, Duration::from_secs(10)).map(|m| m.status()));
        // order 1: A is accepted (and has looked for its record) before B's record exists; gaps around the retry windows
        // a lookup could plausibly use
        for gap_ms in [0u64, 2, 4, 6, 10, 12, 25] {
            cx.w.clear_audit();
            let cur = cx.w.hosts.cursors();
            let mut a = open([127, 0, 0, 1]).unwrap();
            let _ = cx.sentinel();
            std::thread::sleep(Duration::from_millis(gap_ms));
            cx.w.inject_audit(p2, &alice);
            // B's record exists from the moment its connect enters the kernel; its SYN reaches the listener a little
            // later (alternating: at once / after 8 ms, as when the caller's thread is descheduled in between)
            if gap_ms % 4 == 2 {
                std::thread::sleep(Duration::from_millis(8));
            }
            let mut b = open([127, 0, 0, 2]).unwrap();
            let sb = ask(&mut b);
            let sa = ask(&mut a);
            two_addr_cases += 1;
            let upstream: usize = cx.w.hosts.all().iter().enumerate().map(|(i, h)| h.requests_since(cur[i]).iter().filter(|(_, m)| m.target() == "/a/x").count()).sum();
            if sa != Ok(421) || sb != Ok(200) || upstream != 1 {
                res.violation("same-port-two-addresses:record-written-after-the-direct-connection", &format!("direct connection 127.0.0.1:{p2} accepted first, then (after {gap_ms} ms) the record of the diverted connection 127.0.0.2:{p2} was written: direct connection got {:?} (want 421), diverted connection got {:?} (want 200), {upstream} request(s) upstream", sa, sb), json!({"family": "same-port-two-addresses", "order": "direct connection first", "gap_ms": gap_ms}));
            }
            a.close();
            b.close();
            let _ = cx.sentinel();
        }
        // order 2: B's record is written (its connect entered the kernel) but A reaches the listener first
        {
            cx.w.clear_audit();
            let cur = cx.w.hosts.cursors();
            cx.w.inject_audit(p2, &alice);
            let mut a = open([127, 0, 0, 1]).unwrap();
            let sa = ask(&mut a);
            let mut b = open([127, 0, 0, 2]).unwrap();
            let sb = ask(&mut b);
            two_addr_cases += 1;
            let upstream: usize = cx.w.hosts.all().iter().enumerate().map(|(i, h)| h.requests_since(cur[i]).iter().filter(|(_, m)| m.target() == "/a/x").count()).sum();
            if sa != Ok(421) || sb != Ok(200) || upstream != 1 {
                res.violation("same-port-two-addresses:record-written-before-the-direct-connection", &format!("the record of the diverted connection 127.0.0.2:{p2} was written, then the direct connection 127.0.0.1:{p2} reached the listener first: direct connection got {:?} (want 421), diverted connection got {:?} (want 200), {upstream} request(s) upstream", sa, sb), json!({"family": "same-port-two-addresses", "order": "record first, direct connection accepted first"}));
            }
            a.close();
            b.close();
            cx.w.clear_audit();
            let _ = cx.sentinel();
        }
        // order 3: B (diverted, record written, accepted, served n times) stays open; then A comes straight to the
        // listener from the other address with the same port number, no record having been written for it
        for served in [0usize, 1, 3] {
            cx.w.clear_audit();
            let cur = cx.w.hosts.cursors();
            cx.w.inject_audit(p2, &alice);
            let mut b = open([127, 0, 0, 2]).unwrap();
            let mut sb = Ok(200);
            for _ in 0..served {
                sb = ask(&mut b);
            }
            let _ = cx.sentinel();
            let mut a = open([127, 0, 0, 1]).unwrap();
            let sa = ask(&mut a);
            let sb2 = ask(&mut b);
            two_addr_cases += 1;
            let upstream: usize = cx.w.hosts.all().iter().enumerate().map(|(i, h)| h.requests_since(cur[i]).iter().filter(|(_, m)| m.target() == "/a/x").count()).sum();
            if sa != Ok(421) || sb != Ok(200) || sb2 != Ok(200) || upstream != served + 1 {
                res.violation("same-port-two-addresses:direct-connection-while-the-diverted-one-is-open", &format!("the diverted connection 127.0.0.2:{p2} was accepted, served {served} request(s) and kept open; then the direct connection 127.0.0.1:{p2} got {:?} (want 421); the diverted connection got {:?} / {:?} (want 200), {upstream} request(s) upstream (want {})", sa, sb, sb2, served + 1), json!({"family": "same-port-two-addresses", "order": "diverted connection open, then direct connection", "served": served}));
            }
            a.close();
            b.close();
            cx.w.clear_audit();
            let _ = cx.sentinel();
        }
    }
    res.cov("same_port_two_addresses_cases", two_addr_cases);

    // ---- family: the destination of every request on a connection is the recorded one, whatever its Host header names
    // and whether or not the host has closed the relay connection in between (the proxy has to open a new one then)
    let mut host_hdr_cases = 0u64;
    {
        use std::sync::Arc;
        use vcommon::rawhttp::{simple_response, Action, Msg};
        let closing = Arc::new(std::sync::atomic::AtomicBool::new(false));
        let c2 = closing.clone();
        cx.w.hosts.imds.set_responder(Arc::new(move |m: &Msg, _c, _i| {
            let r = vec![simple_response(200, &[], b"imds")];
            if c2.load(std::sync::atomic::Ordering::SeqCst) && m.target().starts_with("/a/first") {
                Action::ReplyClose(r)
            } else {
                Action::Reply(r)
            }
        }));
        let alice = cx.rec(Ident::Alice).unwrap();
        let p3 = 41555u16;
        let idx_imds = cx.w.hosts.all().iter().position(|h| h.addr.to_string() == IMDS).unwrap();
        for host_closes in [false, true] {
            closing.store(host_closes, std::sync::atomic::Ordering::SeqCst);
            for named in ["168.63.129.16", "168.63.129.16:80", "168.63.129.16:32526", "127.0.0.2:8081", "127.0.0.1:3080", "169.254.169.254:8080"] {
                for gap_ms in [0u64, 30] {
                    cx.w.clear_audit();
                    let cur = cx.w.hosts.cursors();
                    let mut c = match cx.w.connect(Some(p3), Some(&alice)) {
                        Ok(c) => c,
                        Err(e) => vcommon::result::machinery(&format!("connect from {p3}: {e}")),
                    };
                    let first = c.send(&build_request("GET", "/a/first", &[("Host", IMDS.as_bytes()), ("Metadata", b"true")], None, None)).map_err(|e| e.to_string()).and_then(|_| c.read_response(false, Duration::from_secs(10)).map(|m| m.status()));
                    std::thread::sleep(Duration::from_millis(gap_ms));
                    let second = c.send(&build_request("GET", "/a/second", &[("Host", named.as_bytes()), ("Metadata", b"true")], None, None)).map_err(|e| e.to_string()).and_then(|_| c.read_response(false, Duration::from_secs(10)).map(|m| m.status()));
                    c.close();
                    host_hdr_cases += 1;
                    let elsewhere: Vec<String> = cx.w.hosts.all().iter().enumerate().filter(|(i, _)| *i != idx_imds).flat_map(|(i, h)| h.requests_since(cur[i]).into_iter().filter(|(_, m)| m.target().starts_with("/a/")).map(move |(_, m)| format!("{} got {} {}", h.addr, m.method(), m.target())).collect::<Vec<_>>()).collect();
                    if first != Ok(200) || !elsewhere.is_empty() {
                        res.violation(
                            "request-relayed-to-an-endpoint-other-than-the-recorded-one",
                            &format!("connection recorded for {IMDS}; first request got {:?}; {} the second request (Host: {named}, {gap_ms} ms later) got {:?}; requests seen at other endpoints: {:?}", first, if host_closes { "the host closed the relay connection after its answer;" } else { "" }, second, elsewhere),
                            json!({"family": "host-header-names-another-endpoint", "host_closes_relay_connection": host_closes, "host_header": named, "gap_ms": gap_ms}),
                        );
                    }
                    let _ = cx.sentinel();
                }
            }
        }
        cx.w.hosts.imds.set_responder(Arc::new(|_m: &Msg, _c, _i| Action::Reply(vec![simple_response(200, &[], b"ok")])));
    }
    res.cov("host_header_names_another_endpoint_cases", host_hdr_cases);

    // ---- family: two recorded destinations on one address (WireServer :80 and HostGAPlugin :32526), one connection each,
    // the first one closed or still open when the second is made: every request goes to the destination of its own connection
    let mut two_dest_cases = 0u64;
    {
        let hosts = cx.w.hosts.all();
        let idx = |a: &str| hosts.iter().position(|h| h.addr.to_string() == a).unwrap();
        let p4 = 41600u16;
        for (first, second) in [(WS, HOSTGA), (HOSTGA, WS)] {
            for first_still_open in [false, true] {
                cx.w.clear_audit();
                let cur = cx.w.hosts.cursors();
                let ask = |c: &mut Client, tag: &str| c.send(&build_request("GET", tag, &[("Host", b"h")], None, None)).map_err(|e| e.to_string()).and_then(|_| c.read_response(false, Duration::from_secs(10)).map(|m| m.status()));
                let mut a = Some(cx.w.connect(Some(p4), Some(&AuditRec::to(first, 0, cx.root_pid, true))).unwrap_or_else(|e| vcommon::result::machinery(&format!("connect: {e}"))));
                let sa = ask(a.as_mut().unwrap(), "/two/a");
                if !first_still_open {
                    a.take().unwrap().close();
                    let _ = cx.sentinel();
                }
                let mut b = cx.w.connect(Some(p4 + 1), Some(&AuditRec::to(second, 0, cx.root_pid, true))).unwrap_or_else(|e| vcommon::result::machinery(&format!("connect: {e}")));
                let sb = ask(&mut b, "/two/b");
                let sa2 = match a.as_mut() {
                    Some(a) => ask(a, "/two/a2"),
                    None => Ok(200),
                };
                if let Some(a) = a {
                    a.close();
                }
                b.close();
                two_dest_cases += 1;
                let seen = |host: &str, tag: &str| hosts[idx(host)].requests_since(cur[idx(host)]).iter().filter(|(_, m)| m.target() == tag).count();
                if sa != Ok(200) || sb != Ok(200) || sa2 != Ok(200) || seen(first, "/two/a") != 1 || seen(second, "/two/b") != 1 || seen(first, "/two/b") != 0 || (first_still_open && seen(first, "/two/a2") != 1) {
                    res.violation(
                        "request-relayed-to-an-endpoint-other-than-the-recorded-one:same-address-other-port",
                        &format!("connection 1 recorded for {first} ({}), connection 2 for {second}: statuses {:?} / {:?} / {:?}; /two/a at {first}: {}, /two/b at {second}: {}, /two/b at {first}: {}", if first_still_open { "still open" } else { "closed" }, sa, sb, sa2, seen(first, "/two/a"), seen(second, "/two/b"), seen(first, "/two/b")),
                        json!({"family": "two-destinations-one-address", "first": first, "second": second, "first_still_open": first_still_open}),
                    );
                }
                let _ = cx.sentinel();
            }
        }
    }
    res.cov("two_destinations_one_address_cases", two_dest_cases);

    // ---- family: the client of an attributed connection resets it before the proxy has served it (the proxy's worker
    // threads are held for a moment, as when they are descheduled: the reset arrives while the connection waits in the accept
    // queue or between accept and the first look at it); its record is consumed all the same, and a direct connection that
    // takes the freed source port is unattributed
    let mut reset_early_cases = 0u64;
    {
        let hosts = cx.w.hosts.all();
        let p6 = 41800u16;
        let root = AuditRec::to(WS, 0, cx.root_pid, true);
        for hold_ms in [40u64, 120] {
            for linger_before_reset_ms in [0u64, 5] {
                for k in 0..(if thorough { 6 } else { 3 }) {
                    let port = p6 + k;
                    cx.w.clear_audit();
                    let cur = cx.w.hosts.cursors();
                    for _ in 0..4 {
                        cx.w.rt.spawn(async move {
                            std::thread::sleep(Duration::from_millis(hold_ms));
                        });
                    }
                    std::thread::sleep(Duration::from_millis(5));
                    match cx.w.connect(Some(port), Some(&root)) {
                        Ok(c) => {
                            std::thread::sleep(Duration::from_millis(linger_before_reset_ms));
                            c.close(); // RST
                        }
                        Err(e) => vcommon::result::machinery(&format!("connect from {port}: {e}")),
                    }
                    std::thread::sleep(Duration::from_millis(hold_ms + 60));
                    let _ = cx.sentinel();
                    let left = cx.w.audit_present(port);
                    // the freed port, no record
                    let st = cx.w.connect(Some(port), None).map_err(|e| e.to_string()).and_then(|mut c| {
                        let r = c.send(&build_request("GET", "/early/reset", &[("Host", b"h")], None, None)).map_err(|e| e.to_string()).and_then(|_| c.read_response(false, Duration::from_secs(10)).map(|m| m.status()));
                        c.close();
                        r
                    });
                    reset_early_cases += 1;
                    let upstream: usize = hosts.iter().enumerate().map(|(i, h)| h.requests_since(cur[i]).iter().filter(|(_, m)| m.target() == "/early/reset").count()).sum();
                    if left || st != Ok(421) || upstream != 0 {
                        res.violation(
                            "record-not-consumed-at-accept:client-reset-before-served",
                            &format!("an attributed connection from port {port} was reset by its client {linger_before_reset_ms} ms after connecting while the proxy's workers were held for {hold_ms} ms; afterwards its record is {}; a direct connection from the same port got {:?} (want 421), {upstream} request(s) upstream", if left { "still in the audit map" } else { "gone" }, st),
                            json!({"family": "client-resets-before-served", "hold_ms": hold_ms, "reset_after_ms": linger_before_reset_ms, "port": port}),
                        );
                    }
                    cx.w.clear_audit();
                    let _ = cx.sentinel();
                }
            }
        }
    }
    res.cov("client_resets_before_served_cases", reset_early_cases);

    // ---- family: source ports of every range (a root client may bind a reserved port; the ephemeral range is no contract):
    // attributed connection, served, closed; its record is gone and a direct connection from the same port is refused
    let mut port_range_cases = 0u64;
    {
        let hosts = cx.w.hosts.all();
        let root = AuditRec::to(WS, 0, cx.root_pid, true);
        for port in [1u16, 600, 1023, 1024, 1025, 32767, 61000, 65535] {
            cx.w.clear_audit();
            let cur = cx.w.hosts.cursors();
            let ask = |c: &mut Client, t: &str| c.send(&build_request("GET", t, &[("Host", b"h")], None, None)).map_err(|e| e.to_string()).and_then(|_| c.read_response(false, Duration::from_secs(10)).map(|m| m.status()));
            let first = match cx.w.connect(Some(port), Some(&root)) {
                Ok(mut c) => {
                    let r = ask(&mut c, "/ports/attributed");
                    c.close();
                    r
                }
                Err(e) => vcommon::result::machinery(&format!("connect from source port {port}: {e}")),
            };
            let _ = cx.sentinel();
            let left = cx.w.audit_present(port);
            let second = cx.w.connect(Some(port), None).map_err(|e| e.to_string()).and_then(|mut c| {
                let r = ask(&mut c, "/ports/direct");
                c.close();
                r
            });
            port_range_cases += 1;
            let upstream: usize = hosts.iter().enumerate().map(|(i, h)| h.requests_since(cur[i]).iter().filter(|(_, m)| m.target() == "/ports/direct").count()).sum();
            if first != Ok(200) || left || second != Ok(421) || upstream != 0 {
                res.violation(
                    "record-not-consumed-at-accept:source-port-range",
                    &format!("source port {port}: the attributed connection got {:?} (want 200); afterwards its record is {}; a direct connection from the same port got {:?} (want 421), {upstream} request(s) upstream", first, if left { "still in the audit map" } else { "gone" }, second),
                    json!({"family": "source-port-ranges", "port": port}),
                );
            }
            cx.w.clear_audit();
            let _ = cx.sentinel();
        }
    }
    res.cov("source_port_range_cases", port_range_cases);

    // ---- family: the rules a request is judged by are those of its connection's recorded destination, whatever port the
    // request target (absolute-form) names: endpoint X refuses everything (enforce, default deny, no grants), endpoint Y on the
    // same address has no rules
    let mut target_port_cases = 0u64;
    {
        let hosts = cx.w.hosts.all();
        let idx = |a: &str| hosts.iter().position(|h| h.addr.to_string() == a).unwrap();
        let deny_all = || -> Option<gpa_harness::key_keeper::key::AuthorizationItem> {
            Some(serde_json::from_value(json!({"defaultAccess": "deny", "mode": "enforce", "id": "deny-all", "rules": {"privileges": [], "roles": [], "identities": [], "roleAssignments": []}})).unwrap())
        };
        let p5 = 41700u16;
        for (closed, open) in [(WS, HOSTGA), (HOSTGA, WS)] {
            cx.w.set_rules(closed, deny_all());
            cx.w.set_rules(open, None);
            for recorded in [closed, open] {
                let other = if recorded == closed { open } else { closed };
                for position in [0usize, 2] {
                    for target in [format!("http://{other}/tp/x"), format!("http://{recorded}/tp/x"), "/tp/x".to_string()] {
                        cx.w.clear_audit();
                        let cur = cx.w.hosts.cursors();
                        let mut c = cx.w.connect(Some(p5), Some(&AuditRec::to(recorded, 0, cx.root_pid, true))).unwrap_or_else(|e| vcommon::result::machinery(&format!("connect: {e}")));
                        let ask = |c: &mut Client, t: &str| c.send(&build_request("GET", t, &[("Host", b"h")], None, None)).map_err(|e| e.to_string()).and_then(|_| c.read_response(false, Duration::from_secs(10)).map(|m| m.status()));
                        let want = if recorded == closed { Ok(403) } else { Ok(200) };
                        let mut before = Vec::new();
                        for _ in 0..position {
                            before.push(ask(&mut c, "/tp/before"));
                        }
                        let st = ask(&mut c, &target);
                        c.close();
                        target_port_cases += 1;
                        let at = |host: &str| hosts[idx(host)].requests_since(cur[idx(host)]).iter().filter(|(_, m)| m.target().ends_with("/tp/x")).count();
                        let (at_rec, at_other) = (at(recorded), at(other));
                        if st != want || before.iter().any(|b| *b != want) || at_other != 0 || at_rec != (if recorded == closed { 0 } else { 1 }) {
                            res.violation(
                                "request-judged-by-the-rules-of-an-endpoint-other-than-the-recorded-one",
                                &format!("{closed} refuses everything, {open} has no rules; connection recorded for {recorded}; request {} with target {target} got {:?} (want {:?}; requests before it: {:?}); seen at {recorded}: {at_rec}, at {other}: {at_other}", position + 1, st, want, before),
                                json!({"family": "request-target-names-another-port", "refusing_endpoint": closed, "recorded": recorded, "target": target, "position": position}),
                            );
                        }
                        let _ = cx.sentinel();
                    }
                }
            }
            cx.w.set_rules(closed, None);
        }
    }
    res.cov("request_target_names_another_port_cases", target_port_cases);

    // ---- family: a record waits for source port Q (its connection has not reached the listener yet); a direct connection
    // comes from a port that is Q with its two bytes swapped, or Q +- 1, Q +- 256: it is unattributed and Q's record stays
    let mut near_port_cases = 0u64;
    {
        let alice = cx.rec(Ident::Alice).unwrap();
        for q in [37057u16, 41990, 40960] {
            for p in [q.swap_bytes(), q.wrapping_add(1), q.wrapping_sub(1), q.wrapping_add(256), q.wrapping_sub(256)] {
                if p < 1024 || p == q || p >= 52000 {
                    continue;
                }
                cx.w.clear_audit();
                cx.w.inject_audit(q, &alice);
                let cur = cx.w.hosts.cursors();
                let st = match cx.w.connect(Some(p), None) {
                    Ok(mut c) => {
                        let r = c.send(&build_request("GET", "/a/x", &[("Host", b"h"), ("Metadata", b"true")], None, None)).map_err(|e| e.to_string()).and_then(|_| c.read_response(false, Duration::from_secs(10)).map(|m| m.status()));
                        c.close();
                        r
                    }
                    Err(e) => Err(format!("connect: {e}")),
                };
                near_port_cases += 1;
                let upstream: usize = cx.w.hosts.all().iter().enumerate().map(|(i, h)| h.requests_since(cur[i]).iter().filter(|(_, m)| m.target() == "/a/x").count()).sum();
                if st != Ok(421) || upstream != 0 || !cx.w.audit_present(q) {
                    res.violation("direct-connection-served-with-the-record-of-another-port", &format!("a record waits for source port {q}; a direct connection from port {p} got {:?} (want 421), {upstream} request(s) upstream, the record for {q} is {}", st, if cx.w.audit_present(q) { "still there" } else { "gone" }), json!({"family": "record-of-a-nearby-port", "record_port": q, "direct_port": p}));
                }
                cx.w.clear_audit();
                let _ = cx.sentinel();
            }
        }
    }
    res.cov("record_of_a_nearby_port_cases", near_port_cases);

    // ---- contention family (sampled, labelled): the BpfObject mutex is busy while connections are accepted
    let n_cont = if thorough { 120 } else { 30 };
    let mut leftover = 0u64;
    {
        let stop = std::sync::Arc::new(std::sync::atomic::AtomicBool::new(false));
        let bpf = cx.w.bpf.clone();
        let s2 = stop.clone();
        let th = std::thread::spawn(move || {
            while !s2.load(std::sync::atomic::Ordering::Relaxed) {
                let g = bpf.lock().unwrap();
                for _ in 0..2000 {
                    std::hint::spin_loop();
                }
                drop(g);
            }
        });
        let base = 42000u16;
        cx.w.clear_audit();
        let mut cs = Vec::new();
        for i in 0..n_cont {
            cs.push(cx.w.connect(Some(base + i as u16), cx.rec(Ident::Alice).as_ref()).unwrap());
        }
        let _ = cx.sentinel();
        for i in 0..n_cont {
            if !cx.wait_consumed(base + i as u16, 1500) {
                leftover += 1;
            }
        }
        stop.store(true, std::sync::atomic::Ordering::Relaxed);
        th.join().unwrap();
        for c in cs {
            c.close();
        }
        let _ = cx.sentinel();
        if leftover > 0 {
            res.violation("record-not-consumed-at-accept:under-lock-contention", &format!("{leftover} of {n_cont} kernel records survived the accept of their connection while the BPF object mutex was contended"), json!({"family": "contention", "connections": n_cont}));
        }
        cx.w.clear_audit();
    }

    for p in world::take_panics() {
        res.violation("panic", &p, json!({"note": "panic during exploration"}));
    }
    res.cov("states", seen.len() as u64);
    res.cov("transitions", transitions);
    res.cov("traces_validated_against_impl", executed);
    res.cov("max_depth", max_depth as u64);
    res.cov("depth_bound", depth as u64);
    res.cov("step_outcomes", json!(outcomes));
    res.cov("concurrent_send_orders", orders);
    res.cov("contention_family_connections_sampled", n_cont as u64);
    res.cov("exhaustive", !stopped_early);
    res.cov("stopped_early_after_violations", stopped_early);
    res.cov("rule", format!("BFS over histories of open(port in 2 ports, record in {{none, alice->IMDS, {}root->WireServer with alice's process id, root->a destination that never completes the TCP handshake (open/close only)}}) / request / close (RST close, immediate port reuse) to depth {depth}, deduplicated on (reference state, kernel audit-map content, served-a-request flags); every history is executed on the real proxy from a clean state; + 3 attributed connections x 2 pipelined requests in {} send orders; + one port number on two local addresses (a direct connection from 127.0.0.1:p and a diverted one from 127.0.0.2:p, record written 0..25 ms after the direct connection was accepted, the diverted connection arriving at once or 8 ms after its record; or record written before the direct connection) + a SAMPLED family in which a contender thread keeps the BpfObject mutex busy while {n_cont} attributed connections are accepted", if thorough { "bob->IMDS, " } else { "" }, orders));
    res.assume("single-threaded subject runtime: a sentinel round trip after each open orders the harness after the accept-time lookup; server-side task interleavings beyond that are not enumerated");
    res.assume("the lock-contention family is sampling (the std mutex cannot be scheduled), labelled as such");
    std::process::exit(res.finish());
}
