//! C09: the agent's state converges to the host's latest secure-channel status.
//! Explicit-state BFS over host behaviours. The real KeyKeeper::poll_secure_channel_status runs
//! (paused tokio clock) against a mock WireServer on the real address in lock-step: every
//! /secure-channel/status request parks until the explorer has observed the agent and chosen the
//! next host event. State = canonical digest of (host model, agent getters, key directory,
//! kernel policy map). Histories are replayed from scratch on the real code.

use gpa_harness::key_keeper::KeyKeeper;
use gpa_harness::proxy::authorization_rules::ComputedAuthorizationItem;
use gpa_harness::proxy::proxy_connection::ConnectionLogger;
use gpa_harness::proxy::Claims;
use gpa_harness::redirector::BpfObject;
use gpa_harness::shared_state::SharedState;
use gpa_harness::verif::policy::Policy;
use gpa_harness::verif::world::{self, map_fd, RawMap};
use gpa_harness::verif::{hostcheck, sigref};
use serde_json::{json, Value};
use std::collections::{BTreeMap, HashMap, HashSet, VecDeque};
use std::sync::{Arc, Condvar, Mutex};
use std::time::{Duration, Instant};
use vcommon::rawhttp::{simple_response, Action, MockHost, Msg};
use vcommon::result::{is_thorough, EngineResult};

const KEYS_DIR: &str = "/var/lib/azure-proxy-agent/keys";
const LOG_DIR: &str = "/var/log/azure-proxy-agent/vt-rules";

#[derive(Clone, Copy, Debug, PartialEq, Eq, Hash, PartialOrd, Ord)]
enum Rule {
    Absent,
    Audit,
    Enforce,
    Disabled,
}

#[derive(Clone, Copy, Debug, PartialEq, Eq, Hash, PartialOrd, Ord)]
enum Fault {
    Status500,
    StatusInvalidJson,
    /// a well-formed JSON answer that cannot be read as a status document (see `unreadable_status`)
    StatusShape(u8),
    Acquire500,
    AcquireMalformed,
    Attest500,
}

#[derive(Clone, Copy, Debug, PartialEq, Eq, Hash, PartialOrd, Ord)]
enum Ev {
    V1(u8), // 0 Disabled, 1 Wireserver, 2 WireserverAndImds
    V2Enabled(bool),
    SetRule(u8, Rule), // endpoint 0 ws, 1 imds, 2 hostga
    Rotate,
    /// the host latches, on its own, a key this guest never obtained (the status names an unknown key id)
    LatchOther,
    /// a wake-up notification reaches the key keeper (what a provisioning-status query with the notify header sends)
    /// while it waits for the host's answer; the host itself changes nothing
    Notify,
    Fault(Fault),
    Noop,
}

#[derive(Clone, Debug, PartialEq, Eq, Hash)]
struct HostModel {
    v2: bool,
    v1_state: u8,
    v2_enabled: bool,
    rules: [Rule; 3],
    latched: Option<usize>, // index into issued keys
    issued: usize,
    fault: Option<Fault>,
}

fn rule_policy(ep: usize, r: Rule) -> Option<Policy> {
    // distinct contents per (endpoint, mode): the id is a hash of the content
    let (mode, default_allow, grants): (&'static str, bool, &[(usize, &'static str)]) = match r {
        Rule::Absent => return None,
        Rule::Audit => ("audit", false, &[(0, "alice")]),
        Rule::Enforce => ("enforce", false, &[(0, "bob")]),
        Rule::Disabled => ("disabled", true, &[]),
    };
    let _ = ep;
    Some(Policy::simple("r", mode, default_allow).with(&["/a"], grants))
}

fn rule_item_json(ep: usize, r: Rule) -> Option<Value> {
    let p = rule_policy(ep, r)?;
    let mut v = serde_json::to_value(p.to_item().unwrap()).unwrap();
    v["id"] = json!(format!("sha-{:016x}", vcommon::explore::fnv(format!("{ep}{:?}", r).as_bytes())));
    Some(v)
}

fn key_secret(i: usize) -> String {
    vcommon::sha::hex(&vcommon::sha::sha256(format!("secret-{i}").as_bytes()))
}
fn key_guid(i: usize) -> String {
    format!("{:08x}-0000-4000-8000-{:012x}", 0xabc00000u32 + i as u32, i)
}

impl HostModel {
    fn new() -> HostModel {
        HostModel { v2: false, v1_state: 0, v2_enabled: false, rules: [Rule::Absent; 3], latched: None, issued: 0, fault: None }
    }
    fn apply(&mut self, e: Ev) {
        match e {
            Ev::V1(s) => {
                self.v2 = false;
                self.v1_state = s;
            }
            Ev::V2Enabled(b) => {
                self.v2 = true;
                self.v2_enabled = b;
            }
            Ev::SetRule(ep, r) => {
                self.v2 = true;
                self.rules[ep as usize] = r;
            }
            Ev::Rotate => self.latched = None,
            Ev::LatchOther => {
                self.latched = Some(self.issued);
                self.issued += 1;
            }
            Ev::Fault(f) => self.fault = Some(f),
            Ev::Notify | Ev::Noop => {}
        }
    }
    fn status_doc(&self) -> Value {
        let mut d = json!({"authorizationScheme": "Azure-HMAC-SHA256", "keyDeliveryMethod": "http", "keyGuid": self.latched.map(key_guid), "version": if self.v2 { "2.0" } else { "1.0" }});
        if self.v2 {
            d["secureChannelEnabled"] = json!(self.v2_enabled);
            let mut rules = serde_json::Map::new();
            for (i, name) in ["wireserver", "imds", "hostga"].iter().enumerate() {
                if let Some(item) = rule_item_json(i, self.rules[i]) {
                    rules.insert(name.to_string(), item);
                }
            }
            if !rules.is_empty() {
                d["authorizationRules"] = Value::Object(rules);
            }
        } else {
            d["secureChannelState"] = json!(["Disabled", "Wireserver", "WireserverAndImds"][self.v1_state as usize]);
        }
        d
    }
    /// the channel state the host reports, as a comparable value (written from the protocol description)
    fn reported_state(&self) -> String {
        if self.v2 {
            if !self.v2_enabled || self.rules.iter().all(|r| *r == Rule::Absent) {
                "disabled".into()
            } else {
                format!("ws={:?} imds={:?}", self.mode(0), self.mode(1))
            }
        } else {
            ["disabled", "wireserver", "wireserverandimds"][self.v1_state as usize].into()
        }
    }
    fn channel_disabled(&self) -> bool {
        self.reported_state() == "disabled"
    }
    /// mode of an endpoint: 2.0 = mode of its rule item (disabled when absent; HostGAPlugin follows
    /// WireServer, as the code comments declare); 1.0 = never disabled
    fn mode(&self, ep: usize) -> &'static str {
        if self.v2 {
            let r = if ep == 2 { self.rules[0] } else { self.rules[ep] };
            match r {
                Rule::Absent | Rule::Disabled => "disabled",
                Rule::Audit => "audit",
                Rule::Enforce => "enforce",
            }
        } else {
            match (ep, self.v1_state) {
                (0, 1) | (0, 2) | (2, 1) | (2, 2) | (1, 2) => "enforce",
                _ => "audit",
            }
        }
    }
}

struct Gate {
    parked: bool,
    permits: usize,
    shutdown: bool,
    polls_answered: u64,
}

struct Shared {
    model: Mutex<HostModel>,
    gate: Mutex<Gate>,
    cv: Condvar,
    attest_problems: Mutex<Vec<String>>,
    log: Mutex<Vec<String>>,
    /// C10 mode: the running agent (to start signer probes on its runtime) and what the probes revealed
    agent: Mutex<Option<(tokio::runtime::Handle, gpa_harness::shared_state::key_keeper_wrapper::KeyKeeperSharedState)>>,
    sign_problems: Mutex<Vec<(String, String)>>,
    probes: std::sync::atomic::AtomicU64,
    probes_verified: std::sync::atomic::AtomicU64,
    c10: bool,
    /// index into HOST_PORTS of the listener the current history's agent talks to; requests arriving on any
    /// other listener come from the agent of an earlier history (sent just before it was stopped) and are reset
    active: std::sync::atomic::AtomicUsize,
    probe_outstanding: std::sync::atomic::AtomicBool,
}
/// (port 80, where the agent's telemetry task sends its own goal-state requests whatever the key keeper's base
/// URL is, gets a listener that answers 404 and judges nothing: those requests cannot be attributed to a history)
const HOST_PORTS: [u16; 4] = [8084, 8081, 8082, 8083];

const GOALSTATE: &str = r#"<?xml version="1.0" encoding="utf-8"?><GoalState><Version>2015-04-05</Version><Incarnation>16</Incarnation><Machine><ExpectedState>Started</ExpectedState><StopRolesDeadlineHint>300000</StopRolesDeadlineHint><LBProbePorts><Port>16001</Port></LBProbePorts><ExpectHealthReport>FALSE</ExpectHealthReport></Machine><Container><ContainerId>c</ContainerId><RoleInstanceList><RoleInstance><InstanceId>i</InstanceId><State>Started</State><Configuration><HostingEnvironmentConfig>http://168.63.129.16:80/machine/c/i?comp=config&amp;type=hostingEnvironmentConfig&amp;incarnation=16</HostingEnvironmentConfig><SharedConfig>http://168.63.129.16:80/machine/c/i?comp=config&amp;type=sharedConfig&amp;incarnation=16</SharedConfig><ExtensionsConfig>http://168.63.129.16:80/machine/c/i?comp=config&amp;type=extensionsConfig&amp;incarnation=16</ExtensionsConfig><FullConfig>http://168.63.129.16:80/machine/c/i?comp=config&amp;type=fullConfig&amp;incarnation=16</FullConfig><Certificates>http://168.63.129.16:80/machine/c/i?comp=certificates&amp;incarnation=16</Certificates><ConfigName>x.xml</ConfigName></Configuration></RoleInstance></RoleInstanceList></Container></GoalState>"#;

/// C10 mode: while the key keeper waits for the host's answer to `at` (status / acquire / attest), one of
/// the agent's own signed host calls (WireServerClient::get_goalstate) runs to completion on the agent's
/// runtime; the mock verifies it from its raw bytes under the key its key id names
fn probe(sh: &Arc<Shared>, at: &str) {
    if !sh.c10 {
        return;
    }
    let Some((handle, kk)) = sh.agent.lock().unwrap().clone() else { return };
    *PROBE_AT.lock().unwrap() = at.to_string();
    let port = HOST_PORTS[sh.active.load(std::sync::atomic::Ordering::SeqCst)];
    sh.probe_outstanding.store(true, std::sync::atomic::Ordering::SeqCst);
    let (tx, rx) = std::sync::mpsc::channel();
    handle.spawn(async move {
        let wsc = gpa_harness::host_clients::wire_server_client::WireServerClient::new("168.63.129.16", port, kk);
        let _ = wsc.get_goalstate().await;
        let _ = tx.send(());
    });
    sh.probes.fetch_add(1, std::sync::atomic::Ordering::SeqCst);
    if rx.recv_timeout(Duration::from_secs(30)).is_err() {
        sh.sign_problems.lock().unwrap().push(("signer-stuck".into(), format!("a signed host call started while the key keeper waited for the answer to {at} did not finish")));
    }
    sh.probe_outstanding.store(false, std::sync::atomic::Ordering::SeqCst);
}
static PROBE_AT: Mutex<String> = Mutex::new(String::new());

fn start_hosts(sh: &Arc<Shared>) -> Vec<MockHost> {
    static PORT80: std::sync::OnceLock<MockHost> = std::sync::OnceLock::new();
    PORT80.get_or_init(|| {
        let h = MockHost::start("wireserver-80", world::WS).unwrap_or_else(|e| vcommon::result::machinery(&format!("cannot bind {}: {e} (not inside bin/ns?)", world::WS)));
        h.set_responder(Arc::new(|_m: &Msg, _c, _i| Action::Reply(vec![simple_response(404, &[], b"")])));
        h
    });
    (0..HOST_PORTS.len()).map(|i| start_host(sh.clone(), i)).collect()
}

fn start_host(sh: Arc<Shared>, my_idx: usize) -> MockHost {
    let addr = format!("168.63.129.16:{}", HOST_PORTS[my_idx]);
    let h = MockHost::start(&format!("wireserver{my_idx}"), &addr).unwrap_or_else(|e| vcommon::result::machinery(&format!("cannot bind {addr}: {e} (not inside bin/ns?)")));
    h.set_responder(Arc::new(move |m: &Msg, _c, _i| {
        if sh.active.load(std::sync::atomic::Ordering::SeqCst) != my_idx {
            return Action::Reset; // a request of an agent that has been stopped
        }
        let t = m.target().to_string();
        if t.starts_with("/secure-channel/status") {
            // park until released
            let mut g = sh.gate.lock().unwrap();
            g.parked = true;
            sh.cv.notify_all();
            while g.permits == 0 && !g.shutdown {
                g = sh.cv.wait(g).unwrap();
            }
            if g.shutdown {
                g.parked = false;
                return Action::Reset;
            }
            g.permits -= 1;
            g.parked = false;
            g.polls_answered += 1;
            drop(g);
            probe(&sh, "status");
            let mut model = sh.model.lock().unwrap();
            let f = model.fault;
            match f {
                Some(Fault::Status500) => {
                    model.fault = None;
                    return Action::Reply(vec![simple_response(500, &[], b"boom")]);
                }
                Some(Fault::StatusInvalidJson) => {
                    model.fault = None;
                    return Action::Reply(vec![simple_response(200, &[("Content-Type", "application/json")], b"{ not json")]);
                }
                Some(Fault::StatusShape(n)) => {
                    model.fault = None;
                    let d = unreadable_status(model.status_doc(), n);
                    return Action::Reply(vec![simple_response(200, &[("Content-Type", "application/json")], d.to_string().as_bytes())]);
                }
                _ => {}
            }
            Action::Reply(vec![simple_response(200, &[("Content-Type", "application/json; charset=utf-8")], model.status_doc().to_string().as_bytes())])
        } else if t == "/secure-channel/key" {
            probe(&sh, "acquire");
            let mut model = sh.model.lock().unwrap();
            match model.fault {
                Some(Fault::Acquire500) => {
                    model.fault = None;
                    return Action::Reply(vec![simple_response(500, &[], b"no key")]);
                }
                Some(Fault::AcquireMalformed) => {
                    model.fault = None;
                    return Action::Reply(vec![simple_response(200, &[("Content-Type", "application/json")], b"{\"guid\": 5}")]);
                }
                _ => {}
            }
            let i = model.issued;
            model.issued += 1;
            sh.log.lock().unwrap().push(format!("acquire -> key#{i}"));
            let doc = json!({"authorizationScheme": "Azure-HMAC-SHA256", "guid": key_guid(i), "issued": "2026-01-01T00:00:00Z", "key": key_secret(i), "incarnationId": 1});
            Action::Reply(vec![simple_response(200, &[("Content-Type", "application/json")], doc.to_string().as_bytes())])
        } else if t.starts_with("/secure-channel/key/") && t.ends_with("/key-attestation") {
            probe(&sh, "attest");
            let mut model = sh.model.lock().unwrap();
            if model.fault == Some(Fault::Attest500) {
                model.fault = None;
                return Action::Reply(vec![simple_response(500, &[], b"attest failed")]);
            }
            let guid = t.trim_start_matches("/secure-channel/key/").trim_end_matches("/key-attestation").to_string();
            let idx = (0..model.issued).find(|i| key_guid(*i) == guid);
            match idx {
                None => {
                    sh.attest_problems.lock().unwrap().push(format!("attest for a key the host never issued: {guid}"));
                    Action::Reply(vec![simple_response(404, &[], b"")])
                }
                Some(i) => {
                    let mut keys = HashMap::new();
                    keys.insert(key_guid(i), key_secret(i));
                    let sent: Vec<String> = m.headers.iter().map(|h| h.0.to_lowercase()).collect();
                    match hostcheck::verify_signature(m, &keys, &sent) {
                        hostcheck::SigVerdict::Valid { .. } => {}
                        other => sh.attest_problems.lock().unwrap().push(format!("attest request for {guid} not validly signed with that key: {:?}", other)),
                    }
                    // the key must be complete on disk when the host is asked to latch it
                    let f = format!("{KEYS_DIR}/{guid}.key");
                    let on_disk = std::fs::read_to_string(&f).ok().and_then(|t| serde_json::from_str::<Value>(&t).ok());
                    if on_disk.as_ref().map(|v| v["key"] == json!(key_secret(i)) && v["guid"] == json!(guid)) != Some(true) {
                        sh.attest_problems.lock().unwrap().push(format!("attest arrived while {f} is not complete on disk"));
                    }
                    model.latched = Some(i);
                    sh.log.lock().unwrap().push(format!("attest key#{i}"));
                    Action::Reply(vec![simple_response(200, &[], b"")])
                }
            }
        } else if t.starts_with("/machine") && sh.c10 && sh.probe_outstanding.load(std::sync::atomic::Ordering::SeqCst) {
            // a signer probe: id and MAC must belong together (any key the host ever issued may be named)
            let issued = sh.model.lock().unwrap().issued;
            let mut keys = HashMap::new();
            for i in 0..issued {
                keys.insert(key_guid(i), key_secret(i));
            }
            let sent: Vec<String> = m.headers.iter().map(|h| h.0.to_lowercase()).collect();
            let at = PROBE_AT.lock().unwrap().clone();
            match hostcheck::verify_signature(m, &keys, &sent) {
                hostcheck::SigVerdict::Valid { .. } | hostcheck::SigVerdict::Unsigned => {
                    sh.probes_verified.fetch_add(1, std::sync::atomic::Ordering::SeqCst);
                }
                hostcheck::SigVerdict::Bad(why) => sh.sign_problems.lock().unwrap().push((format!("id-secret-mismatch:goalstate:during-{at}"), format!("a goal-state request signed while the key keeper waited for the host's answer to its {at} request: {why}; authorization {:?}", m.header(sigref::AUTHZ)))),
            }
            Action::Reply(vec![simple_response(200, &[("Content-Type", "text/xml; charset=utf-8")], GOALSTATE.as_bytes())])
        } else {
            Action::Reply(vec![simple_response(404, &[], b"")])
        }
    }));
    h
}

#[derive(Clone, Debug, PartialEq, Eq)]
struct AgentObs {
    state: String,
    key_guid: Option<String>,
    key_value: Option<String>,
    rules: [Option<(String, String, bool, Vec<String>)>; 3], // (id, mode, defaultAllowed, privilege paths)
    decisions: [Option<(bool, bool)>; 3],                   // is_allowed(alice,/a/x), is_allowed(bob,/a/x)
    rule_ids: [String; 3],
    key_files: Vec<(String, u64)>,
    policy_map: Vec<String>,
}

struct Agent {
    handle: tokio::runtime::Handle,
    shared: SharedState,
    policy: RawMap,
    join: Option<std::thread::JoinHandle<()>>,
}

fn claims(user: &str) -> Claims {
    Claims { userId: 1, userName: user.into(), userGroups: vec![], processId: 1, processName: "p".into(), processFullPath: "/p".into(), processCmdLine: "p".into(), runAsElevated: true, clientIp: "127.0.0.1".into(), clientPort: 1 }
}

impl Agent {
    fn start(sh: &Arc<Shared>, bpf: Arc<std::sync::Mutex<BpfObject>>, policy_fd: i32) -> Agent {
        // the BPF object (kernel maps) is loaded once and shared by all histories: start from an empty policy map
        {
            let pm = RawMap { fd: policy_fd, key_size: 24, value_size: 24 };
            for (k, _) in pm.dump() {
                pm.delete(&k);
            }
        }
        let _ = std::fs::remove_dir_all(KEYS_DIR);
        let _ = std::fs::remove_dir_all(LOG_DIR);
        let _ = std::fs::create_dir_all(LOG_DIR);
        let (tx, rx) = std::sync::mpsc::channel();
        let port = HOST_PORTS[sh.active.load(std::sync::atomic::Ordering::SeqCst)];
        let join = std::thread::Builder::new()
            .name("subject".into())
            .spawn(move || {
                let rt = tokio::runtime::Builder::new_current_thread().enable_all().start_paused(true).build().unwrap();
                rt.block_on(async move {
                    let shared = SharedState::start_all();
                    let policy = RawMap { fd: policy_fd, key_size: 24, value_size: 24 };
                    let r = shared.get_redirector_shared_state();
                    r.update_bpf_object(bpf).await.unwrap();
                    r.set_local_port(3080).await.unwrap();
                    tx.send((tokio::runtime::Handle::current(), shared.clone(), policy)).unwrap();
                    let kk = KeyKeeper::new(format!("http://168.63.129.16:{port}/").parse().unwrap(), KEYS_DIR.into(), LOG_DIR.into(), Duration::from_secs(15), &shared);
                    kk.poll_secure_channel_status().await;
                });
            })
            .unwrap();
        let (handle, shared, policy) = rx.recv_timeout(Duration::from_secs(120)).unwrap_or_else(|_| vcommon::result::machinery("subject runtime did not start"));
        *sh.agent.lock().unwrap() = Some((handle.clone(), shared.get_key_keeper_shared_state()));
        Agent { handle, shared, policy, join: Some(join) }
    }
    fn observe(&self) -> AgentObs {
        let kk = self.shared.get_key_keeper_shared_state();
        let (tx, rx) = std::sync::mpsc::channel();
        self.handle.spawn(async move {
            let state = kk.get_current_secure_channel_state().await.unwrap_or_default();
            let key_guid = kk.get_current_key_guid().await.unwrap_or(None);
            let key_value = kk.get_current_key_value().await.unwrap_or(None);
            let rs = [kk.get_wireserver_rules().await.unwrap_or(None), kk.get_imds_rules().await.unwrap_or(None), kk.get_hostga_rules().await.unwrap_or(None)];
            let ids = [kk.get_wireserver_rule_id().await.unwrap_or_default(), kk.get_imds_rule_id().await.unwrap_or_default(), kk.get_hostga_rule_id().await.unwrap_or_default()];
            let _ = tx.send((state, key_guid, key_value, rs, ids));
        });
        let (state, key_guid, key_value, rs, rule_ids): (String, Option<String>, Option<String>, [Option<ComputedAuthorizationItem>; 3], [String; 3]) = match rx.recv_timeout(Duration::from_secs(if self.join.as_ref().map_or(false, |j| j.is_finished()) { 2 } else { 90 })) {
            Ok(v) => v,
            // the subject's thread has ended (its poll loop panicked): that is the subject's doing, not the harness's; the
            // observation says so and the history reports that the key keeper stopped polling
            Err(_) if self.join.as_ref().map_or(false, |j| j.is_finished()) => ("SUBJECT-THREAD-ENDED".to_string(), None, None, [None, None, None], [String::new(), String::new(), String::new()]),
            Err(_) => vcommon::result::machinery("agent getters did not answer"),
        };
        let mut rules: [Option<(String, String, bool, Vec<String>)>; 3] = [None, None, None];
        let mut decisions = [None, None, None];
        let mut lg = ConnectionLogger::new(0, 0);
        for i in 0..3 {
            if let Some(r) = &rs[i] {
                let mut paths: Vec<String> = r.privileges.values().map(|p| p.path.clone()).collect();
                paths.sort();
                rules[i] = Some((r.id.clone(), r.mode.to_string(), r.defaultAllowed, paths));
                let u: hyper::Uri = "/a/x".parse().unwrap();
                decisions[i] = Some((r.is_allowed(&mut lg, u.clone(), claims("alice")), r.is_allowed(&mut lg, u, claims("bob"))));
            }
        }
        let mut key_files: Vec<(String, u64)> = std::fs::read_dir(KEYS_DIR)
            .map(|rd| rd.flatten().map(|e| (e.file_name().to_string_lossy().to_string(), vcommon::explore::fnv(&std::fs::read(e.path()).unwrap_or_default()))).filter(|f| !f.0.ends_with(".tag") && !f.0.ends_with(".tmp")).collect())
            .unwrap_or_default();
        key_files.sort();
        let policy_map: Vec<String> = self.policy.dump().iter().map(|(k, _)| format!("{}.{}.{}.{}:{}", k[0], k[1], k[2], k[3], u16::from_be_bytes([k[16], k[17]]))).collect();
        AgentObs { state, key_guid, key_value, rules, decisions, rule_ids, key_files, policy_map }
    }
    fn stop(mut self, sh: &Shared, hosts: &[MockHost]) {
        *sh.agent.lock().unwrap() = None;
        self.shared.cancel_cancellation_token();
        {
            let mut g = sh.gate.lock().unwrap();
            g.shutdown = true;
            sh.cv.notify_all();
        }
        if let Some(j) = self.join.take() {
            let t = Instant::now();
            while !j.is_finished() {
                if t.elapsed() > Duration::from_secs(90) {
                    vcommon::result::machinery("the subject thread did not stop after cancellation");
                }
                std::thread::sleep(Duration::from_micros(200));
            }
            let _ = j.join();
        }
        // the agent is gone; requests it sent just before dying are answered with a reset while
        // `shutdown` is still set, so that none of them can take a permit of the next history
        let host = &hosts[sh.active.load(std::sync::atomic::Ordering::SeqCst)];
        let t = Instant::now();
        while host.open_connections() > 0 {
            if t.elapsed() > Duration::from_secs(90) {
                vcommon::result::machinery("mock host connections of the stopped agent did not close");
            }
            sh.cv.notify_all();
            std::thread::sleep(Duration::from_micros(200));
        }
        host.truncate_log();
        let mut g = sh.gate.lock().unwrap();
        g.shutdown = false;
        g.parked = false;
        g.permits = 0;
    }
}

fn wait_parked(sh: &Shared) -> bool {
    let mut g = sh.gate.lock().unwrap();
    let t = Instant::now();
    while !g.parked {
        let (ng, to) = sh.cv.wait_timeout(g, Duration::from_millis(200)).unwrap();
        g = ng;
        if to.timed_out() && t.elapsed() > Duration::from_secs(30) {
            return false;
        }
    }
    true
}

fn release(sh: &Shared) {
    let mut g = sh.gate.lock().unwrap();
    g.permits += 1;
    g.parked = false;
    sh.cv.notify_all();
}

static BPF: std::sync::OnceLock<(Arc<std::sync::Mutex<BpfObject>>, i32)> = std::sync::OnceLock::new();

struct HistOut {
    problems: Vec<(String, String)>, // of the last step
    canon: String,
    polls: u64,
}

const N_SHAPES: u8 = 11;
/// Answers that are JSON but cannot be read as a status document: the field that carries the channel
/// state for the document's protocol version (1.0: secureChannelState in {Disabled, Wireserver,
/// WireserverAndImds}; 2.0: secureChannelEnabled) is missing or unusable, a mandatory field is missing, or
/// the answer is not an object. Everything else (key id, rules) is what the host would otherwise send.
fn unreadable_status(mut d: Value, shape: u8) -> Value {
    let o = d.as_object_mut().unwrap();
    match shape {
        0 => {
            o.remove("secureChannelState");
            o.remove("secureChannelEnabled");
        }
        1 | 2 => {
            o.insert("version".into(), json!("1.0"));
            o.remove("secureChannelState");
            o.insert("secureChannelEnabled".into(), json!(shape == 1));
        }
        3 | 4 | 5 => {
            o.insert("version".into(), json!("2.0"));
            o.remove("secureChannelEnabled");
            o.insert("secureChannelState".into(), json!(["Wireserver", "Disabled", "WireserverAndImds"][(shape - 3) as usize]));
        }
        6 => {
            o.insert("version".into(), json!("1.0"));
            o.remove("secureChannelEnabled");
            o.insert("secureChannelState".into(), json!("Bogus"));
        }
        7 => {
            o.remove("version");
        }
        8 => {
            o.remove("authorizationScheme");
        }
        9 => return json!([d]),
        _ => return json!("Wireserver"),
    }
    d
}

fn ev_json(e: &Ev) -> Value {
    json!(format!("{:?}", e))
}

/// replay a history of host events from scratch: one agent poll after each event
fn run_history(sh: &Arc<Shared>, host: &[MockHost], hist: &[Ev]) -> HistOut {
    // a fresh listener for every history: whatever the previous agent still had in flight goes to the old one
    sh.active.store((sh.active.load(std::sync::atomic::Ordering::SeqCst) + 1) % HOST_PORTS.len(), std::sync::atomic::Ordering::SeqCst);
    let (bpf, policy_fd) = BPF.get().expect("bpf").clone();
    *sh.model.lock().unwrap() = HostModel::new();
    sh.attest_problems.lock().unwrap().clear();
    sh.log.lock().unwrap().clear();
    sh.sign_problems.lock().unwrap().clear();
    let agent = Agent::start(sh, bpf, policy_fd);
    // (a heavily loaded machine may starve a freshly started subject for a long time: up to two minutes here)
    if !(wait_parked(sh) || wait_parked(sh) || wait_parked(sh) || wait_parked(sh)) {
        vcommon::result::machinery("the key keeper never sent its first status request");
    }
    let mut problems: Vec<(String, String)> = Vec::new();
    let mut prev_reported: Option<String> = None; // reported state at the last successful poll
    let mut polls = 0u64;
    for (i, e) in hist.iter().enumerate() {
        let last = i + 1 == hist.len();
        sh.model.lock().unwrap().apply(*e);
        if *e == Ev::Notify {
            let kk = agent.shared.get_key_keeper_shared_state();
            let _ = agent.handle.block_on(async move { kk.notify().await });
        }
        let before = agent.observe();
        let fault_armed = sh.model.lock().unwrap().fault;
        let acquires_before = sh.model.lock().unwrap().issued;
        release(sh);
        if !wait_parked(sh) {
            if last || hist.len() > 10 {
                problems.push(("key-keeper-stopped-polling".into(), format!("after event {:?} the key keeper did not come back with another status poll", e)));
            }
            break;
        }
        polls += 1;
        let model = sh.model.lock().unwrap().clone();
        let after = agent.observe();
        let fault_fired = fault_armed.is_some() && model.fault.is_none();
        if std::env::var("VERIF_C09_DEBUG").is_ok() {
            eprintln!("DBG event {:?}: fault_armed {:?} fired {} reported {:?} prev {:?} policy_map {:?} key {:?}", e, fault_armed, fault_fired, model.reported_state(), prev_reported, after.policy_map, after.key_guid);
        }
        let status_fault = fault_fired && matches!(fault_armed, Some(Fault::Status500) | Some(Fault::StatusInvalidJson) | Some(Fault::StatusShape(_)));
        if last {
            let ap = sh.attest_problems.lock().unwrap().clone();
            for p in ap {
                problems.push(("attest-protocol".into(), p));
            }
            for p in sh.sign_problems.lock().unwrap().clone() {
                problems.push(p);
            }
            if status_fault {
                if after != before {
                    problems.push(("failed-status-poll-changed-state".into(), format!("a poll whose status request failed ({:?}) changed the agent: before {:?} after {:?}", fault_armed, before, after)));
                }
            } else if !fault_fired {
                // complete, fault-free poll: the agent is a function of the answer alone
                for ep in 0..3 {
                    let want = if model.v2 { rule_policy(ep, model.rules[ep]) } else { None };
                    let name = ["wireserver", "imds", "hostga"][ep];
                    match (&want, &after.rules[ep]) {
                        (None, None) => {}
                        (Some(p), Some((id, mode, default_allowed, paths))) => {
                            let want_id = rule_item_json(ep, model.rules[ep]).unwrap()["id"].as_str().unwrap().to_string();
                            let want_mode = p.mode.unwrap().to_lowercase();
                            if *id != want_id || *mode != want_mode || *default_allowed != p.default_allow || *paths != p.privs.iter().map(|s| s.to_string()).collect::<Vec<_>>() {
                                problems.push((format!("rules-not-the-latest:{name}"), format!("{name} rules in force are (id {id}, mode {mode}, default {default_allowed}, paths {:?}); the latest document carries (id {want_id}, mode {want_mode}, default {}, paths {:?})", paths, p.default_allow, p.privs)));
                            }
                            let want_dec = (p.allows("alice", "/a/x"), p.allows("bob", "/a/x"));
                            if after.decisions[ep] != Some(want_dec) {
                                problems.push((format!("rules-decide-differently:{name}"), format!("{name}: decisions for (alice, bob) on /a/x are {:?}, the latest document gives {:?}", after.decisions[ep], want_dec)));
                            }
                        }
                        (None, Some(r)) => problems.push((format!("rules-not-removed:{name}"), format!("{name} rules {:?} still in force although the latest document carries none", r))),
                        (Some(_), None) => problems.push((format!("rules-missing:{name}"), format!("{name}: no rules in force although the latest document carries {:?}", model.rules[ep]))),
                    }
                }
                if model.channel_disabled() {
                    if after.key_guid.is_some() || after.key_value.is_some() {
                        problems.push(("key-held-while-channel-disabled".into(), format!("the host reports the channel disabled but the agent holds key {:?}", after.key_guid)));
                    }
                } else {
                    let want_guid = model.latched.map(key_guid);
                    let want_secret = model.latched.map(key_secret);
                    if after.key_guid != want_guid || after.key_value != want_secret {
                        problems.push(("key-not-the-latched-one".into(), format!("agent uses key {:?}; the host has latched {:?} (host log {:?})", after.key_guid, want_guid, sh.log.lock().unwrap())));
                    }
                    if want_guid.is_none() {
                        problems.push(("no-key-latched-after-complete-poll".into(), "channel enabled, poll without faults, but no key was attested".into()));
                    }
                }
                // whenever the reported state changes, each endpoint is intercepted iff its mode != disabled
                let reported = model.reported_state();
                if prev_reported.as_ref() != Some(&reported) {
                    let mut want: Vec<String> = Vec::new();
                    for (ep, addr) in [(0usize, "168.63.129.16:80"), (1, "169.254.169.254:80"), (2, "168.63.129.16:32526")] {
                        if model.mode(ep) != "disabled" {
                            want.push(addr.to_string());
                        }
                    }
                    want.sort();
                    let mut got = after.policy_map.clone();
                    got.sort();
                    if got != want {
                        problems.push(("interception-differs-from-modes".into(), format!("reported channel state changed to {reported:?}: intercepted endpoints {:?}, endpoints whose mode is not disabled {:?}", got, want)));
                    }
                }
            }
            let _ = acquires_before;
        }
        if !fault_fired || !status_fault {
            if !fault_fired {
                prev_reported = Some(model.reported_state());
            }
        }
    }
    let model = sh.model.lock().unwrap().clone();
    let obs = agent.observe();
    // canonical state: host model + agent state with key identities normalised
    let norm_key = |g: &Option<String>| g.as_ref().map(|g| if model.latched.map(key_guid).as_ref() == Some(g) { "latched".to_string() } else { "other".to_string() });
    let canon = format!(
        "host[v2={} s={} en={} r={:?} latched={} fault={:?}] agent[state={} key={:?} rules={:?} ids={:?} files={} pol={:?}] prev={:?}",
        model.v2, model.v1_state, model.v2_enabled, model.rules, model.latched.is_some(), model.fault, obs.state, norm_key(&obs.key_guid), obs.rules, obs.rule_ids, obs.key_files.len().min(2), obs.policy_map, prev_reported
    );
    agent.stop(sh, host);
    HistOut { problems, canon, polls }
}

/// C10 mode keeps only what the signer probes found (the C09 oracles are C09's business) and adds the probe counts
fn fin(res: &mut EngineResult, sh: &Arc<Shared>) -> i32 {
    if sh.c10 {
        res.violations.retain(|k, _| k.starts_with("id-secret-mismatch") || k.starts_with("signer-stuck") || k.starts_with("panic"));
        if vcommon::result::worker().is_some() || std::env::var("VERIF_NO_SHARD").is_ok() || std::env::var("VERIF_REPLAY").is_ok() {
            res.cov("signer_probes_started", sh.probes.load(std::sync::atomic::Ordering::SeqCst));
            res.cov("signer_probes_verified_at_host", sh.probes_verified.load(std::sync::atomic::Ordering::SeqCst));
        }
        res.cov("probe_rule", "in every history of the host-behaviour BFS, each time the real key keeper waits for the host's answer to a status, key-acquisition or attestation request, WireServerClient::get_goalstate runs to completion on the agent's runtime and is verified at the mock host from its raw bytes under the key its key id names".to_string());
    }
    res.finish()
}

fn main() {
    proxy_agent_shared::logger::logger_manager::set_logger_level(proxy_agent_shared::logger::LoggerLevel::Error);
    world::install_panic_recorder();
    let thorough = is_thorough();
    let c10 = std::env::var("VERIF_PROPERTY").map(|p| p == "C10").unwrap_or(false);
    let mut res = EngineResult::new(if c10 { "C10" } else { "C09" });
    let sh = Arc::new(Shared { model: Mutex::new(HostModel::new()), gate: Mutex::new(Gate { parked: false, permits: 0, shutdown: false, polls_answered: 0 }), cv: Condvar::new(), attest_problems: Mutex::new(vec![]), log: Mutex::new(vec![]), agent: Mutex::new(None), sign_problems: Mutex::new(vec![]), probes: Default::default(), probes_verified: Default::default(), c10, active: Default::default(), probe_outstanding: Default::default() });
    let _host = if vcommon::result::worker().is_some() || std::env::var("VERIF_NO_SHARD").is_ok() || std::env::var("VERIF_REPLAY").is_ok() { Some(start_hosts(&sh)) } else { None };
    {
        let bpf = BpfObject::from_ebpf_file(&world::ebpf_object_path()).unwrap_or_else(|e| vcommon::result::machinery(&format!("bpf object: {e}")));
        let fd = map_fd(&bpf, "policy_map");
        let _ = BPF.set((Arc::new(std::sync::Mutex::new(bpf)), fd));
    }

    let mut alphabet: Vec<Ev> = vec![Ev::Noop, Ev::V1(0), Ev::V1(1), Ev::V1(2), Ev::V2Enabled(true), Ev::V2Enabled(false), Ev::Rotate, Ev::LatchOther, Ev::Notify];
    let rule_vals: Vec<Rule> = if thorough { vec![Rule::Absent, Rule::Audit, Rule::Enforce, Rule::Disabled] } else { vec![Rule::Absent, Rule::Audit, Rule::Enforce] };
    for ep in 0..3u8 {
        for r in &rule_vals {
            if !thorough && ep == 2 && *r == Rule::Audit {
                continue;
            }
            alphabet.push(Ev::SetRule(ep, *r));
        }
    }
    for f in [Fault::Status500, Fault::StatusInvalidJson, Fault::StatusShape(0), Fault::StatusShape(3), Fault::Acquire500, Fault::AcquireMalformed, Fault::Attest500] {
        alphabet.push(Ev::Fault(f));
    }

    if let Ok(path) = std::env::var("VERIF_REPLAY") {
        let doc: Value = serde_json::from_str(&std::fs::read_to_string(path).unwrap()).unwrap();
        let want: Vec<String> = doc["case"]["history"].as_array().unwrap().iter().map(|v| v.as_str().unwrap().to_string()).collect();
        let universe: Vec<Ev> = {
            let mut u = alphabet.clone();
            for ep in 0..3u8 {
                for r in [Rule::Absent, Rule::Audit, Rule::Enforce, Rule::Disabled] {
                    u.push(Ev::SetRule(ep, r));
                }
            }
            u
        };
        let hist: Vec<Ev> = want.iter().map(|w| *universe.iter().find(|e| format!("{:?}", e) == *w).unwrap_or_else(|| vcommon::result::machinery("unknown event in replay"))).collect();
        let o = run_history(&sh, _host.as_ref().unwrap().as_slice(), &hist);
        for (sig, what) in o.problems {
            res.violation(&sig, &what, doc["case"].clone());
        }
        res.cov("states", 1);
        res.cov("transitions", hist.len() as u64);
        res.cov("traces_validated_against_impl", 1);
        res.sample(doc["case"].clone());
        std::process::exit(fin(&mut res, &sh));
    }

    let me = vcommon::result::worker();
    if me.is_none() && std::env::var("VERIF_NO_SHARD").is_err() {
        let n = 16usize.min(alphabet.len());
        vcommon::result::run_workers(&mut res, n, "ip addr add 168.63.129.16/32 dev lo; mount -t tmpfs tmpfs /var/lib/azure-proxy-agent; mount -t tmpfs tmpfs /var/log/azure-proxy-agent;");
        let capped = res.coverage.get("wall_cap_hit").and_then(|v| v.as_bool()).unwrap_or(false);
        res.cov("exhaustive", !capped);
        res.cov("workers", n as u64);
        res.cov("depth_bound", if thorough { 5u64 } else { 3 });
        res.cov("states_note", "states are unique per worker shard (histories are sharded by their first event) and summed");
        std::process::exit(fin(&mut res, &sh));
    }
    let (wi, wn) = me.unwrap_or((0, 1));
    // determinism gate
    if wi == 0 {
        let h = vec![Ev::V1(1), Ev::Fault(Fault::Attest500), Ev::Noop, Ev::SetRule(1, Rule::Enforce), Ev::Rotate];
        let a = run_history(&sh, _host.as_ref().unwrap().as_slice(), &h);
        let b = run_history(&sh, _host.as_ref().unwrap().as_slice(), &h);
        if a.canon != b.canon || a.problems != b.problems {
            vcommon::result::machinery(&format!("determinism gate failed:\n{}\n{}", a.canon, b.canon));
        }
    }

    let depth = if thorough { 5 } else { 3 };
    // with the signer probes of C10 every host wait costs a signed round trip more
    let budget = Duration::from_secs(if thorough { if std::env::var("VERIF_PROPERTY").as_deref() == Ok("C10") { 2700 } else { 1500 } } else { 40 });
    let mut covered_depth = depth;
    let t0 = Instant::now();
    let mut seen: HashSet<String> = HashSet::new();
    let mut frontier: VecDeque<Vec<Ev>> = VecDeque::new();
    frontier.push_back(vec![]);
    let mut transitions = 0u64;
    let mut polls = 0u64;
    let mut maxd = 0usize;
    let mut capped = false;
    let mut diff: BTreeMap<String, String> = BTreeMap::new(); // host part -> agent part (differential oracle)
    'bfs: while let Some(h) = frontier.pop_front() {
        if h.len() >= depth {
            continue;
        }
        for (ei, e) in alphabet.iter().enumerate() {
            if h.is_empty() && ei % wn != wi {
                continue; // first event decides the shard
            }
            let mut h2 = h.clone();
            h2.push(*e);
            let o = run_history(&sh, _host.as_ref().unwrap().as_slice(), &h2);
            transitions += 1;
            polls += o.polls;
            maxd = maxd.max(h2.len());
            let case = json!({"history": h2.iter().map(ev_json).collect::<Vec<_>>()});
            for (sig, what) in &o.problems {
                res.violation(sig, what, case.clone());
            }
            // differential: same host state => same rules, key and channel state (interception is only specified at state changes and is not compared),
            // once a complete fault-free poll has been seen (canon already contains both parts)
            if let Some((hostpart, agentpart)) = o.canon.split_once("] agent[") {
                let agentpart = agentpart.split(" files=").next().unwrap_or(agentpart);
                if !hostpart.contains("fault=Some") && matches!(e, Ev::Noop) {
                    match diff.get(hostpart) {
                        None => {
                            diff.insert(hostpart.to_string(), agentpart.to_string());
                        }
                        Some(prev) if prev != agentpart => {
                            res.violation("history-dependent-state-after-settling", &format!("the same host state reached by another history gives a different agent state after a settling poll: {prev} vs {agentpart}"), case.clone());
                        }
                        _ => {}
                    }
                }
            }
            if seen.insert(o.canon.clone()) {
                if transitions <= 3 || (h2.len() == 3 && res.samples.len() < 5) {
                    res.sample(json!({"history": h2.iter().map(ev_json).collect::<Vec<_>>(), "state": o.canon}));
                }
                frontier.push_back(h2);
            }
            if t0.elapsed() > budget {
                capped = true;
                covered_depth = h.len(); // breadth first: every history up to the length of the one being extended has run
                break 'bfs;
            }
        }
    }
    // every unreadable answer shape after each of these base histories (must change nothing)
    let bases: Vec<Vec<Ev>> = vec![
        vec![Ev::V1(1)],
        vec![Ev::V1(2)],
        vec![Ev::V1(0)],
        vec![Ev::V2Enabled(true)],
        vec![Ev::V2Enabled(true), Ev::SetRule(0, Rule::Enforce)],
        vec![Ev::V2Enabled(true), Ev::SetRule(1, Rule::Audit)],
        vec![Ev::V2Enabled(false)],
        vec![Ev::V1(1), Ev::Rotate],
    ];
    let mut shape_histories = 0u64;
    let mut n = 0usize;
    for b in &bases {
        for shape in 0..N_SHAPES {
            n += 1;
            if n % wn != wi {
                continue;
            }
            let mut h2 = b.clone();
            h2.push(Ev::Fault(Fault::StatusShape(shape)));
            let o = run_history(&sh, _host.as_ref().unwrap().as_slice(), &h2);
            transitions += 1;
            shape_histories += 1;
            polls += o.polls;
            let case = json!({"history": h2.iter().map(ev_json).collect::<Vec<_>>()});
            for (sig, what) in &o.problems {
                res.violation(sig, what, case.clone());
            }
        }
    }
    res.cov("unreadable_answer_shape_histories", shape_histories);
    // a key step fails in the very poll that first sees a changed, non-disabled 2.0 state (the fault is armed beforehand, two
    // events make the state, one settling poll follows: depth 4, beyond the quick BFS bound)
    let mut fault_at_change = 0u64;
    for f in [Fault::Acquire500, Fault::AcquireMalformed, Fault::Attest500] {
        for (ep, rule) in [(0u8, Rule::Enforce), (0, Rule::Audit), (1, Rule::Enforce), (1, Rule::Audit)] {
            for order in 0..2 {
                n += 1;
                if n % wn != wi {
                    continue;
                }
                let h2 = if order == 0 { vec![Ev::Fault(f), Ev::V2Enabled(true), Ev::SetRule(ep, rule), Ev::Noop] } else { vec![Ev::Fault(f), Ev::SetRule(ep, rule), Ev::V2Enabled(true), Ev::Noop] };
                let o = run_history(&sh, _host.as_ref().unwrap().as_slice(), &h2);
                transitions += 1;
                fault_at_change += 1;
                polls += o.polls;
                let case = json!({"history": h2.iter().map(ev_json).collect::<Vec<_>>()});
                for (sig, what) in &o.problems {
                    res.violation(sig, what, case.clone());
                }
            }
        }
    }
    res.cov("key_step_fault_at_state_change_histories", fault_at_change);
    // long outages: 70 consecutive polls whose status request fails (beyond any counter or back-off a key keeper may keep),
    // before and after the channel was enabled; the next good poll is obeyed as always
    let mut long_outage = 0u64;
    for f in [Fault::Status500, Fault::StatusInvalidJson] {
        for order in 0..2 {
            n += 1;
            if n % wn != wi {
                continue;
            }
            let mut h2 = Vec::new();
            if order == 0 {
                h2.push(Ev::V2Enabled(true));
            }
            h2.extend(std::iter::repeat(Ev::Fault(f)).take(70));
            if order == 1 {
                h2.push(Ev::V2Enabled(true));
            }
            h2.push(Ev::Noop);
            let o = run_history(&sh, _host.as_ref().unwrap().as_slice(), &h2);
            transitions += 1;
            long_outage += 1;
            polls += o.polls;
            let case = json!({"history": h2.iter().map(ev_json).collect::<Vec<_>>(), "family": "long-outage"});
            for (sig, what) in &o.problems {
                res.violation(sig, what, case.clone());
            }
        }
    }
    res.cov("long_outage_histories", long_outage);
    for p in world::take_panics() {
        res.violation("panic", &p, json!({"note": "panic during exploration"}));
    }
    res.cov("states", seen.len() as u64);
    res.cov("transitions", transitions);
    res.cov("traces_validated_against_impl", transitions);
    res.cov("agent_polls_executed", polls);
    res.cov("max_depth", maxd as u64);
    res.cov("wall_cap_hit", capped);
    res.cov("min_fully_covered_depth", covered_depth as u64);
    res.cov("exhaustive", !capped);
    res.cov("rule", format!("BFS over histories of host events (protocol 1.0 states, 2.0 enabled flag, per-endpoint rule item in {:?} for wireserver/imds/hostga, rotate = host forgets its latch, host latches a key the guest never had, one-shot faults at status/acquire/attest, no-op poll; {} events) to depth {depth}, plus each of 11 unreadable answer shapes (channel-state field of the document's version missing or unusable, mandatory field missing, not an object) after 8 base histories, one real agent poll per event in lock-step, deduplicated on (host model, agent getters, key directory, kernel policy map); each history replayed from scratch on the real KeyKeeper with a paused clock", rule_vals, alphabet.len()));
    res.assume("distinct rule contents have distinct ids (host contract; replacement is keyed on the id)");
    res.assume("mode of an endpoint: protocol 2.0 = mode of its rule item, disabled when absent, HostGAPlugin follows WireServer; protocol 1.0 = never disabled");
    std::process::exit(fin(&mut res, &sh));
}
