//! C08: a key is never latched at the host unless the guest can recover it.
//! Fault enumeration: the subject (real KeyKeeper poll loop + real signed goal-state call) runs as
//! a child under `strace -e inject=...:signal=SIGKILL:when=k`; k ranges over every syscall of the
//! recorded fault-free window (file-system calls and socket calls between the first status poll and
//! the first accepted signed request), in four store scenarios x host faults. After each kill the
//! coordinator (which owns the mock host, so the host's view survives) inspects the key store and
//! starts a fresh process on it.

use gpa_harness::host_clients::wire_server_client::WireServerClient;
use gpa_harness::key_keeper::KeyKeeper;
use gpa_harness::shared_state::SharedState;
use gpa_harness::verif::hostcheck;
use serde_json::{json, Value};
use std::collections::{BTreeMap, BTreeSet, HashMap};
use std::sync::{Arc, Mutex};
use std::time::{Duration, Instant};
use vcommon::rawhttp::{simple_response, Action, MockHost, Msg};
use vcommon::result::{is_thorough, EngineResult};

const GOALSTATE: &str = r#"<?xml version="1.0" encoding="utf-8"?><GoalState><Version>2015-04-05</Version><Incarnation>16</Incarnation><Machine><ExpectedState>Started</ExpectedState><StopRolesDeadlineHint>300000</StopRolesDeadlineHint><LBProbePorts><Port>16001</Port></LBProbePorts><ExpectHealthReport>FALSE</ExpectHealthReport></Machine><Container><ContainerId>c</ContainerId><RoleInstanceList><RoleInstance><InstanceId>i</InstanceId><State>Started</State><Configuration><HostingEnvironmentConfig>http://168.63.129.16:80/machine/c/i?comp=config&amp;type=hostingEnvironmentConfig&amp;incarnation=16</HostingEnvironmentConfig><SharedConfig>http://168.63.129.16:80/machine/c/i?comp=config&amp;type=sharedConfig&amp;incarnation=16</SharedConfig><ExtensionsConfig>http://168.63.129.16:80/machine/c/i?comp=config&amp;type=extensionsConfig&amp;incarnation=16</ExtensionsConfig><FullConfig>http://168.63.129.16:80/machine/c/i?comp=config&amp;type=fullConfig&amp;incarnation=16</FullConfig><Certificates>http://168.63.129.16:80/machine/c/i?comp=certificates&amp;incarnation=16</Certificates><ConfigName>x.xml</ConfigName></Configuration></RoleInstance></RoleInstanceList></Container></GoalState>"#;

// ------------------------------------------------------------------------------------------------ child

fn child_main() -> ! {
    proxy_agent_shared::logger::logger_manager::set_logger_level(proxy_agent_shared::logger::LoggerLevel::Error);
    let port: u16 = std::env::var("VERIF_C08_PORT").unwrap().parse().unwrap();
    let key_dir = std::env::var("VERIF_C08_KEYDIR").unwrap();
    let rt = tokio::runtime::Builder::new_current_thread().enable_all().start_paused(true).build().unwrap();
    // everything runs in spawned tasks: wake-ups stay inside the scheduler (waking block_on's own
    // future writes to the runtime's eventfd, which would add nondeterministic write() calls)
    let code = rt.block_on(async move { tokio::spawn(child_logic(port, key_dir)).await.unwrap_or(5) });
    std::process::exit(code)
}

async fn child_logic(port: u16, key_dir: String) -> i32 {
    {
        let shared = SharedState::start_all();
        let kk = KeyKeeper::new(format!("http://168.63.129.16:{port}/").parse().unwrap(), key_dir.clone().into(), format!("{key_dir}-logs").into(), Duration::from_secs(15), &shared);
        tokio::spawn(async move { kk.poll_secure_channel_status().await });
        let ks = shared.get_key_keeper_shared_state();
        let t0 = std::time::Instant::now();
        loop {
            if let Ok(Some(_)) = ks.get_current_key_guid().await {
                break;
            }
            if t0.elapsed() > Duration::from_secs(8) {
                return 3;
            }
            tokio::time::sleep(Duration::from_millis(100)).await;
        }
        let c = WireServerClient::new("168.63.129.16", port, ks.clone());
        for _ in 0..40 {
            if c.get_goalstate().await.is_ok() {
                return 0;
            }
            if t0.elapsed() > Duration::from_secs(8) {
                return 4;
            }
            tokio::time::sleep(Duration::from_millis(500)).await;
        }
        4
    }
}

// ------------------------------------------------------------------------------------------------ coordinator

#[derive(Clone, Copy, Debug, PartialEq, Eq, Hash, PartialOrd, Ord)]
enum Fault {
    None,
    Status500,
    StatusMalformed,
    Acquire500,
    AcquireMalformed,
    Attest500,
    AttestLatchThenReset,
    AttestResetBeforeLatch,
}

#[derive(Clone, Copy, Debug, PartialEq, Eq, Hash, PartialOrd, Ord)]
enum Scenario {
    FreshLatch,
    RestartWithKey,
    /// like RestartWithKey, but the stored key document has no incarnationId while the status document carries keyIncarnationId
    RestartWithKeyNoIncarnation,
    /// like RestartWithKey, but the host writes its key ids with upper-case hex digits
    RestartWithKeyUpperCaseGuid,
    RotationNoGuid,   // host names no key while an old key file exists
    RotationOtherGuid, // host names a key the guest never had
    LocalKeyTruncated,
    LocalKeyEmpty,
    /// like LocalKeyTruncated / LocalKeyEmpty, and the host hands the latched key out again when asked for a key (the
    /// damaged file then stands under the very name the acquired key is stored under)
    LocalKeyTruncatedHostReissues,
    LocalKeyEmptyHostReissues,
    /// the local file of the latched key cannot even be read as text: bytes that are not UTF-8 / a directory under its name
    LocalKeyNotUtf8,
    LocalKeyIsDirectory,
}

#[derive(Default)]
struct HostState {
    latched: Option<usize>,
    issued: Vec<(String, String)>, // guid, secret
    acquires: u64,
    attests: u64,
    accepted_signed: u64,
    rejected_signed: u64,
    fault: Option<Fault>,
    problems: Vec<String>,
    key_dir: String,
    tag: u64,
    /// what the scenario put into the store / into the host before the agent started
    initial_files: HashMap<String, Vec<u8>>,
    initial_latched: Option<usize>,
    /// which of the slot's listeners the child of the current run talks to
    listener: usize,
    /// the host writes key ids in upper case
    upper: bool,
    /// keyIncarnationId of the status document (an optional field)
    status_incarnation: Option<u32>,
    /// key ids for which an attest request arrived in this run, in order
    attested_guids: Vec<(String, f64)>,
    /// asked for a key while one is latched, the host hands that one out again
    reissue_latched: bool,
}

fn guid_of(tag: u64, i: usize) -> String {
    format!("{:08x}-0000-4000-8000-{:012x}", 0xC0800000u32 as u64 + tag, i)
}
fn secret_of(tag: u64, i: usize) -> String {
    vcommon::sha::hex(&vcommon::sha::sha256(format!("c08-{tag}-{i}").as_bytes()))
}
fn key_json(guid: &str, secret: &str) -> Value {
    json!({"authorizationScheme": "Azure-HMAC-SHA256", "guid": guid, "issued": "2026-01-01T00:00:00Z", "key": secret, "incarnationId": 1})
}

fn start_host(port: u16, listener: usize, st: Arc<Mutex<HostState>>) -> MockHost {
    let h = MockHost::start(&format!("ws{port}"), &format!("168.63.129.16:{port}")).unwrap_or_else(|e| vcommon::result::machinery(&format!("bind 168.63.129.16:{port}: {e}")));
    h.set_responder(Arc::new(move |m: &Msg, _c, _i| {
        let t = m.target().to_string();
        let mut s = st.lock().unwrap();
        if s.listener != listener {
            // a request the killed child of an earlier run still had in flight: every run gets its own listener
            return Action::Reset;
        }
        if t.starts_with("/secure-channel/status") {
            match s.fault {
                Some(Fault::Status500) => {
                    s.fault = None;
                    return Action::Reply(vec![simple_response(500, &[], b"x")]);
                }
                Some(Fault::StatusMalformed) => {
                    s.fault = None;
                    return Action::Reply(vec![simple_response(200, &[("Content-Type", "application/json")], b"{")]);
                }
                _ => {}
            }
            let mut d = json!({"authorizationScheme": "Azure-HMAC-SHA256", "keyDeliveryMethod": "http", "keyGuid": s.latched.map(|i| s.issued[i].0.clone()), "secureChannelState": "Wireserver", "version": "1.0"});
            if let Some(n) = s.status_incarnation {
                d["keyIncarnationId"] = json!(n);
            }
            Action::Reply(vec![simple_response(200, &[("Content-Type", "application/json")], d.to_string().as_bytes())])
        } else if t == "/secure-channel/key" {
            match s.fault {
                Some(Fault::Acquire500) => {
                    s.fault = None;
                    return Action::Reply(vec![simple_response(500, &[], b"x")]);
                }
                Some(Fault::AcquireMalformed) => {
                    s.fault = None;
                    return Action::Reply(vec![simple_response(200, &[("Content-Type", "application/json")], b"{\"guid\":1}")]);
                }
                _ => {}
            }
            s.acquires += 1;
            if let (true, Some(i)) = (s.reissue_latched, s.latched) {
                let (g, k) = s.issued[i].clone();
                return Action::Reply(vec![simple_response(200, &[("Content-Type", "application/json")], key_json(&g, &k).to_string().as_bytes())]);
            }
            let i = s.issued.len();
            let (g, k) = (if s.upper { guid_of(s.tag, i).to_uppercase() } else { guid_of(s.tag, i) }, secret_of(s.tag, i));
            s.issued.push((g.clone(), k.clone()));
            Action::Reply(vec![simple_response(200, &[("Content-Type", "application/json")], key_json(&g, &k).to_string().as_bytes())])
        } else if t.ends_with("/key-attestation") {
            let guid = t.trim_start_matches("/secure-channel/key/").trim_end_matches("/key-attestation").to_string();
            match s.fault {
                Some(Fault::Attest500) => {
                    s.fault = None;
                    return Action::Reply(vec![simple_response(500, &[], b"x")]);
                }
                Some(Fault::AttestResetBeforeLatch) => {
                    s.fault = None;
                    return Action::Reset;
                }
                _ => {}
            }
            s.attests += 1;
            s.attested_guids.push((guid.clone(), std::time::SystemTime::now().duration_since(std::time::UNIX_EPOCH).map(|d| d.as_secs_f64()).unwrap_or(0.0)));
            let idx = s.issued.iter().position(|k| k.0 == guid);
            match idx {
                None => {
                    s.problems.push(format!("attest for a key the host never issued: {guid}"));
                    Action::Reply(vec![simple_response(404, &[], b"")])
                }
                Some(i) => {
                    let mut keys = HashMap::new();
                    keys.insert(s.issued[i].0.clone(), s.issued[i].1.clone());
                    let sent: Vec<String> = m.headers.iter().map(|h| h.0.to_lowercase()).collect();
                    if !matches!(hostcheck::verify_signature(m, &keys, &sent), hostcheck::SigVerdict::Valid { .. }) {
                        s.problems.push(format!("attest request for {guid} is not signed with that key"));
                    }
                    // never attest a key that has not first been stored and read back identically:
                    // at the moment the attest request arrives the key file must be complete on disk
                    let f = format!("{}/{}.key", s.key_dir, guid);
                    let ok = std::fs::read_to_string(&f).ok().and_then(|t| serde_json::from_str::<Value>(&t).ok()).map(|v| v["guid"] == json!(guid) && v["key"] == json!(s.issued[i].1)).unwrap_or(false);
                    if !ok {
                        s.problems.push(format!("attest-before-store: the attest request for {guid} arrived while {f} is not complete on disk"));
                    }
                    s.latched = Some(i);
                    if s.fault == Some(Fault::AttestLatchThenReset) {
                        s.fault = None;
                        return Action::Reset;
                    }
                    Action::Reply(vec![simple_response(200, &[], b"")])
                }
            }
        } else if t.contains("comp=goalstate") {
            let keys: HashMap<String, String> = s.issued.iter().cloned().collect();
            let sent: Vec<String> = m.headers.iter().map(|h| h.0.to_lowercase()).collect();
            match hostcheck::verify_signature(m, &keys, &sent) {
                hostcheck::SigVerdict::Valid { guid, .. } if s.latched.map(|i| s.issued[i].0.clone()) == Some(guid.clone()) => {
                    s.accepted_signed += 1;
                    Action::Reply(vec![simple_response(200, &[("Content-Type", "text/xml; charset=utf-8")], GOALSTATE.as_bytes())])
                }
                _ => {
                    s.rejected_signed += 1;
                    Action::Reply(vec![simple_response(403, &[], b"")])
                }
            }
        } else {
            Action::Reply(vec![simple_response(404, &[], b"")])
        }
    }));
    h
}

struct Slot {
    ports: [u16; 4],
    active: std::sync::atomic::AtomicUsize,
    key_dir: String,
    st: Arc<Mutex<HostState>>,
    _hosts: Vec<MockHost>,
}
impl Slot {
    fn port(&self) -> u16 {
        self.ports[self.active.load(std::sync::atomic::Ordering::SeqCst)]
    }
}

fn prepare(slot: &Slot, sc: Scenario, fault: Fault, tag: u64) {
    let _ = std::fs::remove_dir_all(&slot.key_dir);
    let _ = std::fs::remove_dir_all(format!("{}-logs", slot.key_dir));
    let listener = (slot.active.load(std::sync::atomic::Ordering::SeqCst) + 1) % slot.ports.len();
    slot.active.store(listener, std::sync::atomic::Ordering::SeqCst);
    let mut s = slot.st.lock().unwrap();
    *s = HostState { key_dir: slot.key_dir.clone(), tag, listener, fault: if fault == Fault::None { None } else { Some(fault) }, ..Default::default() };
    let mk = |s: &mut HostState| -> usize {
        let i = s.issued.len();
        s.issued.push((guid_of(tag, i), secret_of(tag, i)));
        i
    };
    let write_key = |dir: &str, g: &str, k: &str, content: Option<&str>| {
        std::fs::create_dir_all(dir).unwrap();
        let body = match content {
            Some(c) => c.to_string(),
            None => serde_json::to_string_pretty(&key_json(g, k)).unwrap(),
        };
        std::fs::write(format!("{dir}/{g}.key"), body).unwrap();
    };
    match sc {
        Scenario::FreshLatch => {}
        Scenario::RestartWithKey => {
            let i = mk(&mut s);
            s.latched = Some(i);
            write_key(&slot.key_dir, &s.issued[i].0, &s.issued[i].1, None);
        }
        Scenario::RestartWithKeyNoIncarnation => {
            let i = mk(&mut s);
            s.latched = Some(i);
            s.status_incarnation = Some(1);
            let mut doc = key_json(&s.issued[i].0, &s.issued[i].1);
            doc.as_object_mut().unwrap().remove("incarnationId");
            write_key(&slot.key_dir, &s.issued[i].0, &s.issued[i].1, Some(&serde_json::to_string_pretty(&doc).unwrap()));
        }
        Scenario::RestartWithKeyUpperCaseGuid => {
            s.upper = true;
            let i = s.issued.len();
            s.issued.push((guid_of(tag, i).to_uppercase(), secret_of(tag, i)));
            s.latched = Some(i);
            write_key(&slot.key_dir, &s.issued[i].0, &s.issued[i].1, None);
        }
        Scenario::RotationNoGuid => {
            let i = mk(&mut s);
            write_key(&slot.key_dir, &s.issued[i].0, &s.issued[i].1, None);
            s.latched = None;
        }
        Scenario::RotationOtherGuid => {
            let i = mk(&mut s);
            write_key(&slot.key_dir, &s.issued[i].0, &s.issued[i].1, None);
            let j = mk(&mut s); // latched at the host, never stored at the guest
            s.latched = Some(j);
        }
        Scenario::LocalKeyTruncated => {
            let i = mk(&mut s);
            s.latched = Some(i);
            let full = serde_json::to_string_pretty(&key_json(&s.issued[i].0, &s.issued[i].1)).unwrap();
            write_key(&slot.key_dir, &s.issued[i].0, &s.issued[i].1, Some(&full[..full.len() / 2]));
        }
        Scenario::LocalKeyEmpty => {
            let i = mk(&mut s);
            s.latched = Some(i);
            write_key(&slot.key_dir, &s.issued[i].0, &s.issued[i].1, Some(""));
        }
        Scenario::LocalKeyNotUtf8 => {
            let i = mk(&mut s);
            s.latched = Some(i);
            std::fs::create_dir_all(&slot.key_dir).unwrap();
            std::fs::write(format!("{}/{}.key", slot.key_dir, s.issued[i].0), [0xffu8, 0xfe, 0x00, 0xc3, 0x28, b'{', 0x80]).unwrap();
        }
        Scenario::LocalKeyIsDirectory => {
            let i = mk(&mut s);
            s.latched = Some(i);
            std::fs::create_dir_all(format!("{}/{}.key", slot.key_dir, s.issued[i].0)).unwrap();
        }
        Scenario::LocalKeyTruncatedHostReissues | Scenario::LocalKeyEmptyHostReissues => {
            let i = mk(&mut s);
            s.latched = Some(i);
            s.reissue_latched = true;
            let full = serde_json::to_string_pretty(&key_json(&s.issued[i].0, &s.issued[i].1)).unwrap();
            write_key(&slot.key_dir, &s.issued[i].0, &s.issued[i].1, Some(if sc == Scenario::LocalKeyEmptyHostReissues { "" } else { &full[..full.len() / 2] }));
        }
    }
    s.initial_latched = s.latched;
    if let Ok(rd) = std::fs::read_dir(&slot.key_dir) {
        for e in rd.flatten() {
            s.initial_files.insert(e.file_name().to_string_lossy().to_string(), std::fs::read(e.path()).unwrap_or_default());
        }
    }
}

const SYSCALLS: &str = "openat,open,creat,mkdir,mkdirat,chmod,fchmod,fchmodat,chown,fchown,fchownat,lchown,rename,renameat,renameat2,unlink,unlinkat,write,writev,pwrite64,fsync,fdatasync,ftruncate,connect,sendto,sendmsg,close";

fn run_child(slot: &Slot, kill_at: Option<(&str, u64)>, trace_to: Option<&str>) -> (Option<i32>, bool) {
    run_child_inj(slot, kill_at.map(|(n, k)| format!("{n}:signal=SIGKILL:when={k}")), trace_to)
}

/// `inject`: a strace fault-injection spec (`<syscall>:signal=SIGKILL:when=<k>` or `<syscall>:error=ENOSPC:when=<k>`)
fn run_child_inj(slot: &Slot, inject: Option<String>, trace_to: Option<&str>) -> (Option<i32>, bool) {
    let kill_at = inject;
    let exe = std::env::current_exe().unwrap();
    let mut cmd;
    if kill_at.is_some() || trace_to.is_some() {
        cmd = std::process::Command::new("strace");
        cmd.arg("-f").arg("-qq").arg("-e").arg(format!("trace={SYSCALLS}"));
        if let Some(spec) = &kill_at {
            // strace counts invocations per syscall: the k-th invocation of this one syscall is killed on entry
            cmd.arg("-e").arg(format!("inject={spec}"));
        }
        if trace_to.map_or(false, |t| t.ends_with("-fault.trace")) {
            cmd.arg("-ttt"); // wall-clock time of every call (the storage-fault pass orders calls against the mock's attest log)
        }
        cmd.arg("-o").arg(trace_to.unwrap_or("/dev/null"));
        cmd.arg(exe);
    } else {
        cmd = std::process::Command::new(exe);
    }
    cmd.env("VERIF_C08_CHILD", "1").env("VERIF_C08_PORT", slot.port().to_string()).env("VERIF_C08_KEYDIR", &slot.key_dir).stdin(std::process::Stdio::null()).stdout(std::process::Stdio::null()).stderr(std::process::Stdio::null());
    // own process group: when the run is given up (or strace dies first) nothing of it may stay behind and keep
    // talking to the slot's mock host during later runs (a tracee survives the death of its tracer)
    {
        use std::os::unix::process::CommandExt;
        cmd.process_group(0);
    }
    let mut child = cmd.spawn().unwrap_or_else(|e| vcommon::result::machinery(&format!("spawn: {e}")));
    let pgid = child.id() as i32;
    let reap_group = move || unsafe {
        libc::kill(-pgid, libc::SIGKILL);
    };
    let t = Instant::now();
    loop {
        match child.try_wait().unwrap() {
            Some(st) => {
                use std::os::unix::process::ExitStatusExt;
                let killed = st.signal() == Some(9) || st.code() == Some(137);
                reap_group();
                return (st.code(), killed);
            }
            None => {
                if t.elapsed() > Duration::from_secs(25) {
                    reap_group();
                    let _ = child.kill();
                    let _ = child.wait();
                    return (Some(99), false);
                }
                std::thread::sleep(Duration::from_micros(500));
            }
        }
    }
}

/// (index of the first connect to the host, index of the last matching syscall before exit, total) in a trace
fn window(trace: &str, port: u16) -> (u64, u64, Vec<String>) {
    let mut idx = 0u64;
    let mut first = 0u64;
    let mut calls: Vec<String> = Vec::new();
    for line in trace.lines() {
        // "<pid> syscall(args) = ret"
        let rest = line.splitn(2, ' ').nth(1).unwrap_or("").trim_start();
        if rest.starts_with("+++") || rest.starts_with("---") || rest.starts_with("<...") {
            continue;
        }
        let name = rest.split('(').next().unwrap_or("");
        if !SYSCALLS.split(',').any(|s| s == name) {
            continue;
        }
        idx += 1;
        let unfinished = rest.contains("= ?") || rest.contains("<unfinished");
        let eventfd = name == "write" && rest.contains("\"\\1\\0\\0\\0\\0\\0\\0\\0\", 8)");
        calls.push(format!("{}{}{}", if eventfd { "~" } else { "" }, if unfinished { "?" } else { "" }, rest.chars().take(110).collect::<String>()));
        if first == 0 && name == "connect" && rest.contains(&format!("htons({port})")) {
            first = idx;
        }
    }
    (first, idx, calls)
}

fn inspect_store(slot: &Slot) -> Vec<(String, String)> {
    let mut bad = Vec::new();
    let s = slot.st.lock().unwrap();
    if let Ok(rd) = std::fs::read_dir(&slot.key_dir) {
        for e in rd.flatten() {
            let name = e.file_name().to_string_lossy().to_string();
            if let Some(stem) = name.strip_suffix(".key") {
                // pre-existing unreadable files of the scenario are not the agent's doing
                let raw = std::fs::read(e.path()).unwrap_or_default();
                let txt = String::from_utf8(raw.clone()).unwrap_or_default();
                if s.initial_files.get(&name).map(|b| b.as_slice()) == Some(raw.as_slice()) {
                    continue; // exactly what the scenario put there (e.g. the unreadable local key)
                }
                match serde_json::from_str::<Value>(&txt) {
                    Ok(v) if v["guid"] == json!(stem) && v["key"].is_string() => {}
                    _ => bad.push(("torn-key-file".to_string(), format!("{name} under its final name is not a complete key document ({} bytes)", txt.len()))),
                }
            }
        }
    }
    // a key the host came to regard as attested during this run (or had latched with an intact local
    // copy) must be in the store; the premise of the "unreadable / unknown latched key" scenarios is not the agent's doing
    let premise_broken = s.latched == s.initial_latched
        && s.latched.map_or(false, |i| {
            let name = format!("{}.key", s.issued[i].0);
            match s.initial_files.get(&name) {
                None => true,
                Some(b) => serde_json::from_slice::<Value>(b).is_err(),
            }
        });
    if let (Some(i), false) = (s.latched, premise_broken) {
        let (g, k) = &s.issued[i];
        let f = format!("{}/{}.key", slot.key_dir, g);
        let ok = std::fs::read_to_string(&f).ok().and_then(|t| serde_json::from_str::<Value>(&t).ok()).map(|v| v["key"] == json!(k)).unwrap_or(false);
        if !ok {
            bad.push(("latched-key-not-in-store".to_string(), format!("the host has latched {g} but {f} is missing, unreadable or holds another secret")));
        }
    }
    bad
}

fn main() {
    if std::env::var("VERIF_C08_CHILD").is_ok() {
        child_main();
    }
    let thorough = is_thorough();
    let mut res = EngineResult::new("C08");
    let base = format!("{}/run/c08-{}", std::env::var("VERIF_TARGET").unwrap_or("/verif/target".into()), std::process::id());
    let _ = std::fs::remove_dir_all(&base);
    std::fs::create_dir_all(&base).unwrap();
    let nslots = 16usize;
    let slots: Vec<Arc<Slot>> = (0..nslots)
        .map(|i| {
            let st = Arc::new(Mutex::new(HostState::default()));
            let ports = [8100 + i as u16, 8200 + i as u16, 8300 + i as u16, 8400 + i as u16];
            let hosts = ports.iter().enumerate().map(|(j, p)| start_host(*p, j, st.clone())).collect();
            Arc::new(Slot { ports, active: Default::default(), key_dir: format!("{base}/keys{i}"), st: st.clone(), _hosts: hosts })
        })
        .collect();

    let scenarios: Vec<Scenario> = vec![Scenario::FreshLatch, Scenario::RestartWithKey, Scenario::RestartWithKeyNoIncarnation, Scenario::RestartWithKeyUpperCaseGuid, Scenario::RotationNoGuid, Scenario::RotationOtherGuid, Scenario::LocalKeyTruncated, Scenario::LocalKeyEmpty, Scenario::LocalKeyTruncatedHostReissues, Scenario::LocalKeyEmptyHostReissues, Scenario::LocalKeyNotUtf8, Scenario::LocalKeyIsDirectory];
    let faults: Vec<Fault> = if thorough {
        vec![Fault::None, Fault::Status500, Fault::StatusMalformed, Fault::Acquire500, Fault::AcquireMalformed, Fault::Attest500, Fault::AttestLatchThenReset, Fault::AttestResetBeforeLatch]
    } else {
        vec![Fault::None, Fault::AttestLatchThenReset, Fault::Attest500]
    };
    let mut combos: Vec<(Scenario, Fault)> = Vec::new();
    for sc in &scenarios {
        for f in &faults {
            if !thorough && *f != Fault::None && !matches!(sc, Scenario::FreshLatch | Scenario::RotationOtherGuid) {
                continue;
            }
            combos.push((*sc, *f));
        }
    }
    if let Ok(path) = std::env::var("VERIF_REPLAY") {
        let doc: Value = serde_json::from_str(&std::fs::read_to_string(path).unwrap()).unwrap();
        combos.retain(|c| json!(format!("{:?}", c.0)) == doc["case"]["scenario"] && json!(format!("{:?}", c.1)) == doc["case"]["host_fault"]);
    }

    // phase 1: fault-free (no kill) run of every combination, twice: determinism gate + window
    let mut windows: Vec<(Scenario, Fault, u64, u64, Vec<String>)> = Vec::new();
    let mut combos_without_window = 0u64;
    let mut evals = 0u64;
    let mut tag = 0u64;
    for (sc, f) in &combos {
        let slot = &slots[0];
        let mut seqs: Vec<(u64, u64, Vec<String>)> = Vec::new();
        let mut fault_free_ok = true;
        for rep in 0..2 {
            tag += 1;
            prepare(slot, *sc, *f, tag);
            let tr = format!("{base}/trace.{rep}");
            let (code, _) = run_child(slot, None, Some(&tr));
            evals += 1;
            let txt = std::fs::read_to_string(&tr).unwrap_or_default();
            let w = window(&txt, slot.port());
            let case = json!({"scenario": format!("{:?}", sc), "host_fault": format!("{:?}", f), "kill_at": null});
            if code != Some(0) {
                fault_free_ok = false;
                let (a, t, r) = {
                    let s = slot.st.lock().unwrap();
                    (s.acquires, s.attests, s.rejected_signed)
                };
                res.violation(&format!("no-recovery-without-crash:{:?}:{:?}", sc, f), &format!("without any crash the agent did not reach an accepted signed request (exit {:?}); host: acquires {a} attests {t} rejected {r}", code), case.clone());
            }
            if matches!(sc, Scenario::RestartWithKey | Scenario::RestartWithKeyNoIncarnation | Scenario::RestartWithKeyUpperCaseGuid) && slot.st.lock().unwrap().acquires != 0 {
                res.violation(&format!("latched-key-not-reused:{:?}:{:?}:no-kill", sc, f), &format!("the agent started with the host's latched key complete in its store and requested a new key all the same ({} acquisitions)", slot.st.lock().unwrap().acquires), case.clone());
            }
            for (sig, what) in inspect_store(slot) {
                res.violation(&format!("{sig}:{:?}:{:?}:no-kill", sc, f), &what, case.clone());
            }
            for p in slot.st.lock().unwrap().problems.clone() {
                res.violation(&format!("host-protocol:{}:{:?}:{:?}", p.split(':').next().unwrap_or("?"), sc, f), &p, case.clone());
            }
            seqs.push(w);
        }
        // compare the syscall name sequences inside the window (arguments carry pids/ports)
        let names = |v: &Vec<String>, from: u64| -> Vec<String> { v.iter().skip(from.saturating_sub(1) as usize).filter(|c| !c.starts_with('~')).map(|c| c.split('(').next().unwrap_or("").to_string()).collect() };
        if names(&seqs[0].2, seqs[0].0) != names(&seqs[1].2, seqs[1].0) {
            res.cov("window_not_deterministic", true);
        }
        if !fault_free_ok {
            // already reported; a run that never gets anywhere has no window worth enumerating (each kill point would cost
            // the full per-run time-out)
            combos_without_window += 1;
            continue;
        }
        windows.push((*sc, *f, seqs[0].0, seqs[0].1, seqs[0].2.clone()));
    }

    // phase 2: every kill point of every window, in parallel over the slots
    // kill points: for every syscall name, every invocation index whose position lies in the window (and one past the last)
    let mut jobs: Vec<(Scenario, Fault, String, u64)> = Vec::new();
    for (sc, f, first, _last, calls) in &windows {
        let mut per: BTreeMap<String, Vec<usize>> = BTreeMap::new();
        for (pos, c) in calls.iter().enumerate() {
            let name = c.trim_start_matches(['~', '?']).split('(').next().unwrap_or("").to_string();
            per.entry(name).or_default().push(pos + 1);
        }
        for (name, positions) in &per {
            for (j, pos) in positions.iter().enumerate() {
                if (*pos as u64) >= (*first).max(1) {
                    jobs.push((*sc, *f, name.clone(), j as u64 + 1));
                }
            }
            // one or two more invocations than the fault-free run made (wake-up writes jitter)
            jobs.push((*sc, *f, name.clone(), positions.len() as u64 + 1));
            if name == "write" {
                jobs.push((*sc, *f, name.clone(), positions.len() as u64 + 2));
                jobs.push((*sc, *f, name.clone(), positions.len() as u64 + 3));
            }
        }
    }
    let out: Arc<Mutex<Vec<(String, String, Value)>>> = Arc::new(Mutex::new(Vec::new()));
    let stats: Arc<Mutex<BTreeMap<String, u64>>> = Arc::new(Mutex::new(BTreeMap::new()));
    let covered: Arc<Mutex<BTreeSet<(String, u64)>>> = Arc::new(Mutex::new(BTreeSet::new()));
    let prefixes: Arc<Mutex<BTreeMap<String, BTreeSet<u64>>>> = Arc::new(Mutex::new(BTreeMap::new()));
    let mut total_jobs = 0u64;
    let mut round_jobs = jobs;
    let mut rounds = 0u64;
    let max_rounds = if thorough { 8 } else { 4 };
    loop {
        rounds += 1;
        total_jobs += round_jobs.len() as u64;
        let tag_base = rounds * 1_000_000;
        let jobs = Arc::new(round_jobs.clone());
        let next = Arc::new(std::sync::atomic::AtomicUsize::new(0));
        let mut hs = Vec::new();
        for (si, slot) in slots.iter().enumerate() {
            let (slot, jobs, next, out, stats, covered, prefixes) = (slot.clone(), jobs.clone(), next.clone(), out.clone(), stats.clone(), covered.clone(), prefixes.clone());
            hs.push(std::thread::spawn(move || loop {
                let j = next.fetch_add(1, std::sync::atomic::Ordering::SeqCst);
                if j >= jobs.len() {
                    break;
                }
                let (sc, f, ref kname, k) = jobs[j];
                let (sc, f) = (sc, f);
                let tag = tag_base + 1000 + j as u64 * 16 + si as u64;
                prepare(&slot, sc, f, tag);
                let case = json!({"scenario": format!("{:?}", sc), "host_fault": format!("{:?}", f), "kill_at": format!("{kname}#{k}")});
                let tr = format!("{}.trace", slot.key_dir);
                let (code, killed) = run_child(&slot, Some((kname.as_str(), k)), Some(&tr));
                if killed {
                    // prefix of the (eventfd-free) window that had completed when the process died
                    let txt = std::fs::read_to_string(&tr).unwrap_or_default();
                    let (first, _, calls) = window(&txt, slot.port());
                    if first > 0 {
                        let done = calls.iter().skip(first as usize - 1).filter(|c| !c.starts_with('~') && !c.starts_with('?')).count() as u64;
                        if std::env::var("VERIF_C08_DEBUG").is_ok() && sc == Scenario::FreshLatch && f == Fault::None {
                            eprintln!("DBG k={k} first={first} total={} done={done} last={:?}", calls.len(), calls.last());
                        }
                        prefixes.lock().unwrap().entry(format!("{:?}/{:?}", sc, f)).or_default().insert(done);
                    } else {
                        prefixes.lock().unwrap().entry(format!("{:?}/{:?}", sc, f)).or_default().insert(0);
                    }
                }
                let bump = |k: &str| *stats.lock().unwrap().entry(k.to_string()).or_insert(0) += 1;
                if killed {
                    bump("killed");
                    covered.lock().unwrap().insert((format!("{:?}/{:?}/{kname}", sc, f), k));
                } else if code == Some(0) {
                    bump("kill point beyond the run (exited normally)");
                } else {
                    bump("other exit");
                }
                let latched_before = slot.st.lock().unwrap().latched;
                let acquires_before = slot.st.lock().unwrap().acquires;
                for (sig, what) in inspect_store(&slot) {
                    out.lock().unwrap().push((format!("{sig}:{:?}:{:?}", sc, f), format!("after a kill at {kname}#{k}: {what}"), case.clone()));
                }
                // restart on the same store: must authenticate; a key the host had latched is reused
                slot.st.lock().unwrap().fault = None;
                let accepted_before = slot.st.lock().unwrap().accepted_signed;
                let (code2, _) = run_child(&slot, None, None);
                let s = slot.st.lock().unwrap();
                if code2 != Some(0) || s.accepted_signed == accepted_before {
                    out.lock().unwrap().push((format!("no-recovery-after-crash:{:?}:{:?}", sc, f), format!("after a kill at {kname}#{k} a fresh agent on the same key store did not reach an accepted signed request (exit {:?}, host acquires {}, attests {}, rejected {})", code2, s.acquires, s.attests, s.rejected_signed), case.clone()));
                }
                if let Some(i) = latched_before {
                    // the latched key was present and complete (checked above); it must be found and used without a new acquisition
                    let file_ok = std::fs::read_to_string(format!("{}/{}.key", slot.key_dir, s.issued[i].0)).is_ok();
                    if file_ok && s.acquires != acquires_before && !matches!(sc, Scenario::LocalKeyTruncated | Scenario::LocalKeyEmpty | Scenario::LocalKeyTruncatedHostReissues | Scenario::LocalKeyEmptyHostReissues | Scenario::LocalKeyNotUtf8 | Scenario::LocalKeyIsDirectory | Scenario::RotationOtherGuid) {
                        out.lock().unwrap().push((format!("latched-key-not-reused:{:?}:{:?}", sc, f), format!("after a kill at {kname}#{k} the restarted agent requested a new key although the host's latched key was in the store (acquires {} -> {})", acquires_before, s.acquires), case.clone()));
                    }
                }
                for p in s.problems.clone() {
                    out.lock().unwrap().push((format!("host-protocol:{}:{:?}:{:?}", p.split(':').next().unwrap_or("?"), sc, f), p, case.clone()));
                }
            }));
        }
        for h in hs {
            h.join().expect("worker panicked");
        }
        // which prefixes of the eventfd-free window have not been the state at a kill yet? retarget them
        let mut next_jobs: Vec<(Scenario, Fault, String, u64)> = Vec::new();
        {
            let pf = prefixes.lock().unwrap();
            for (sc, f, first, _last, calls) in &windows {
                let key = format!("{:?}/{:?}", sc, f);
                let set = pf.get(&key).cloned().unwrap_or_default();
                let win: Vec<(usize, &String)> = calls.iter().enumerate().skip((*first).max(1) as usize - 1).filter(|(_, c)| !c.starts_with('~')).collect();
                for (p, (pos, c)) in win.iter().enumerate() {
                    if set.contains(&(p as u64)) {
                        continue;
                    }
                    // the call that would be entered next after prefix p
                    let name = c.trim_start_matches(['~', '?']).split('(').next().unwrap_or("").to_string();
                    let j0 = calls[..=*pos].iter().filter(|x| x.trim_start_matches(['~', '?']).split('(').next().unwrap_or("") == name).count() as i64;
                    for d in -2i64..=3 {
                        if j0 + d >= 1 {
                            next_jobs.push((*sc, *f, name.clone(), (j0 + d) as u64));
                        }
                    }
                }
            }
        }
        next_jobs.sort_by(|a, b| (format!("{:?}{:?}", a.0, a.1), &a.2, a.3).cmp(&(format!("{:?}{:?}", b.0, b.1), &b.2, b.3)));
        next_jobs.dedup();
        if next_jobs.is_empty() || rounds >= max_rounds {
            break;
        }
        round_jobs = next_jobs;
    }
    // phase 3: storage faults instead of kills. One file-system call of the window fails once with ENOSPC and the agent
    // keeps running (its next poll comes at once on the paused clock): the host must still never see an attest for a
    // key that is not complete in the store, no torn key file, and afterwards a fresh process authenticates
    let fs_calls = ["openat", "open", "creat", "rename", "renameat", "renameat2", "mkdir", "mkdirat", "chmod", "fchmod", "fchmodat", "chown", "fchown", "fchownat", "fsync", "fdatasync", "ftruncate"];
    let mut ejobs: Vec<(Scenario, Fault, String, u64)> = Vec::new();
    for (sc, f, first, _last, calls) in &windows {
        if *f != Fault::None && !thorough {
            continue;
        }
        let mut per: BTreeMap<String, Vec<usize>> = BTreeMap::new();
        for (pos, c) in calls.iter().enumerate() {
            let name = c.trim_start_matches(['~', '?']).split('(').next().unwrap_or("").to_string();
            per.entry(name).or_default().push(pos + 1);
        }
        for (name, positions) in &per {
            if !fs_calls.contains(&name.as_str()) {
                continue;
            }
            for (j, pos) in positions.iter().enumerate() {
                if (*pos as u64) >= (*first).max(1) {
                    ejobs.push((*sc, *f, name.clone(), j as u64 + 1));
                }
            }
        }
    }
    let storage_fault_runs = ejobs.len() as u64;
    {
        let jobs = Arc::new(ejobs);
        let next = Arc::new(std::sync::atomic::AtomicUsize::new(0));
        let mut hs = Vec::new();
        for (si, slot) in slots.iter().enumerate() {
            let (slot, jobs, next, out) = (slot.clone(), jobs.clone(), next.clone(), out.clone());
            hs.push(std::thread::spawn(move || loop {
                let j = next.fetch_add(1, std::sync::atomic::Ordering::SeqCst);
                if j >= jobs.len() {
                    break;
                }
                let (sc, f, ref kname, k) = jobs[j];
                let tag = 900_000_000 + j as u64 * 16 + si as u64;
                prepare(&slot, sc, f, tag);
                let case = json!({"scenario": format!("{:?}", sc), "host_fault": format!("{:?}", f), "storage_fault_at": format!("{kname}#{k} fails with ENOSPC")});
                let ftrace = format!("{}-fault.trace", slot.key_dir);
                let _ = std::fs::remove_file(&ftrace);
                let _ = run_child_inj(&slot, Some(format!("{kname}:error=ENOSPC:when={k}")), Some(&ftrace));
                // "never attests a key it has not first stored and read back identically": when the call that failed was a
                // read-only open of a key file, an attest for that key must be preceded by a successful read-only open of it
                // (weaker, order-free form: there must be one at all after the failed one in this run)
                if let Ok(tr) = std::fs::read_to_string(&ftrace) {
                    // lines: "<pid> <epoch seconds> <call>"
                    let ts_of = |l: &str| l.split_whitespace().nth(1).and_then(|t| t.parse::<f64>().ok());
                    let mut failed: Option<(usize, String, f64)> = None;
                    let lines: Vec<&str> = tr.lines().collect();
                    for (li, l) in lines.iter().enumerate() {
                        if l.contains("(INJECTED)") && l.contains(".key\"") && l.contains("O_RDONLY") {
                            if let (Some(path), Some(t)) = (l.split('"').nth(1), ts_of(l)) {
                                failed = Some((li, path.to_string(), t));
                            }
                        }
                    }
                    if let Some((li, path, t_failed)) = failed {
                        let guid = path.rsplit('/').next().unwrap_or("").trim_end_matches(".key").to_string();
                        // attests for that key that reached the host after the failed open
                        let later: Vec<f64> = slot.st.lock().unwrap().attested_guids.iter().filter(|(g, t)| g.eq_ignore_ascii_case(&guid) && *t > t_failed).map(|(_, t)| *t).collect();
                        for t_attest in later {
                            let reread = lines[li + 1..].iter().any(|l| l.contains(&format!("\"{path}\"")) && l.contains("O_RDONLY") && !l.contains("= -1") && !l.contains("<unfinished") && ts_of(l).map_or(false, |t| t < t_attest));
                            if !reread {
                                out.lock().unwrap().push((format!("attested-without-successful-read-back:{:?}:{:?}:storage-fault", sc, f), format!("{kname}#{k} was the read-only open of {path} and failed; without having opened that file successfully again the agent sent an attest request for {guid} ({:.3} s later)", t_attest - t_failed), case.clone()));
                                break;
                            }
                        }
                    }
                }
                // "found there after restart, and is used without requesting a new one": the latched key lies complete and
                // readable in the store throughout; a file-system call other than the read of that key failing once is no
                // reason to ask the host for another key
                if matches!(sc, Scenario::RestartWithKey | Scenario::RestartWithKeyNoIncarnation | Scenario::RestartWithKeyUpperCaseGuid) {
                    let read_failed = std::fs::read_to_string(&ftrace).map(|tr| tr.lines().any(|l| l.contains("(INJECTED)") && l.contains(".key\"") && l.contains("O_RDONLY"))).unwrap_or(true);
                    let acq = slot.st.lock().unwrap().acquires;
                    if !read_failed && acq != 0 {
                        out.lock().unwrap().push((format!("latched-key-not-reused:{:?}:{:?}:storage-fault", sc, f), format!("the host's latched key was complete and readable in the store; {kname}#{k} (not the read of that key) failed once with ENOSPC and the agent requested a new key ({acq} acquisitions)"), case.clone()));
                    }
                }
                let _ = std::fs::remove_file(&ftrace);
                for (sig, what) in inspect_store(&slot) {
                    out.lock().unwrap().push((format!("{sig}:{:?}:{:?}:storage-fault", sc, f), format!("after {kname}#{k} failed with ENOSPC: {what}"), case.clone()));
                }
                slot.st.lock().unwrap().fault = None;
                let accepted_before = slot.st.lock().unwrap().accepted_signed;
                let (code2, _) = run_child(&slot, None, None);
                let s = slot.st.lock().unwrap();
                if code2 != Some(0) || s.accepted_signed == accepted_before {
                    out.lock().unwrap().push((format!("no-recovery-after-storage-fault:{:?}:{:?}", sc, f), format!("after {kname}#{k} failed with ENOSPC a fresh agent on the same key store did not reach an accepted signed request (exit {:?})", code2), case.clone()));
                }
                for p in s.problems.clone() {
                    out.lock().unwrap().push((format!("host-protocol:{}:{:?}:{:?}:storage-fault", p.split(':').next().unwrap_or("?"), sc, f), p, case.clone()));
                }
            }));
        }
        for h in hs {
            h.join().expect("worker panicked");
        }
    }
    // phase 4: the key store cannot hold a key at all, persistently (its path is a regular file / a dangling symbolic link):
    // whatever the agent retries, the host must never receive an attest request
    let mut unusable_runs = 0u64;
    if std::env::var("VERIF_REPLAY").is_err() {
        let mut hs = Vec::new();
        for (vi, variant) in ["key-folder-path-is-a-regular-file", "key-folder-path-is-a-dangling-symbolic-link"].into_iter().enumerate() {
            let slot = slots[vi].clone();
            let out = out.clone();
            unusable_runs += 1;
            hs.push(std::thread::spawn(move || {
                prepare(&slot, Scenario::FreshLatch, Fault::None, 950_000_000 + vi as u64);
                let _ = std::fs::remove_dir_all(&slot.key_dir);
                let _ = std::fs::remove_file(&slot.key_dir);
                if vi == 0 {
                    std::fs::write(&slot.key_dir, b"not a directory").unwrap();
                } else {
                    std::os::unix::fs::symlink(format!("{}-nowhere/keys", slot.key_dir), &slot.key_dir).unwrap();
                }
                let _ = run_child(&slot, None, None);
                let s = slot.st.lock().unwrap();
                if !s.attested_guids.is_empty() {
                    out.lock().unwrap().push((format!("attested-while-the-key-store-cannot-hold-a-key:{variant}"), format!("{variant}: no key can be stored or read back, yet the host received attest requests for {:?} (acquisitions {})", s.attested_guids.iter().map(|g| g.0.clone()).collect::<Vec<_>>(), s.acquires), json!({"scenario": "FreshLatch", "key_store": variant})));
                }
                drop(s);
                let _ = std::fs::remove_file(&slot.key_dir);
            }));
        }
        for h in hs {
            h.join().expect("worker panicked");
        }
    }
    res.cov("unusable_key_store_runs", unusable_runs);
    res.cov("storage_fault_runs", storage_fault_runs);
    res.cov("combinations_not_enumerated_because_the_fault_free_run_failed", combos_without_window);
    evals += storage_fault_runs * 2;
    res.cov("retarget_rounds", rounds);
    for (sig, what, case) in out.lock().unwrap().drain(..) {
        res.violation(&sig, &what, case);
    }
    evals += total_jobs * 2;
    let _ = std::fs::remove_dir_all(&base);
    let killed_points = covered.lock().unwrap().len() as u64;
    res.cov("evaluations", evals);
    res.cov("distinct_nontrivial", killed_points);
    res.cov("kill_points_tried", total_jobs);
    res.cov("run_outcomes", json!(*stats.lock().unwrap()));
    res.cov("scenario_fault_combinations", combos.len() as u64);
    {
        // coverage accounting: D = eventfd-free calls of the fault-free window; which prefixes of D were the state at a kill
        let pf = prefixes.lock().unwrap();
        let mut total = 0u64;
        let mut hit = 0u64;
        let mut missing: Vec<Value> = Vec::new();
        for (sc, f, first, _last, calls) in &windows {
            let d = calls.iter().skip((*first).max(1) as usize - 1).filter(|c| !c.starts_with('~')).count() as u64;
            let key = format!("{:?}/{:?}", sc, f);
            let set = pf.get(&key).cloned().unwrap_or_default();
            let miss: Vec<u64> = (0..d).filter(|p| !set.contains(p)).collect();
            total += d;
            hit += d - miss.len() as u64;
            if !miss.is_empty() {
                missing.push(json!({"combination": key, "window_calls": d, "prefixes_not_hit": miss}));
            }
        }
        res.cov("window_prefixes_total", total);
        res.cov("window_prefixes_hit_by_a_kill", hit);
        res.cov("window_prefixes_missing", json!(missing));
        res.cov("exhaustive", hit == total);
    }
    res.cov("window_syscalls_per_combination", json!(windows.iter().map(|w| json!({"scenario": format!("{:?}", w.0), "fault": format!("{:?}", w.1), "first": w.2, "last": w.3})).collect::<Vec<_>>()));
    res.cov("rule", format!("for each of {} (scenario, host fault) combinations: the fault-free run is traced twice with strace (syscalls {SYSCALLS}); then one run per kill point = every invocation (by syscall name and per-syscall index, as strace counts) from the first connect to the host up to process exit (+1..3), killed with SIGKILL on entry; after each kill: no torn file under a final key name, the host's latched key is complete in the store, the mock host never saw an attest for a key that was not complete on disk; then a fresh process on the same store must reach an accepted signed request, without a new acquisition when the latched key was in the store; then (storage faults) one run per file-system call of the window in which that call fails once with ENOSPC and the agent keeps running, with the same oracles, and: in the restart-with-key scenarios no new key is requested unless the failed call was the read of the latched key; when the failed call was the read-only open of a key file, no attest for that key afterwards unless the file was opened successfully again in between (strace -ttt times against the mock's attest log); then two runs in which the key folder's path is a regular file / a dangling symbolic link for good (no attest may ever be sent); distinct = kill points at which the process was actually killed", combos.len()));
    res.sample(json!({"scenario": "FreshLatch", "host_fault": "None", "window": windows.first().map(|w| w.4.iter().skip(w.2.saturating_sub(1) as usize).take(12).cloned().collect::<Vec<_>>())}));
    res.assume("process death = SIGKILL on syscall entry; power loss (page cache, metadata ordering) is not in the statement");
    res.assume("single-threaded subject (current-thread runtime, paused clock): the syscall sequence of the window is deterministic (compared between two fault-free runs)");
    std::process::exit(res.finish());
}
