//! C14 (transparency of relayed requests/responses) and C15 (request body size limit), E2 world.

use gpa_harness::verif::world::{self, AuditRec, World, WorldOpts, WS};
use serde_json::{json, Value};
use std::collections::BTreeSet;
use std::sync::Arc;
use std::time::Duration;
use vcommon::rawhttp::{build_request, Action, Client, Msg};
use vcommon::result::{is_thorough, EngineResult};
use vcommon::sha;

const K1: (&str, &str) = ("aaaaaaaa-1111-1111-1111-111111111111", "4A404E635266556A586E3272357538782F413F4428472B4B6250645367566B59");

fn pattern(len: usize, id: u64) -> Vec<u8> {
    (0..len).map(|i| ((i as u64).wrapping_mul(7).wrapping_add(id).wrapping_add((i as u64) >> 8)) as u8).collect()
}

fn qparam<'a>(target: &'a str, key: &str) -> Option<&'a str> {
    let q = target.split('?').nth(1)?;
    q.split('&').find_map(|kv| kv.strip_prefix(key).and_then(|r| r.strip_prefix('=')))
}

/// the mock host's answer is a function of the request target: /t?id=..&st=..&len=..&fr=cl|ch&seg=..
fn responder() -> vcommon::rawhttp::Responder {
    Arc::new(|m: &Msg, _c, _i| {
        let t = m.target().to_string();
        let id: u64 = qparam(&t, "id").and_then(|v| v.parse().ok()).unwrap_or(0);
        let st: u16 = qparam(&t, "st").and_then(|v| v.parse().ok()).unwrap_or(200);
        let len: usize = qparam(&t, "len").and_then(|v| v.parse().ok()).unwrap_or(2);
        let fr = qparam(&t, "fr").unwrap_or("cl").to_string();
        let seg: usize = qparam(&t, "seg").and_then(|v| v.parse().ok()).unwrap_or(0);
        let body = pattern(len, id);
        let mut head = format!("HTTP/1.1 {st} Status{st}\r\nX-Echo-Id: {id}\r\nX-Resp: r1\r\nx-resp: r2\r\nX-MiXeD-Resp: Va Lue\r\nContent-Type: application/octet-stream\r\n");
        let host_closes = qparam(&t, "hc").is_some();
        if host_closes {
            head.push_str("Connection: close\r\n");
        }
        let no_body = m.method() == "HEAD" || st == 204;
        let mut wire: Vec<u8>;
        if no_body {
            if st != 204 {
                head.push_str(&format!("Content-Length: {len}\r\n"));
            }
            head.push_str("\r\n");
            wire = head.into_bytes();
        } else if fr == "ch" {
            head.push_str("Transfer-Encoding: chunked\r\n\r\n");
            wire = head.into_bytes();
            // first chunk of `seg` bytes (a frame boundary at that offset), the rest in 8 KiB chunks
            let mut pos = 0;
            while pos < len {
                let cs = if seg == 0 { len.max(1) } else if pos == 0 { seg } else { 8192 };
                let e = (pos + cs).min(len);
                wire.extend_from_slice(format!("{:x}\r\n", e - pos).as_bytes());
                wire.extend_from_slice(&body[pos..e]);
                wire.extend_from_slice(b"\r\n");
                pos = e;
            }
            wire.extend_from_slice(b"0\r\n\r\n");
        } else {
            head.push_str(&format!("Content-Length: {len}\r\n\r\n"));
            wire = head.into_bytes();
            wire.extend_from_slice(&body);
        }
        // cut=<n>: the host dies after the first n bytes of its answer (n counted from the end of the head when
        // prefixed with 'h', from the end of the message when prefixed with 'e')
        if let Some(c) = qparam(&t, "cut") {
            let head_len = wire.windows(4).position(|x| x == b"\r\n\r\n").map(|i| i + 4).unwrap_or(0);
            let n = if let Some(r) = c.strip_prefix('h') {
                head_len + r.parse::<usize>().unwrap_or(0)
            } else if let Some(r) = c.strip_prefix('e') {
                wire.len() - r.parse::<usize>().unwrap_or(1).min(wire.len())
            } else {
                c.parse::<usize>().unwrap_or(0)
            };
            return Action::ReplyClose(vec![wire[..n.min(wire.len() - 1)].to_vec()]);
        }
        // write in segments with boundaries at multiples of `seg` bytes of the wire image
        let segs: Vec<Vec<u8>> = if seg == 0 || wire.len() <= seg { vec![wire] } else { vec![wire[..seg].to_vec(), wire[seg..].to_vec()] };
        if host_closes {
            return Action::ReplyClose(segs);
        }
        Action::Reply(segs)
    })
}

const EXEMPT_BOTH_LEGS: [&str; 6] = ["content-length", "transfer-encoding", "connection", "date", "keep-alive", "host"];
const PROXY_OWNED: [&str; 3] = ["x-ms-azure-host-claims", "x-ms-azure-host-date", "x-ms-azure-host-authorization"];

fn comparable(headers: &[(String, Vec<u8>)], drop_owned: bool) -> Vec<(String, Vec<u8>)> {
    // names case-insensitively, values exactly, order of equal names preserved: stable sort by name
    let mut v: Vec<(String, Vec<u8>)> = headers
        .iter()
        .map(|(n, v)| (n.to_lowercase(), v.clone()))
        .filter(|(n, _)| !EXEMPT_BOTH_LEGS.contains(&n.as_str()) && !(drop_owned && PROXY_OWNED.contains(&n.as_str())))
        .collect();
    v.sort_by(|a, b| a.0.cmp(&b.0));
    v
}

#[derive(Clone)]
struct ReqSpec {
    method: &'static str,
    hset: usize,
    body_len: usize,
    chunk: Option<usize>, // None = content-length; Some(0) = one chunk; Some(n) = chunks of n
    st: u16,
    rlen: usize,
    rfr: &'static str,
    seg: usize,
}

fn header_sets() -> Vec<Vec<(&'static str, &'static [u8])>> {
    vec![
        vec![],
        vec![("X-One", b"1"), ("x-one", b"2"), ("X-ONE", b"3")],
        vec![("X-MiXeD-CaSe", b"Some Value"), ("Accept", b"*/*"), ("X-Empty", b"")],
        vec![("User-Agent", b"vt/1.0 (a; b)"), ("X-Punct", b"a=b; c=\"d\", e"), ("Cookie", b"k=v; k2=v2")],
        // names that merely resemble the three proxy-owned ones, and the platform's own request headers
        vec![("x-ms-azure-host-name", b"my-vm"), ("X-Ms-Azure-Host-Claims-Extra", b"x"), ("x-ms-azure-hostx", b"1"), ("x-ms-azure-host", b"h"), ("x-ms-version", b"2012-11-30"), ("x-ms-agent-name", b"WALinuxAgent"), ("Metadata", b"true")],
        // well-known request header names (one that a relay special-cases by name must show up)
        vec![("Connection", b"keep-alive"), ("Keep-Alive", b"timeout=5, max=100"), ("Proxy-Connection", b"keep-alive")],
        vec![("Accept-Encoding", b"gzip"), ("Cache-Control", b"no-cache"), ("Pragma", b"no-cache"), ("Origin", b"http://x"), ("Referer", b"http://x/y"), ("Authorization", b"Bearer abc.def"), ("If-None-Match", b"\"e1\""), ("Range", b"bytes=0-9"), ("Via", b"1.1 v"), ("X-Forwarded-For", b"10.0.0.1"), ("Forwarded", b"for=10.0.0.1"), ("Content-Type", b"text/plain; charset=utf-8"), ("Content-Language", b"en"), ("Accept-Language", b"en-US,en;q=0.5")],
    ]
}

fn spec_json(s: &ReqSpec, id: u64) -> Value {
    json!({"id": id, "method": s.method, "client_headers": s.hset, "request_body": s.body_len, "request_framing": match s.chunk { None => "content-length".to_string(), Some(0) => "one chunk".to_string(), Some(n) => format!("chunks of {n}") },
           "response": {"status": s.st, "body": s.rlen, "framing": s.rfr, "segment_boundary": s.seg}})
}

fn build(s: &ReqSpec, id: u64) -> (Vec<u8>, String, Vec<u8>) {
    let target = format!("/t?id={id}&st={}&len={}&fr={}&seg={}", s.st, s.rlen, s.rfr, s.seg);
    let body = pattern(s.body_len, id ^ 0x55);
    let hs = header_sets();
    let mut hv: Vec<(&str, &[u8])> = vec![("Host", b"metadata")];
    hv.extend(hs[s.hset].iter().cloned());
    let has_body = s.body_len > 0 || s.chunk.is_some() || (s.method != "GET" && s.method != "HEAD" && s.method != "DELETE");
    let chunks_vec;
    let chunked: Option<&[usize]> = match s.chunk {
        None => None,
        Some(0) => Some(&[]),
        Some(n) => {
            chunks_vec = vec![n];
            Some(&chunks_vec)
        }
    };
    let raw = build_request(s.method, &target, &hv, if has_body { Some(&body) } else { None }, chunked);
    (raw, target, body)
}

fn check_pair(res: &mut EngineResult, s: &ReqSpec, id: u64, target: &str, body: &[u8], at_host: Option<&Msg>, resp: &Result<Msg, String>, ctx: &str) {
    let case = json!({"spec": spec_json(s, id), "context": ctx});
    let m = match at_host {
        Some(m) => m,
        None => {
            res.violation("request-not-relayed", &format!("nothing reached the host; client got {:?}", resp.as_ref().map(|r| r.status())), case);
            return;
        }
    };
    if m.method() != s.method || m.target() != target {
        res.violation("request:method-or-target-changed", &format!("host saw {} {}", m.method(), m.target()), case.clone());
    }
    if m.body != body {
        res.violation("request:body-changed", &format!("host saw a body of {} bytes, client sent {}", m.body.len(), body.len()), case.clone());
    }
    let hs = header_sets();
    let sent: Vec<(String, Vec<u8>)> = hs[s.hset].iter().map(|(n, v)| (n.to_string(), v.to_vec())).collect();
    if comparable(&m.headers, true) != comparable(&sent, true) {
        res.violation("request:client-headers-changed", &format!("host saw headers {:?}, client sent {:?}", comparable(&m.headers, true).iter().map(|(n, v)| format!("{n}:{}", String::from_utf8_lossy(v))).collect::<Vec<_>>(), comparable(&sent, true).iter().map(|(n, v)| format!("{n}:{}", String::from_utf8_lossy(v))).collect::<Vec<_>>()), case.clone());
    }
    match resp {
        Err(e) => res.violation("response:none", &format!("client got no response: {e}"), case),
        Ok(r) => {
            if r.status() != s.st {
                res.violation("response:status-changed", &format!("client got {} host sent {}", r.status(), s.st), case.clone());
            }
            if r.header("x-echo-id") != Some(id.to_string()) {
                res.violation("response:answers-another-request", &format!("response to request {id} carries echo id {:?}", r.header("x-echo-id")), case.clone());
            }
            let want_body = if s.method == "HEAD" || s.st == 204 { Vec::new() } else { pattern(s.rlen, id) };
            if r.body != want_body {
                let at = r.body.iter().zip(want_body.iter()).position(|(a, b)| a != b);
                res.violation("response:body-changed", &format!("client got {} bytes, host sent {}; first difference at {:?}", r.body.len(), want_body.len(), at), case.clone());
            }
            let want_h: Vec<(String, Vec<u8>)> = vec![
                ("x-echo-id".into(), id.to_string().into_bytes()),
                ("x-resp".into(), b"r1".to_vec()),
                ("x-resp".into(), b"r2".to_vec()),
                ("x-mixed-resp".into(), b"Va Lue".to_vec()),
                ("content-type".into(), b"application/octet-stream".to_vec()),
                ("x-ms-azure-host-authorization".into(), b"value".to_vec()),
            ];
            if comparable(&r.headers, false) != comparable(&want_h, false) {
                res.violation("response:headers-changed", &format!("client got {:?}", comparable(&r.headers, false).iter().map(|(n, v)| format!("{n}:{}", String::from_utf8_lossy(v))).collect::<Vec<_>>()), case);
            }
        }
    }
}

fn main() {
    world::install_panic_recorder();
    let thorough = is_thorough();
    let prop = std::env::var("VERIF_PROPERTY").unwrap_or("C14".into());
    let w = World::start(WorldOpts::default());
    let mut res = EngineResult::new(&prop);
    let root_pid = w.spawn_proc("/usr/bin/vt-waagent", &["100000"], None);
    let rec = AuditRec::to(WS, 0, root_pid, true);
    w.hosts.ws.set_responder(responder());
    let mut sport: u16 = 36000;
    let mut evals = 0u64;
    let mut stopped_early = false;
    let mut nontrivial: BTreeSet<String> = BTreeSet::new();

    if prop == "C14" {
        let methods = ["GET", "HEAD", "POST", "PUT", "DELETE"];
        let req_bodies: Vec<(usize, Option<usize>)> = if thorough {
            vec![(0, None), (1, None), (1023, None), (65536, None), (102399, None), (102400, None), (1, Some(1)), (1023, Some(1)), (1023, Some(7)), (65536, Some(4096)), (65536, Some(0)), (102400, Some(4096)), (102400, Some(7)), (0, Some(0))]
        } else {
            vec![(0, None), (1, None), (1023, Some(7)), (102400, None), (65536, Some(4096))]
        };
        let mut resps: Vec<(u16, usize, &'static str, usize)> = Vec::new();
        if thorough {
            for st in [200u16, 204, 404, 500] {
                for rlen in [0usize, 1, 70000] {
                    resps.push((st, rlen, "cl", 0));
                    for seg in [0usize, 1, 2, 4095, 4096, 4097] {
                        resps.push((st, rlen, "ch", seg));
                    }
                    for seg in [1usize, 4096] {
                        resps.push((st, rlen, "cl", seg));
                    }
                }
            }
        } else {
            resps = vec![(200, 0, "cl", 0), (200, 70000, "ch", 4096), (404, 1, "cl", 0), (204, 0, "cl", 0), (500, 70000, "cl", 4097), (200, 70000, "ch", 1)];
        }
        let hsets = header_sets().len();
        let mut specs: Vec<ReqSpec> = Vec::new();
        for m in methods {
            for h in 0..hsets {
                for (bl, ch) in &req_bodies {
                    if (m == "GET" || m == "HEAD" || m == "DELETE") && (*bl > 0 || ch.is_some()) {
                        continue;
                    }
                    for (st, rlen, rfr, seg) in &resps {
                        if !thorough && h > 1 && *bl > 1023 && *rlen > 1 {
                            continue;
                        }
                        specs.push(ReqSpec { method: m, hset: h, body_len: *bl, chunk: *ch, st: *st, rlen: *rlen, rfr, seg: *seg });
                    }
                }
            }
        }
        if let Ok(path) = std::env::var("VERIF_REPLAY") {
            let doc: Value = serde_json::from_str(&std::fs::read_to_string(path).unwrap()).unwrap();
            let mut want = doc["case"]["spec"].clone();
            want.as_object_mut().map(|o| o.remove("id"));
            specs.retain(|s| {
                let mut j = spec_json(s, 0);
                j.as_object_mut().map(|o| o.remove("id"));
                j == want
            });
        }
        // family 1: one request per fresh connection, with and without a latched key
        let mut id = 0u64;
        for keyed in [true, false] {
            w.set_key(if keyed { Some(K1) } else { None });
            for s in &specs {
                if !keyed && !(s.hset == 1 || s.body_len == 102400) {
                    continue;
                }
                id += 1;
                sport = if sport >= 39000 { 36000 } else { sport + 1 };
                let (raw, target, body) = build(s, id);
                let cur = w.hosts.ws.cursor();
                let t_case = std::time::Instant::now();
                let resp = match w.connect(Some(sport), Some(&rec)) {
                    Ok(mut c) => {
                        let r = c.send(&raw).map_err(|e| e.to_string()).and_then(|_| c.read_response(s.method == "HEAD", Duration::from_secs(20)));
                        c.close();
                        r
                    }
                    Err(e) => Err(format!("connect: {e}")),
                };
                if t_case.elapsed() > Duration::from_millis(150) {
                    eprintln!("SLOW {:?} {}", t_case.elapsed(), spec_json(s, id));
                }
                let got = w.hosts.ws.requests_since(cur);
                evals += 1;
                nontrivial.insert(format!("{}{}{}{:?}{}{}{}{}", s.method, s.hset, s.body_len, s.chunk, s.st, s.rlen, s.rfr, s.seg));
                if got.len() > 1 {
                    res.violation("request-relayed-more-than-once", &format!("{} requests at host", got.len()), json!({"spec": spec_json(s, id)}));
                }
                check_pair(&mut res, s, id, &target, &body, got.first().map(|g| &g.1), &resp, if keyed { "single/key-latched" } else { "single/no-key" });
                if evals <= 2 {
                    res.sample(json!({"spec": spec_json(s, id), "client_status": resp.as_ref().map(|r| r.status()).map_err(|e| e.clone())}));
                }
            }
        }
        // family 2: pipelines of 1..3 requests sent back to back on keep-alive connections, 1 and 2 connections
        w.set_key(Some(K1));
        let pipe_specs: Vec<ReqSpec> = specs.iter().filter(|s| s.method != "HEAD" && s.body_len <= 1023 && s.hset <= 1).cloned().collect();
        let npipe = if thorough { 400 } else { 60 };
        let mut pi = 0usize;
        let mut pipelines = 0u64;
        for nconn in [1usize, 2] {
            for depth in 1..=3usize {
                for _ in 0..npipe / 6 {
                    let mut conns: Vec<Client> = Vec::new();
                    let mut unpacked: Vec<Vec<(ReqSpec, u64, String, Vec<u8>, Vec<u8>)>> = Vec::new();
                    for _ in 0..nconn {
                        sport = if sport >= 39000 { 36000 } else { sport + 1 };
                        conns.push(w.connect(Some(sport), Some(&rec)).unwrap());
                        let mut reqs = Vec::new();
                        for _ in 0..depth {
                            let s = pipe_specs[pi % pipe_specs.len()].clone();
                            pi += 7;
                            id += 1;
                            let (raw, target, body) = build(&s, id);
                            reqs.push((s, id, target, body, raw));
                        }
                        unpacked.push(reqs);
                    }
                    let cur = w.hosts.ws.cursor();
                    // send everything back to back, round robin over connections
                    for d in 0..depth {
                        for (ci, c) in conns.iter_mut().enumerate() {
                            c.send(&unpacked[ci][d].4).unwrap();
                        }
                    }
                    let mut responses: Vec<Vec<Result<Msg, String>>> = Vec::new();
                    for (ci, c) in conns.iter_mut().enumerate() {
                        let mut v = Vec::new();
                        for d in 0..depth {
                            let _ = &unpacked[ci][d];
                            v.push(c.read_response(false, Duration::from_secs(20)));
                        }
                        responses.push(v);
                    }
                    let got = w.hosts.ws.requests_since(cur);
                    pipelines += 1;
                    for ci in 0..nconn {
                        for d in 0..depth {
                            let (s, rid, t, body, _) = &unpacked[ci][d];
                            evals += 1;
                            let at_host = got.iter().find(|(_, m)| qparam(m.target(), "id") == Some(&rid.to_string())).map(|g| &g.1);
                            check_pair(&mut res, s, *rid, t, body, at_host, &responses[ci][d], &format!("pipeline depth {depth} on {nconn} connection(s), position {d}"));
                        }
                    }
                    for c in conns {
                        c.close();
                    }
                }
            }
        }
        // family 2b (SAMPLED, labelled): back-to-back pairs on one kept-alive connection while the agent's runtime workers
        // are held a millisecond at a time (a busy machine): the second request is handed to the upstream connection the
        // moment the first answer has been relayed, whatever state that connection's own task is in
        let mut b2b = 0u64;
        {
            let stop = Arc::new(std::sync::atomic::AtomicBool::new(false));
            for _ in 0..2 {
                let stop = stop.clone();
                w.rt.spawn(async move {
                    while !stop.load(std::sync::atomic::Ordering::SeqCst) {
                        std::thread::sleep(Duration::from_micros(700));
                        tokio::task::yield_now().await;
                    }
                });
            }
            let rounds = if thorough { 1200 } else { 300 };
            for r in 0..rounds {
                sport = if sport >= 39000 { 36000 } else { sport + 1 };
                let mut c = match w.connect(Some(sport), Some(&rec)) {
                    Ok(c) => c,
                    Err(_) => continue,
                };
                let first = ReqSpec { method: "PUT", hset: 0, body_len: 1, chunk: None, st: 200, rlen: if r % 2 == 0 { 70000 } else { 1 }, rfr: if r % 3 == 0 { "cl" } else { "ch" }, seg: [0usize, 1, 4096][r % 3] };
                let second = ReqSpec { method: "GET", hset: 0, body_len: 0, chunk: None, st: 404, rlen: 1, rfr: "cl", seg: 0 };
                id += 1;
                let (raw1, t1, b1) = build(&first, id);
                let id1 = id;
                id += 1;
                let (raw2, t2, b2) = build(&second, id);
                let cur = w.hosts.ws.cursor();
                let mut both = raw1.clone();
                both.extend_from_slice(&raw2);
                let _ = c.send(&both);
                let r1 = c.read_response(false, Duration::from_secs(20));
                let r2 = c.read_response(false, Duration::from_secs(20));
                let got = w.hosts.ws.requests_since(cur);
                b2b += 1;
                evals += 2;
                let at1 = got.iter().find(|(_, m)| qparam(m.target(), "id") == Some(&id1.to_string())).map(|g| &g.1);
                let at2 = got.iter().find(|(_, m)| qparam(m.target(), "id") == Some(&id.to_string())).map(|g| &g.1);
                check_pair(&mut res, &first, id1, &t1, &b1, at1, &r1, "back-to-back pair, first request");
                check_pair(&mut res, &second, id, &t2, &b2, at2, &r2, "back-to-back pair, second request");
                c.close();
            }
            stop.store(true, std::sync::atomic::Ordering::SeqCst);
            std::thread::sleep(Duration::from_millis(5));
        }
        res.cov("back_to_back_pairs_sampled", b2b);
        // family 3: the two signature-exempt uploads (their own code path), every request body framing
        let mut exempt_n = 0u64;
        for (m, t) in [("PUT", "/vmAgentLog"), ("POST", "/machine/?comp=telemetrydata"), ("PUT", "/VMAGENTLOG")] {
            for (bl, ch) in [(0usize, None), (1, None), (11, Some(0usize)), (1023, Some(7)), (65536, Some(4096)), (102400, None), (102401, None), (300000, Some(65536)), (1 << 20, None)] {
                for hset in [0usize, 1] {
                    id += 1;
                    sport = if sport >= 39000 { 36000 } else { sport + 1 };
                    let body = pattern(bl, id);
                    let hs = header_sets();
                    let mut hv: Vec<(&str, &[u8])> = vec![("Host", b"metadata")];
                    hv.extend(hs[hset].iter().cloned());
                    let cv;
                    let chunked: Option<&[usize]> = match ch {
                        None => None,
                        Some(0) => Some(&[]),
                        Some(n) => {
                            cv = vec![n];
                            Some(&cv)
                        }
                    };
                    let raw = build_request(m, t, &hv, Some(&body), chunked);
                    let cur = w.hosts.ws.cursor();
                    let resp = match w.connect(Some(sport), Some(&rec)) {
                        Ok(mut c) => {
                            let r = c.send(&raw).map_err(|e| e.to_string()).and_then(|_| c.read_response(false, Duration::from_secs(20)));
                            c.close();
                            r
                        }
                        Err(e) => Err(format!("connect: {e}")),
                    };
                    let got = w.hosts.ws.requests_since(cur);
                    evals += 1;
                    exempt_n += 1;
                    nontrivial.insert(format!("exempt{m}{t}{bl}{:?}{hset}", ch));
                    let case = json!({"family": "exempt-upload", "method": m, "target": t, "request_body": bl, "chunk": ch, "client_headers": hset});
                    let sent: Vec<(String, Vec<u8>)> = hs[hset].iter().map(|(n, v)| (n.to_string(), v.to_vec())).collect();
                    match got.first() {
                        None => res.violation("request-not-relayed", &format!("exempt upload not relayed; client got {:?}", resp.as_ref().map(|r| r.status())), case),
                        Some((_, hm)) => {
                            if hm.method() != m || hm.target() != t {
                                res.violation("request:method-or-target-changed", &format!("host saw {} {}", hm.method(), hm.target()), case.clone());
                            }
                            if hm.body != body {
                                res.violation("request:body-changed", &format!("exempt upload: host saw a body of {} bytes, client sent {}", hm.body.len(), body.len()), case.clone());
                            }
                            if comparable(&hm.headers, true) != comparable(&sent, true) {
                                res.violation("request:client-headers-changed", "exempt upload: client headers changed", case.clone());
                            }
                            if resp.as_ref().map(|r| r.status()) != Ok(200) {
                                res.violation("response:status-changed", &format!("{:?}", resp.as_ref().map(|r| r.status())), case);
                            }
                        }
                    }
                }
            }
        }
        // family 4: the host dies part-way through its answer: whatever the client gets, it is not a complete
        // message with the host's status (the full body never existed, so none can have been relayed unchanged)
        w.set_key(Some(K1));
        let mut aborted_n = 0u64;
        for fr in ["ch", "cl"] {
            for len in [5usize, 20000] {
                for cut in ["0", "10", "h0", "h1", "h3", "h4000", "h8197", "e8", "e5", "e3", "e1"] {
                    for seg in [0usize, 4096] {
                        for method in ["GET", "POST"] {
                            if seg == 4096 && (len == 5 || method == "POST") {
                                continue;
                            }
                            id += 1;
                            aborted_n += 1;
                            sport = if sport >= 39000 { 36000 } else { sport + 1 };
                            let target = format!("/abort?id={id}&st=200&len={len}&fr={fr}&seg={seg}&cut={cut}");
                            let raw = build_request(method, &target, &[("Host", b"h")], if method == "POST" { Some(b"req-body") } else { None }, None);
                            let cur_abort = w.hosts.ws.cursor();
                            let resp = match w.connect(Some(sport), Some(&rec)) {
                                Ok(mut c) => {
                                    let r = c.send(&raw).map_err(|e| e.to_string()).and_then(|_| c.read_response(false, Duration::from_secs(4)));
                                    c.close();
                                    r
                                }
                                Err(e) => Err(format!("connect: {e}")),
                            };
                            evals += 1;
                            let case = json!({"family": "host-dies-mid-answer", "method": method, "framing": fr, "body": len, "cut": cut, "segment": seg});
                            nontrivial.insert(case.to_string());
                            // the client sent the request once: the host sees it once, however its answer ended
                            let seen = w.hosts.ws.requests_since(cur_abort).iter().filter(|(_, m)| m.target() == target).count();
                            if seen != 1 {
                                res.violation("request:delivered-more-than-once", &format!("the host died after {cut} of its answer; it received the client's single {method} request {seen} times"), case.clone());
                            }
                            if let Ok(r) = &resp {
                                if r.status() == 200 {
                                    res.violation("response:truncated-answer-presented-as-complete", &format!("the host sent {cut} (h = after the head, e = before the end) of a {len}-byte {fr} answer and died; the client received a complete 200 message with a {}-byte body", r.body.len()), case);
                                }
                            }
                        }
                    }
                }
            }
        }
        // family 6: uploads that take longer than ten seconds in total while the client never stalls for long (four pieces,
        // 3.6 s apart), on the signature-exempt and on the signed route, content-length and chunked; run side by side
        let mut slow_n = 0u64;
        {
            let mut jobs = Vec::new();
            for (k, (method, target, chunked)) in [("PUT", "/vmAgentLog", false), ("POST", "/slow?x=1", false), ("POST", "/slow?x=2", true)].into_iter().enumerate() {
                id += 1;
                slow_n += 1;
                sport = if sport >= 39000 { 36000 } else { sport + 1 };
                let body = pattern(16, id);
                let rid = id;
                let t = format!("{target}{}id={rid}&st=200&len=2&fr=cl", if target.contains('?') { "&" } else { "?" });
                let cs = [4usize];
                let raw = build_request(method, &t, &[("Host", b"h")], Some(&body), if chunked { Some(&cs) } else { None });
                let head_len = raw.windows(4).position(|x| x == b"\r\n\r\n").unwrap() + 4;
                let conn = w.connect(Some(sport), Some(&rec));
                jobs.push((k, method, t, body, rid, std::thread::spawn(move || -> Result<Msg, String> {
                    let mut c = conn.map_err(|e| format!("connect: {e}"))?;
                    let rest = &raw[head_len..];
                    let piece = rest.len().div_ceil(4);
                    c.send(&raw[..head_len]).map_err(|e| e.to_string())?;
                    for (i, part) in rest.chunks(piece).enumerate() {
                        if i > 0 {
                            std::thread::sleep(Duration::from_millis(3600));
                        }
                        c.send(part).map_err(|e| e.to_string())?;
                    }
                    let r = c.read_response(false, Duration::from_secs(20));
                    c.close();
                    r
                })));
            }
            let cur = w.hosts.ws.cursor();
            let results: Vec<_> = jobs.into_iter().map(|(k, m, t, b, rid, h)| (k, m, t, b, rid, h.join().unwrap_or_else(|_| Err("client thread panicked".into())))).collect();
            let got = w.hosts.ws.requests_since(cur);
            for (_k, method, t, body, rid, resp) in results {
                evals += 1;
                let case = json!({"family": "upload-slower-than-10s", "method": method, "target": t, "pieces": 4, "gap_ms": 3600});
                nontrivial.insert(case.to_string());
                let at_host = got.iter().find(|(_, m)| qparam(m.target(), "id") == Some(&rid.to_string())).map(|g| &g.1);
                match (at_host, &resp) {
                    (Some(m), Ok(r)) if m.body == body && r.status() == 200 => {}
                    (h, r) => res.violation("request:slow-upload-not-relayed", &format!("an upload of 16 bytes sent in 4 pieces over 10.8 s: host saw {:?}, client got {:?}", h.map(|m| m.body.len()), r.as_ref().map(|x| x.status()).map_err(|e| e.clone())), case),
                }
            }
        }
        res.cov("slow_upload_requests", slow_n);
        // family 5: absolute-form request targets (a client configured with an HTTP proxy sends them): path and query
        // reach the host unchanged (whether the proxy keeps the absolute form or rewrites it to origin form)
        let mut abs_n = 0u64;
        let origin = |t: &str| -> String {
            match t.strip_prefix("http://") {
                Some(rest) => match rest.find('/') {
                    Some(i) => rest[i..].to_string(),
                    None => "/".to_string(),
                },
                None => t.to_string(),
            }
        };
        for authority in ["168.63.129.16", "168.63.129.16:80", "metadata.example"] {
            for pq in ["/abs", "/abs?x=1", "/abs/deep/path?api-version=2021-02-01&format=json", "/abs?", "/?q=%2F"] {
                for method in ["GET", "POST"] {
                    id += 1;
                    abs_n += 1;
                    sport = if sport >= 39000 { 36000 } else { sport + 1 };
                    let sep = if pq.contains('?') { if pq.ends_with('?') { "" } else { "&" } } else { "?" };
                    let path_query = format!("{pq}{sep}id={id}&st=200&len=3&fr=cl");
                    let target = format!("http://{authority}{path_query}");
                    let raw = build_request(method, &target, &[("Host", authority.as_bytes())], if method == "POST" { Some(b"req-body") } else { None }, None);
                    let cur = w.hosts.ws.cursor();
                    let resp = match w.connect(Some(sport), Some(&rec)) {
                        Ok(mut c) => {
                            let r = c.send(&raw).map_err(|e| e.to_string()).and_then(|_| c.read_response(false, Duration::from_secs(10)));
                            c.close();
                            r
                        }
                        Err(e) => Err(format!("connect: {e}")),
                    };
                    evals += 1;
                    let case = json!({"family": "absolute-form-target", "method": method, "target": target});
                    nontrivial.insert(case.to_string());
                    let got = w.hosts.ws.requests_since(cur);
                    match got.first() {
                        None => res.violation("request-not-relayed", &format!("absolute-form request: nothing reached the host; client got {:?}", resp.as_ref().map(|r| r.status())), case),
                        Some((_, m)) => {
                            if m.method() != method || origin(m.target()) != path_query {
                                res.violation("request:method-or-target-changed", &format!("client sent {method} {target}; host saw {} {}", m.method(), m.target()), case);
                            }
                        }
                    }
                }
            }
        }
        res.cov("absolute_form_requests", abs_n);
        // family 7: queries that merely *contain* dots / escapes resembling a traversal (the path does not), and request heads
        // of 8 KiB ... 100 KiB (a large bearer token or cookie): relayed like anything else, byte for byte
        let mut odd_n = 0u64;
        {
            let big = |n: usize| -> Vec<u8> { (0..n).map(|i| b"abcdefghijklmnopqrstuvwxyzABCDEFGHIJKLMNOPQRSTUVWXYZ0123456789-._~+/="[i % 69]).collect() };
            let mut shapes: Vec<(String, String, Vec<(String, Vec<u8>)>)> = Vec::new();
            for q in ["range=1.0..2.0", "name=Foo..Bar", "p=%2e%2e", "p=%2E%2E%2Fx", "next=../up", "v=...", "a=.&b=.", "x=1.."] {
                shapes.push((format!("query-with-dots:{q}"), format!("/odd/q?{q}"), vec![]));
            }
            for n in [8 * 1024usize, 12 * 1024, 24 * 1024, 64 * 1024, 100 * 1024] {
                shapes.push((format!("header-of-{n}-bytes"), "/odd/h".to_string(), vec![("Authorization".to_string(), [b"Bearer ".to_vec(), big(n)].concat())]));
            }
            shapes.push(("forty-headers-of-1-KiB".into(), "/odd/h40".into(), (0..40).map(|i| (format!("X-Big-{i}"), big(1024))).collect()));
            for (label, pq, hdrs) in shapes {
                for method in ["GET", "POST"] {
                    id += 1;
                    odd_n += 1;
                    sport = if sport >= 39000 { 36000 } else { sport + 1 };
                    let sep = if pq.contains('?') { "&" } else { "?" };
                    let target = format!("{pq}{sep}id={id}&st=200&len=3&fr=cl");
                    let mut hv: Vec<(&str, &[u8])> = vec![("Host", b"h")];
                    for (n, v) in &hdrs {
                        hv.push((n.as_str(), v.as_slice()));
                    }
                    let raw = build_request(method, &target, &hv, if method == "POST" { Some(b"req-body") } else { None }, None);
                    let cur = w.hosts.ws.cursor();
                    let resp = match w.connect(Some(sport), Some(&rec)) {
                        Ok(mut c) => {
                            let r = c.send(&raw).map_err(|e| e.to_string()).and_then(|_| c.read_response(false, Duration::from_secs(10)));
                            c.close();
                            r
                        }
                        Err(e) => Err(format!("connect: {e}")),
                    };
                    evals += 1;
                    let case = json!({"family": "unusual-but-legal-request", "shape": label, "method": method, "target": target});
                    nontrivial.insert(case.to_string());
                    let got = w.hosts.ws.requests_since(cur);
                    match got.first() {
                        None => res.violation("request-not-relayed", &format!("{label}: nothing reached the host; client got {:?}", resp.as_ref().map(|r| r.status()).map_err(|e| e.clone())), case),
                        Some((_, m)) => {
                            let hdr_ok = hdrs.iter().all(|(n, v)| m.headers.iter().any(|(hn, hv)| hn.eq_ignore_ascii_case(n) && hv == v));
                            if m.method() != method || m.target() != target || !hdr_ok || resp.as_ref().map(|r| r.status()).ok() != Some(200) {
                                res.violation("request:method-target-or-header-changed", &format!("{label}: client sent {method} {target}; host saw {} {} (large headers intact: {hdr_ok}); client got {:?}", m.method(), m.target(), resp.as_ref().map(|r| r.status()).map_err(|e| e.clone())), case);
                            }
                        }
                    }
                }
            }
        }
        res.cov("unusual_but_legal_requests", odd_n);
        // family 8: large answers to a client that reads slowly while the proxy is the side that closes first (the client
        // asked for `Connection: close` or speaks HTTP/1.0): every byte still arrives, and the end is a clean end of stream
        let mut slowread_n = 0u64;
        {
            use std::io::Read;
            for (label, head_extra, version) in [("connection-close", "Connection: close\r\n", "1.1"), ("http-1.0", "", "1.0")] {
                for len in if thorough { vec![300_000usize, 2_000_000, 16_000_000] } else { vec![300_000usize, 4_000_000] } {
                    for fr in ["cl", "ch"] {
                        id += 1;
                        slowread_n += 1;
                        sport = if sport >= 39000 { 36000 } else { sport + 1 };
                        let target = format!("/slowread?id={id}&st=200&len={len}&fr={fr}&seg=0");
                        let raw = format!("GET {target} HTTP/{version}\r\nHost: h\r\n{head_extra}\r\n").into_bytes();
                        let case = json!({"family": "slow-reader-proxy-closes-first", "client": label, "response_body": len, "response_framing": fr});
                        nontrivial.insert(case.to_string());
                        evals += 1;
                        let mut c = match w.connect(Some(sport), Some(&rec)) {
                            Ok(c) => c,
                            Err(e) => vcommon::result::machinery(&format!("connect: {e}")),
                        };
                        // a small receive buffer and paced reads: the proxy has written everything and closed long before the
                        // client has read it
                        unsafe {
                            use std::os::fd::AsRawFd;
                            let sz: libc::c_int = 16384;
                            libc::setsockopt(c.stream.as_raw_fd(), libc::SOL_SOCKET, libc::SO_RCVBUF, &sz as *const _ as *const _, 4);
                        }
                        let _ = c.send(&raw);
                        let _ = c.stream.set_read_timeout(Some(Duration::from_secs(20)));
                        let mut got: Vec<u8> = Vec::with_capacity(len + 1024);
                        let mut buf = vec![0u8; 65536];
                        let mut err: Option<String> = None;
                        loop {
                            match c.stream.read(&mut buf) {
                                Ok(0) => break,
                                Ok(n) => {
                                    got.extend_from_slice(&buf[..n]);
                                    std::thread::sleep(Duration::from_millis(2));
                                }
                                Err(e) => {
                                    err = Some(e.to_string());
                                    break;
                                }
                            }
                        }
                        let parsed = vcommon::rawhttp::parse(&got, true, false, true);
                        let want = pattern(len, id);
                        match parsed {
                            vcommon::rawhttp::Parse::Complete(m, _) if m.body == want && m.status() == 200 && err.is_none() => {}
                            vcommon::rawhttp::Parse::Complete(m, _) => res.violation("response:body-changed:slow-reader", &format!("client ({label}) reading 64 KiB every 2 ms got status {} and {} of {len} body bytes, read error {:?}", m.status(), m.body.len(), err), case),
                            _ => res.violation("response:cut-short:slow-reader", &format!("client ({label}) reading 64 KiB every 2 ms got {} bytes on the wire of a {len}-byte body and then {:?}", got.len(), err.unwrap_or("end of stream".into())), case),
                        }
                    }
                }
            }
        }
        res.cov("slow_reader_requests", slowread_n);
        // family 9: two clients of one endpoint at the same time, each on its own kept-alive connection; one of them ends its
        // connection with `Connection: close` (or the host ends that exchange with it) between two requests of the other
        let mut conc_n = 0u64;
        {
            for closer in ["client-connection-close", "http-1.0-client", "host-connection-close"] {
                let p1 = { sport = if sport >= 39000 { 36000 } else { sport + 1 }; sport };
                let p2 = { sport = if sport >= 39000 { 36000 } else { sport + 1 }; sport };
                let mut b = w.connect(Some(p1), Some(&rec)).unwrap_or_else(|e| vcommon::result::machinery(&format!("connect: {e}")));
                let mut ask = |c: &mut vcommon::rawhttp::Client, raw: Vec<u8>| c.send(&raw).map_err(|e| e.to_string()).and_then(|_| c.read_response(false, Duration::from_secs(10)));
                let mut ok = true;
                let mut detail = String::new();
                for step in 0..3 {
                    id += 1;
                    conc_n += 1;
                    evals += 1;
                    let t = format!("/conc/b?id={id}&st=200&len=5&fr=cl");
                    match ask(&mut b, build_request("GET", &t, &[("Host", b"h")], None, None)) {
                        Ok(r) if r.status() == 200 && r.body == pattern(5, id) => {}
                        other => {
                            ok = false;
                            detail = format!("request {} of the kept-alive client got {:?}", step + 1, other.map(|r| (r.status(), r.body.len())));
                            break;
                        }
                    }
                    if step == 0 {
                        // the other client comes and goes
                        id += 1;
                        let mut a = w.connect(Some(p2), Some(&rec)).unwrap_or_else(|e| vcommon::result::machinery(&format!("connect: {e}")));
                        let ta = format!("/conc/a?id={id}&st=200&len=5&fr=cl{}", if closer == "host-connection-close" { "&hc=1" } else { "" });
                        let raw = match closer {
                            "client-connection-close" => build_request("GET", &ta, &[("Host", b"h"), ("Connection", b"close")], None, None),
                            "http-1.0-client" => format!("GET {ta} HTTP/1.0\r\nHost: h\r\n\r\n").into_bytes(),
                            _ => build_request("GET", &ta, &[("Host", b"h")], None, None),
                        };
                        let _ = ask(&mut a, raw);
                        a.close();
                        std::thread::sleep(Duration::from_millis(30));
                    }
                }
                b.close();
                let case = json!({"family": "two-clients-one-endpoint", "the_other_client": closer});
                nontrivial.insert(case.to_string());
                if !ok {
                    res.violation("response:not-the-hosts:after-another-client-left", &format!("while another client of the same endpoint ended its own connection ({closer}): {detail}"), case);
                }
            }
        }
        res.cov("two_clients_one_endpoint_requests", conc_n);
        // family 11: the host ends an exchange with `Connection: close`; the same client goes on: on the same connection when
        // the proxy left it open (30 ms later it still is), on a new one otherwise - either way its next request is relayed
        let mut hc_n = 0u64;
        {
            for pause_ms in [0u64, 30] {
                for nth in [1usize, 2] {
                    sport = if sport >= 39000 { 36000 } else { sport + 1 };
                    let mut c = w.connect(Some(sport), Some(&rec)).unwrap_or_else(|e| vcommon::result::machinery(&format!("connect: {e}")));
                    let mut detail = String::new();
                    for step in 0..(nth + 2) {
                        id += 1;
                        hc_n += 1;
                        evals += 1;
                        let t = format!("/hc/s{step}?id={id}&st=200&len=5&fr=cl{}", if step == nth - 1 { "&hc=1" } else { "" });
                        let raw = build_request("GET", &t, &[("Host", b"h")], None, None);
                        let mut r = c.send(&raw).map_err(|e| e.to_string()).and_then(|_| c.read_response(false, Duration::from_secs(10)));
                        if step >= nth && r.is_err() {
                            // the proxy had closed the connection after the host's `Connection: close`: a new connection
                            c.close();
                            sport = if sport >= 39000 { 36000 } else { sport + 1 };
                            c = w.connect(Some(sport), Some(&rec)).unwrap_or_else(|e| vcommon::result::machinery(&format!("connect: {e}")));
                            r = c.send(&raw).map_err(|e| e.to_string()).and_then(|_| c.read_response(false, Duration::from_secs(10)));
                        }
                        match r {
                            Ok(m) if m.status() == 200 && m.body == pattern(5, id) => {}
                            other => {
                                detail = format!("request {} (the host had ended request {nth} with Connection: close) got {:?}", step + 1, other.map(|m| (m.status(), m.body.len())));
                                break;
                            }
                        }
                        if step == nth - 1 {
                            std::thread::sleep(Duration::from_millis(pause_ms));
                        }
                    }
                    c.close();
                    let case = json!({"family": "host-ends-an-exchange-with-connection-close", "which_request": nth, "pause_ms": pause_ms});
                    nontrivial.insert(case.to_string());
                    if !detail.is_empty() {
                        res.violation("response:not-the-hosts:after-the-host-closed-its-connection", &detail, case);
                    }
                }
            }
        }
        res.cov("requests_after_a_host_connection_close", hc_n);
        // family 10: one connection kept alive for 150 requests one after the other, and 150 more pipelined behind each other
        let mut long_n = 0u64;
        {
            sport = if sport >= 39000 { 36000 } else { sport + 1 };
            let mut c = w.connect(Some(sport), Some(&rec)).unwrap_or_else(|e| vcommon::result::machinery(&format!("connect: {e}")));
            let mut bad: Option<String> = None;
            for k in 0..150 {
                id += 1;
                long_n += 1;
                let t = format!("/long?id={id}&st=200&len=7&fr=cl");
                match c.send(&build_request("GET", &t, &[("Host", b"h")], None, None)).map_err(|e| e.to_string()).and_then(|_| c.read_response(false, Duration::from_secs(10))) {
                    Ok(r) if r.status() == 200 && r.body == pattern(7, id) && r.header("connection").map_or(true, |v| !v.eq_ignore_ascii_case("close")) => {}
                    other => {
                        bad = Some(format!("request {} of 150 on one kept-alive connection: {:?}", k + 1, other.map(|r| (r.status(), r.body.len(), r.header("connection")))));
                        break;
                    }
                }
            }
            if bad.is_none() {
                let first = id + 1;
                let mut all = Vec::new();
                for _ in 0..150 {
                    id += 1;
                    long_n += 1;
                    all.extend_from_slice(&build_request("GET", &format!("/long?id={id}&st=200&len=7&fr=cl"), &[("Host", b"h")], None, None));
                }
                let _ = c.send(&all);
                for k in 0..150u64 {
                    match c.read_response(false, Duration::from_secs(10)) {
                        Ok(r) if r.status() == 200 && r.body == pattern(7, first + k) => {}
                        other => {
                            bad = Some(format!("response {} of 150 pipelined requests (after 150 earlier ones on the connection): {:?}", k + 1, other.map(|r| (r.status(), r.body.len()))));
                            break;
                        }
                    }
                }
            }
            c.close();
            evals += 300;
            let case = json!({"family": "long-lived-connection", "requests": 300});
            nontrivial.insert(case.to_string());
            if let Some(b) = bad {
                res.violation("response:not-the-hosts:long-lived-connection", &b, case);
            }
        }
        res.cov("long_lived_connection_requests", long_n);
        res.cov("host_dies_mid_answer_requests", aborted_n);
        res.cov("exempt_upload_requests", exempt_n);
        res.cov("pipelines", pipelines);
        res.cov("rule", format!("one request per fresh attributed connection for the product of 5 methods x {} client header sets (repeated names in three spellings, empty value, punctuation, names resembling the proxy-owned ones, connection-management headers, 14 well-known request headers) x {} request body framings (0..102400 bytes, content-length / chunks of 1, 7, 4096 / single chunk) x {} host answers (status 200/204/404/500, body 0/1/70000 bytes covering all byte values, content-length or chunked, TCP segment boundary at 0/1/2/4095/4096/4097), with a key latched and (slice) without; plus {} pipelines of 1-3 back-to-back requests on 1 and 2 concurrent keep-alive connections; plus a SAMPLED family of 300 (1200) back-to-back request pairs on kept-alive connections while the agent's runtime workers are held 0.7 ms at a time; plus three uploads that take 10.8 s in total (4 pieces 3.6 s apart; exempt and signed route, content-length and chunked); plus 30 absolute-form request targets (3 authorities x 5 path/query shapes x 2 methods): path and query unchanged at the host; plus 28 requests whose query merely contains dots / escaped dots or whose head is 8 KiB .. 100 KiB large; plus answers of 0.3 .. 4 (16) MB read by a client that takes 64 KiB every 2 ms through a 16 KiB receive buffer while the proxy is the side that closes (Connection: close, HTTP/1.0); plus two clients of one endpoint on their own kept-alive connections, one leaving with Connection: close / as an HTTP/1.0 client / on the host's Connection: close between two requests of the other; plus requests of a client after the host ended one of its exchanges with Connection: close (same connection if the proxy left it open, else a new one); plus 300 requests on one connection (150 one after the other, 150 pipelined); plus answers cut off by the death of the host at 11 offsets (before the first byte, inside the head, 0/1/3/4000/8197 bytes into the body, 8/5/3/1 bytes before the end) x content-length/chunked x 2 sizes, which must not reach the client as a complete message while the host sees the request exactly once; plus the two signature-exempt uploads with 9 body framings (0 bytes .. 1 MiB, content-length and chunked) x 2 header sets; the host's answer is a function of the request target and echoes the request id", hsets, req_bodies.len(), resps.len(), pipelines));
    } else {
        // ---------------- C15 ----------------
        w.set_key(Some(K1));
        let low = 102_400usize;
        let high = 104_857_600usize;
        let mut cases: Vec<(&'static str, &'static str, usize, usize, bool, bool)> = Vec::new(); // method, target, limit, len, chunked, a small Content-Length header in front of Transfer-Encoding
        let low_targets: Vec<(&'static str, &'static str)> = vec![("POST", "/t?id=1"), ("PUT", "/t?id=1"), ("PUT", "/vmAgentLog/"), ("POST", "/vmAgentLog"), ("PUT", "/machine/?comp=telemetrydata"), ("POST", "/machine/?comp=telemetrydata&x=1"), ("PUT", "/vmAgentLog?x=1"),
            // method tokens are case-sensitive: these are not the two exempt uploads
            ("put", "/vmAgentLog"), ("Put", "/vmAgentLog"), ("post", "/machine/?comp=telemetrydata")];
        for (m, t) in &low_targets {
            for l in [low - 1, low, low + 1, 2 * low] {
                for ch in [false, true] {
                    cases.push((m, t, low, l, ch, false));
                }
                if l > low {
                    cases.push((m, t, low, l, true, true));
                }
            }
        }
        let high_targets: Vec<(&'static str, &'static str)> = if thorough { vec![("PUT", "/vmAgentLog"), ("POST", "/machine/?comp=telemetrydata"), ("PUT", "/VMAGENTLOG"), ("POST", "/MACHINE/?COMP=TelemetryData")] } else { vec![("PUT", "/vmAgentLog")] };
        for (m, t) in &high_targets {
            // small bodies on the exempt routes must of course pass
            cases.push((m, t, high, low + 1, false, false));
            cases.push((m, t, high, 2 * low, true, false));
            // the body is only as long as hyper's chunked decoder says, whatever a Content-Length header in front claims
            cases.push((m, t, high, high + 1, true, true));
            let lens: Vec<usize> = if thorough { vec![high - 1, high, high + 1, 2 * high] } else { vec![high, high + 1] };
            for l in lens {
                for ch in if thorough { vec![false, true] } else { vec![false] } {
                    cases.push((m, t, high, l, ch, false));
                }
            }
        }
        if let Ok(path) = std::env::var("VERIF_REPLAY") {
            let doc: Value = serde_json::from_str(&std::fs::read_to_string(path).unwrap()).unwrap();
            let c = &doc["case"];
            cases.retain(|x| json!(x.0) == c["method"] && json!(x.1) == c["target"] && json!(x.3) == c["length"] && json!(x.4) == c["chunked"] && (c["small_content_length_in_front"].is_null() || json!(x.5) == c["small_content_length_in_front"]));
        }
        let c15_start = std::time::Instant::now();
        for (m, t, limit, len, chunked, lying) in cases {
            // a subject that violates the property may answer only after the client's read time-out (120 s per case): once
            // something has been found and two minutes are spent, report that instead of running into the driver's limit
            if res.n_violations() > 0 && c15_start.elapsed() > Duration::from_secs(120) {
                stopped_early = true;
                break;
            }
            sport = if sport >= 39000 { 36000 } else { sport + 1 };
            let body = pattern(len, 3);
            let want_sha = sha::sha256(&body);
            let cs = [65536usize];
            let hdrs: Vec<(&str, &[u8])> = if lying { vec![("Host", b"metadata"), ("Content-Length", b"10")] } else { vec![("Host", b"metadata")] };
            let raw = build_request(m, t, &hdrs, Some(&body), if chunked { Some(&cs) } else { None });
            drop(body);
            let cur = w.hosts.ws.cursor();
            let resp = match w.connect(Some(sport), Some(&rec)) {
                Ok(mut c) => {
                    let _n = c.send_watchful(&raw);
                    let r = c.read_response(false, Duration::from_secs(120));
                    c.close();
                    r.map(|m| m.status())
                }
                Err(e) => Err(format!("connect: {e}")),
            };
            drop(raw);
            // the host may still be receiving a relayed 100 MiB body: wait for quiescence
            let mut last = usize::MAX;
            for _ in 0..600 {
                let b = w.hosts.ws.bytes_since(cur);
                if b == last {
                    break;
                }
                last = b;
                std::thread::sleep(Duration::from_millis(if len > 10_000_000 { 100 } else { 3 }));
            }
            let got = w.hosts.ws.requests_since(cur);
            let bytes = w.hosts.ws.bytes_since(cur);
            evals += 1;
            let case = json!({"method": m, "target": t, "limit": limit, "length": len, "chunked": chunked, "small_content_length_in_front": lying});
            if evals <= 2 || (len > limit && res.samples.len() < 4) {
                res.sample(json!({"case": case, "status": format!("{:?}", resp), "bytes_at_host": bytes}));
            }
            if len > limit {
                nontrivial.insert(case.to_string());
                if bytes != 0 {
                    res.violation(&format!("over-limit-body-relayed:{}", if chunked { "chunked" } else { "content-length" }), &format!("{bytes} bytes of a {len}-byte body (limit {limit}) reached the host"), case.clone());
                }
                match resp {
                    Ok(s) if (400..500).contains(&s) => {}
                    other => res.violation(&format!("over-limit-not-answered-4xx:{}", if chunked { "chunked" } else { "content-length" }), &format!("{:?}", other), case.clone()),
                }
            } else {
                let ok = resp == Ok(200) && got.len() == 1 && got[0].1.body_len == len && (got[0].1.body_sha.map_or_else(|| sha::sha256(&got[0].1.body) == want_sha, |s| s == want_sha));
                if !ok {
                    res.violation(&format!("within-limit-body-not-relayed-intact:{}", if chunked { "chunked" } else { "content-length" }), &format!("status {:?}, {} requests at host, body length at host {:?}", resp, got.len(), got.first().map(|g| g.1.body_len)), case.clone());
                }
            }
        }
        // exempt uploads that fail while their body is being read (the client gives up in the middle of a chunk, a chunk size
        // that is no number), two or three in a row on their own connections; the next good upload is relayed like any other
        let mut after_failed = 0u64;
        if std::env::var("VERIF_REPLAY").is_err() {
            for kind in ["client-aborts-mid-chunk", "malformed-chunk-size"] {
                for k in [2usize, 3] {
                    for _ in 0..k {
                        sport = if sport >= 39000 { 36000 } else { sport + 1 };
                        if let Ok(mut c) = w.connect(Some(sport), Some(&rec)) {
                            let mut raw = b"PUT /vmAgentLog HTTP/1.1\r\nHost: metadata\r\nTransfer-Encoding: chunked\r\n\r\n".to_vec();
                            if kind == "client-aborts-mid-chunk" {
                                raw.extend_from_slice(b"10000\r\n");
                                raw.extend_from_slice(&vec![b'x'; 3000]);
                                let _ = c.send(&raw);
                                std::thread::sleep(Duration::from_millis(30));
                            } else {
                                raw.extend_from_slice(b"5\r\nhello\r\nzz-not-a-size\r\n");
                                let _ = c.send(&raw);
                                let _ = c.read_response(false, Duration::from_secs(5));
                            }
                            c.close();
                        }
                    }
                    std::thread::sleep(Duration::from_millis(50));
                    for (m, t, chunked) in [("PUT", "/vmAgentLog", false), ("PUT", "/vmAgentLog", true), ("POST", "/machine/?comp=telemetrydata", false)] {
                        sport = if sport >= 39000 { 36000 } else { sport + 1 };
                        let body = pattern(low, 9);
                        let cs = [4096usize];
                        let raw = build_request(m, t, &[("Host", b"metadata")], Some(&body), if chunked { Some(&cs) } else { None });
                        let cur = w.hosts.ws.cursor();
                        let resp = w.connect(Some(sport), Some(&rec)).map_err(|e| e.to_string()).and_then(|mut c| {
                            let _ = c.send_watchful(&raw);
                            let r = c.read_response(false, Duration::from_secs(30)).map(|m| m.status());
                            c.close();
                            r
                        });
                        let got = w.hosts.ws.requests_since(cur);
                        evals += 1;
                        after_failed += 1;
                        let case = json!({"family": "upload-after-failed-uploads", "failed_before": k, "failure": kind, "method": m, "target": t, "chunked": chunked, "length": low});
                        if !(resp == Ok(200) && got.len() == 1 && got[0].1.body == body) {
                            res.violation("within-limit-body-not-relayed-intact:after-failed-uploads", &format!("after {k} exempt uploads that failed while being read ({kind}): {m} {t} of {low} bytes got {:?}, {} requests at host", resp, got.len()), case);
                        }
                    }
                }
            }
        }
        // the limit of a request is that of its own method AND url, whatever was asked for just before: the same url with
        // another method, directly one after the other (fresh connections, and one kept-alive connection)
        let mut same_url = 0u64;
        if std::env::var("VERIF_REPLAY").is_err() {
            for (url, exempt_m, other_m) in [("/vmAgentLog", "PUT", "POST"), ("/machine/?comp=telemetrydata", "POST", "PUT"), ("/vmAgentLog", "PUT", "GET")] {
                for exempt_first in [true, false] {
                    for keepalive in [false, true] {
                        let order: [(&str, usize); 2] = if exempt_first { [(exempt_m, 5), (other_m, low + 1)] } else { [(other_m, 5), (exempt_m, low + 1)] };
                        sport = if sport >= 39000 { 36000 } else { sport + 1 };
                        let mut conn = w.connect(Some(sport), Some(&rec)).ok();
                        for (step, (m, len)) in order.iter().enumerate() {
                            if step == 1 && !keepalive {
                                if let Some(mut c) = conn.take() {
                                    c.close();
                                }
                                sport = if sport >= 39000 { 36000 } else { sport + 1 };
                                conn = w.connect(Some(sport), Some(&rec)).ok();
                            }
                            let Some(c) = conn.as_mut() else { break };
                            let body = pattern(*len, 11 + step as u64);
                            let raw = build_request(m, url, &[("Host", b"metadata")], Some(&body), None);
                            let cur = w.hosts.ws.cursor();
                            let _ = c.send_watchful(&raw);
                            let resp = c.read_response(false, Duration::from_secs(30)).map(|m| m.status());
                            std::thread::sleep(Duration::from_millis(5));
                            let bytes = w.hosts.ws.bytes_since(cur);
                            let got = w.hosts.ws.requests_since(cur);
                            evals += 1;
                            same_url += 1;
                            let is_exempt = *m == exempt_m;
                            let case = json!({"family": "same-url-other-method", "url": url, "first": [order[0].0, order[0].1], "second": [order[1].0, order[1].1], "keepalive": keepalive, "step": step});
                            if *len > low && !is_exempt {
                                nontrivial.insert(case.to_string());
                                if bytes != 0 {
                                    res.violation("over-limit-body-relayed:same-url-other-method", &format!("{m} {url} with {len} bytes (limit {low}) directly after {} {url}: {bytes} bytes reached the host", order[0].0), case.clone());
                                }
                                if !matches!(resp, Ok(s) if (400..500).contains(&s)) {
                                    res.violation("over-limit-not-answered-4xx:same-url-other-method", &format!("{:?}", resp), case.clone());
                                }
                            } else if !(resp == Ok(200) && got.len() == 1 && got[0].1.body == body) {
                                res.violation("within-limit-body-not-relayed-intact:same-url-other-method", &format!("{m} {url} with {len} bytes directly after {} {url}: status {:?}, {} requests at host", order[0].0, resp, got.len()), case.clone());
                            }
                        }
                        if let Some(mut c) = conn.take() {
                            c.close();
                        }
                    }
                }
            }
        }
        res.cov("same_url_other_method_requests", same_url);
        // the limits are those of the request's method and url for every caller: uploads by a caller that is not elevated
        // (to the IMDS endpoint; the two root-only endpoints refuse such a caller anyway)
        let mut nonelev = 0u64;
        if std::env::var("VERIF_REPLAY").is_err() {
            let alice_pid = w.spawn_proc("/usr/bin/vt-curl", &["100111"], Some(1001));
            let arec = AuditRec::to(world::IMDS, 1001, alice_pid, false);
            w.hosts.imds.set_responder(responder());
            for (m, t, limit) in [("PUT", "/vmAgentLog", high), ("POST", "/machine/?comp=telemetrydata", high), ("POST", "/t?id=9", low)] {
                for (len, chunked) in [(low, false), (low + 1, false), (2 * low, true)] {
                    sport = if sport >= 39000 { 36000 } else { sport + 1 };
                    let body = pattern(len, 21);
                    let cs = [65536usize];
                    let raw = build_request(m, t, &[("Host", b"metadata")], Some(&body), if chunked { Some(&cs) } else { None });
                    let cur = w.hosts.imds.cursor();
                    let resp = w.connect(Some(sport), Some(&arec)).map_err(|e| e.to_string()).and_then(|mut c| {
                        let _ = c.send_watchful(&raw);
                        let r = c.read_response(false, Duration::from_secs(30)).map(|m| m.status());
                        c.close();
                        r
                    });
                    std::thread::sleep(Duration::from_millis(5));
                    let got = w.hosts.imds.requests_since(cur);
                    let bytes = w.hosts.imds.bytes_since(cur);
                    evals += 1;
                    nonelev += 1;
                    let case = json!({"family": "caller-not-elevated", "method": m, "target": t, "limit": limit, "length": len, "chunked": chunked});
                    if len > limit {
                        nontrivial.insert(case.to_string());
                        if bytes != 0 || !matches!(resp, Ok(s) if (400..500).contains(&s)) {
                            res.violation("over-limit-body-relayed:caller-not-elevated", &format!("{bytes} bytes of a {len}-byte body (limit {limit}) reached the host; client got {:?}", resp), case);
                        }
                    } else if !(resp == Ok(200) && got.len() == 1 && got[0].1.body == body) {
                        res.violation("within-limit-body-not-relayed-intact:caller-not-elevated", &format!("{m} {t} with {len} bytes (limit {limit}) by a caller that is not elevated: status {:?}, {} requests at host", resp, got.len()), case);
                    }
                }
            }
        }
        res.cov("uploads_by_a_caller_not_elevated", nonelev);
        res.cov("uploads_after_failed_uploads", after_failed);
        // keep-alive sequences: every ordered pair of request kinds on one connection; each request
        // is judged by the limit of its own method and URL
        if std::env::var("VERIF_REPLAY").is_err() {
            // (method, target, limit, body length, chunked, chunk size); with 1 KiB chunks the chunk that crosses the limit is
            // the last, one-byte chunk and the whole request is on the wire when the refusal comes (the connection survives)
            let kinds: Vec<(&'static str, &'static str, usize, usize, bool, usize)> = vec![
                ("PUT", "/vmAgentLog", high, 5, false, 0),
                ("POST", "/t?id=9", low, 5, false, 0),
                ("POST", "/t?id=9", low, low + 1, false, 0),
                ("POST", "/t?id=9", low, low + 1, true, 65536),
                ("PUT", "/vmAgentLog", high, low + 1, false, 0),
                ("POST", "/machine/?comp=telemetrydata", high, 2 * low, true, 65536),
                ("POST", "/t?id=9", low, low + 1, true, 1024),
                ("POST", "/t?id=9", low, 5, true, 5),
            ];
            for a in &kinds {
                if stopped_early {
                    break;
                }
                for b in &kinds {
                    sport = if sport >= 39000 { 36000 } else { sport + 1 };
                    let mut c = w.connect(Some(sport), Some(&rec)).unwrap();
                    let mut refused_before = false;
                    for (step, k) in [a, b].iter().enumerate() {
                        let (m, t, limit, len, chunked, chunk) = **k;
                        let body = pattern(len, 5 + step as u64);
                        let cs = [chunk.max(1)];
                        let raw = build_request(m, t, &[("Host", b"metadata")], Some(&body), if chunked { Some(&cs) } else { None });
                        let cur = w.hosts.ws.cursor();
                        let _ = c.send_watchful(&raw);
                        let resp = c.read_response(false, Duration::from_secs(30)).map(|m| m.status());
                        std::thread::sleep(Duration::from_millis(5));
                        let bytes = w.hosts.ws.bytes_since(cur);
                        let got = w.hosts.ws.requests_since(cur);
                        evals += 1;
                        let case = json!({"family": "keepalive-pair", "first": [a.0, a.1, a.3, a.4, a.5], "second": [b.0, b.1, b.3, b.4, b.5], "step": step});
                        if len > limit {
                            nontrivial.insert(case.to_string());
                            if bytes != 0 {
                                res.violation("over-limit-body-relayed:keepalive", &format!("request {} on a kept-alive connection: {bytes} bytes of a {len}-byte body (limit {limit}) reached the host", step + 1), case.clone());
                            }
                            if refused_before && resp.is_err() {
                                break; // the server closed the connection after refusing the first body: allowed
                            }
                            if !matches!(resp, Ok(s) if (400..500).contains(&s)) {
                                res.violation("over-limit-not-answered-4xx:keepalive", &format!("{:?}", resp), case.clone());
                            }
                            // the server may close the connection after refusing a body, or keep it: when it keeps it, the
                            // next request is judged like any other (nothing of the refused body may ride along)
                            refused_before = true;
                        } else if refused_before && resp.is_err() && got.is_empty() {
                            break; // connection closed after the refusal: allowed
                        } else if !(resp == Ok(200) && got.len() == 1 && got[0].1.body == body) {
                            res.violation(if refused_before { "within-limit-body-not-relayed-intact:keepalive:after-a-refused-body" } else { "within-limit-body-not-relayed-intact:keepalive" }, &format!("request {}{}: status {:?}, {} requests at host, body at host {:?} bytes (sent {})", step + 1, if refused_before { " (the request before it on this connection was refused for its size)" } else { "" }, resp, got.len(), got.first().map(|g| g.1.body.len()), body.len()), case.clone());
                            break;
                        }
                    }
                    c.close();
                }
            }
        }
        res.cov("rule", "body lengths limit-1, limit, limit+1, 2*limit for limit = 102400 on 10 non-exempt (method, URL) pairs incl. near misses of the exempt URLs and of their method tokens (put, Put, post), and for limit = 104857600 on the exempt uploads (thorough: both uploads and their upper-case variants, both framings; quick: PUT /vmAgentLog at limit and limit+1 with content-length), each as content-length and as chunked; plus uploads around the low limit by a caller that is not elevated (exempt and non-exempt urls, IMDS endpoint); plus the same url asked with the exempt and with another method directly one after the other (both orders, fresh and kept-alive connections); plus good exempt uploads after 2 / 3 exempt uploads that failed while being read (client gone mid-chunk, malformed chunk size); plus every ordered pair of 8 request kinds (exempt/non-exempt, small/over the low limit, both framings, 64 KiB and 1 KiB chunks) on one keep-alive connection, the second request being judged also after a refused first one when the server keeps the connection; relayed bodies compared by length and SHA-256; non-trivial = over the limit".to_string());
    }

    for p in world::take_panics() {
        res.violation("panic", &p, json!({"note": "panic during exploration"}));
    }
    res.cov("evaluations", evals);
    res.cov("distinct_nontrivial", nontrivial.len() as u64);
    res.cov("exhaustive", !stopped_early);
    if stopped_early {
        res.cov("stopped_early_after_violations", true);
    }
    std::process::exit(res.finish());
}
