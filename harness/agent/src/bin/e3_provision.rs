//! C16: provisioning status is truthful under any arrival order.
//! Deterministic scheduler over the real provision functions: the updater threads (redirector,
//! listener, key keeper) are harness-owned futures polled one actor message at a time on a
//! current-thread runtime; DFS over "who steps next" with iterative preemption bounding. After
//! every step, while all updaters are parked, the public getters and the real /provision HTTP
//! handler are queried and compared with a reference built from the outside.

use gpa_harness::provision::{self, ProvisionFlags};
use gpa_harness::proxy::proxy_server::ProxyServer;
use gpa_harness::shared_state::SharedState;
use proxy_agent_shared::misc_helpers;
use serde_json::{json, Value};
use std::collections::BTreeMap;
use std::future::Future;
use std::pin::Pin;
use std::task::Poll;
use std::time::Duration;
use tokio::io::{AsyncReadExt, AsyncWriteExt};
use vcommon::result::{is_thorough, EngineResult};

#[derive(Clone, Copy, Debug, PartialEq, Eq)]
enum Op {
    RedirectorReady,
    ListenerStarted,
    KeyLatched,
    Reset,
    Timeup,
    /// a status query that runs *concurrently* with the updaters: the getter the /provision handler uses, scheduled like
    /// any other thread (one actor message per step)
    Query,
}

static QUERY_OUT: std::sync::Mutex<Vec<String>> = std::sync::Mutex::new(Vec::new());

type Fut = Pin<Box<dyn Future<Output = ()>>>;

fn make(op: Op, s: &SharedState) -> Fut {
    let (ct, kk, tel, prov, st) = (s.get_cancellation_token(), s.get_key_keeper_shared_state(), s.get_telemetry_shared_state(), s.get_provision_shared_state(), s.get_agent_status_shared_state());
    match op {
        Op::RedirectorReady => Box::pin(provision::redirector_ready(ct, kk, tel, prov, st)),
        Op::ListenerStarted => Box::pin(provision::listener_started(ct, kk, tel, prov, st)),
        Op::KeyLatched => Box::pin(provision::key_latched(ct, kk, tel, prov, st)),
        Op::Reset => Box::pin(provision::key_latch_ready_state_reset(prov)),
        Op::Timeup => Box::pin(provision::provision_timeup(None, prov, st)),
        Op::Query => Box::pin(async move {
            let r = provision::get_provision_state_internal(prov, st, kk).await;
            QUERY_OUT.lock().unwrap().push(r.error_message);
        }),
    }
}

struct Thread {
    name: &'static str,
    ops: Vec<Op>,
    cur: usize,
    fut: Option<Fut>,
    step_in_op: usize,
}

async fn drain() {
    for _ in 0..6 {
        tokio::task::yield_now().await;
    }
}

async fn http_query(tick: Option<i128>) -> Result<(bool, String), String> {
    http_query_on(3080, tick).await
}

async fn http_query_on(port: u16, tick: Option<i128>) -> Result<(bool, String), String> {
    let mut s = tokio::net::TcpStream::connect(("127.0.0.1", port)).await.map_err(|e| e.to_string())?;
    let mut req = "GET /provision HTTP/1.1\r\nHost: localhost\r\nMetadata: true\r\nConnection: close\r\n".to_string();
    if let Some(t) = tick {
        req.push_str(&format!("x-ms-azure-time_tick: {t}\r\n"));
    }
    req.push_str("\r\n");
    s.write_all(req.as_bytes()).await.map_err(|e| e.to_string())?;
    let mut buf = Vec::new();
    let mut tmp = [0u8; 4096];
    loop {
        match tokio::time::timeout(Duration::from_secs(5), s.read(&mut tmp)).await {
            Ok(Ok(0)) => break,
            Ok(Ok(n)) => buf.extend_from_slice(&tmp[..n]),
            Ok(Err(e)) => return Err(e.to_string()),
            Err(_) => return Err("timeout".into()),
        }
        if let vcommon::rawhttp::Parse::Complete(..) = vcommon::rawhttp::parse(&buf, true, false, false) {
            break;
        }
    }
    match vcommon::rawhttp::parse(&buf, true, false, true) {
        vcommon::rawhttp::Parse::Complete(m, _) => {
            let v: Value = serde_json::from_slice(&m.body).map_err(|e| format!("bad json: {e}"))?;
            Ok((v["finished"].as_bool().unwrap_or(false), v["errorMessage"].as_str().unwrap_or("").to_string()))
        }
        _ => Err(format!("unparsable response ({} bytes)", buf.len())),
    }
}

fn names_in(msg: &str) -> [bool; 3] {
    [msg.contains("ebpfProgramStatus - "), msg.contains("keyLatchStatus - "), msg.contains("proxyListenerStatus - ")]
}

struct Point {
    enabled: Vec<usize>,
    chosen: usize, // index into enabled
    running_still_enabled: bool,
}

struct RunOut {
    points: Vec<Point>,
    problems: Vec<(String, String)>,
    steps: u64,
    final_state: String,
    stamps: u64,
}

struct Inotify {
    fd: i32,
}
impl Inotify {
    fn new(dir: &str) -> Inotify {
        unsafe {
            let fd = libc::inotify_init1(libc::IN_NONBLOCK | libc::IN_CLOEXEC);
            let c = std::ffi::CString::new(dir).unwrap();
            libc::inotify_add_watch(fd, c.as_ptr(), libc::IN_MODIFY | libc::IN_CLOSE_WRITE | libc::IN_CREATE | libc::IN_MOVED_TO | libc::IN_MOVED_FROM | libc::IN_DELETE);
            Inotify { fd }
        }
    }
    fn events(&self) -> Vec<(u32, String)> {
        let mut out = Vec::new();
        let mut buf = [0u8; 16384];
        loop {
            let n = unsafe { libc::read(self.fd, buf.as_mut_ptr() as *mut _, buf.len()) };
            if n <= 0 {
                break;
            }
            let mut p = 0usize;
            while p + 16 <= n as usize {
                let mask = u32::from_ne_bytes(buf[p + 4..p + 8].try_into().unwrap());
                let len = u32::from_ne_bytes(buf[p + 12..p + 16].try_into().unwrap()) as usize;
                let name = String::from_utf8_lossy(&buf[p + 16..p + 16 + len]).trim_end_matches('\0').to_string();
                out.push((mask, name));
                p += 16 + len;
            }
        }
        out
    }
}
impl Drop for Inotify {
    fn drop(&mut self) {
        unsafe { libc::close(self.fd) };
    }
}

#[allow(clippy::too_many_arguments)]
fn run(kvariant: &[Op], init_flags: u8, prefix: &[usize], http_every_step: bool, keys_dir: &str) -> RunOut {
    // bit 7 of the configuration's flags: the secure channel is already latched (the key keeper reported a state
    // other than disabled/unknown) while this instance's subsystems are still reporting
    let channel_latched = init_flags & 0x80 != 0;
    // bit 6: an earlier run died between writing status.tag.tmp and renaming it: a long stale temporary file is there
    let stale_tmp = init_flags & 0x40 != 0;
    // bit 5: a fourth thread makes two status queries concurrently with the updaters
    let with_query = init_flags & 0x20 != 0;
    let init_flags = init_flags & 7;
    let rt = tokio::runtime::Builder::new_current_thread().enable_all().build().unwrap();
    let _ = std::fs::remove_file(format!("{keys_dir}/status.tag"));
    let _ = std::fs::remove_file(format!("{keys_dir}/status.tag.tmp"));
    let _ = std::fs::remove_file(format!("{keys_dir}/provisioned.tag"));
    if stale_tmp {
        let _ = std::fs::write(format!("{keys_dir}/status.tag.tmp"), format!("STALE-TMP-MARKER keyLatchStatus - a message left by a run that died before its rename {}\r\n", "x".repeat(300)));
    }
    let ino = Inotify::new(keys_dir);
    let out = rt.block_on(async {
        let shared = SharedState::start_all();
        let prov = shared.get_provision_shared_state();
        let server = ProxyServer::new(3080, &shared);
        tokio::spawn(async move { server.start().await });
        // a second listener of the same server whose key keeper handle has no actor behind it (guarded hook): the secure
        // channel state cannot be read there, which must not count as "latched"
        if http_every_step {
            let shared2 = shared.verif_with_key_keeper(gpa_harness::shared_state::key_keeper_wrapper::KeyKeeperSharedState::verif_without_actor());
            let server2 = ProxyServer::new(3081, &shared2);
            tokio::spawn(async move { server2.start().await });
        }
        // wait for the listener, then undo its own readiness report so that every execution starts from "nothing reported"
        let mut up = false;
        for _ in 0..2000 {
            drain().await;
            if tokio::net::TcpStream::connect("127.0.0.1:3080").await.is_ok() {
                up = true;
                break;
            }
            tokio::time::sleep(Duration::from_millis(1)).await;
        }
        if !up {
            vcommon::result::machinery("listener did not start");
        }
        drain().await;
        let _ = prov.reset_one_state(ProvisionFlags::ALL_READY).await;
        let _ = prov.set_provision_finished(false).await;
        if channel_latched {
            let _ = shared.get_key_keeper_shared_state().update_current_secure_channel_state("wireserver".to_string()).await;
        }
        // the modules' status messages are as long as they get (a verifier log, a chain of errors; the store keeps 1 KiB of
        // each): the error text still names every subsystem that is not ready
        {
            use gpa_harness::shared_state::agent_status_wrapper::AgentStatusModule;
            let st = shared.get_agent_status_shared_state();
            let long = |tag: &str| format!("{tag}: {}", "failed to load program: verifier rejected instruction 17 of section kprobe; ".repeat(16));
            let _ = st.set_module_status_message(long("redirector"), AgentStatusModule::Redirector).await;
            let _ = st.set_module_status_message(long("key keeper"), AgentStatusModule::KeyKeeper).await;
        }
        // non-initial start states
        if init_flags != 0 {
            let _ = prov.update_one_state(ProvisionFlags::from_bits_truncate(init_flags)).await;
            if init_flags == 7 {
                let _ = prov.set_provision_finished(true).await;
            }
        }
        let mut threads = vec![
            Thread { name: "R", ops: vec![Op::RedirectorReady], cur: 0, fut: None, step_in_op: 0 },
            Thread { name: "L", ops: vec![Op::ListenerStarted], cur: 0, fut: None, step_in_op: 0 },
            Thread { name: "K", ops: kvariant.to_vec(), cur: 0, fut: None, step_in_op: 0 },
        ];
        if with_query {
            // (three threads: the listener does not report in these configurations)
            threads.remove(1);
            threads.push(Thread { name: "Q", ops: vec![Op::Query], cur: 0, fut: None, step_in_op: 0 });
        }
        QUERY_OUT.lock().unwrap().clear();
        // readiness sets in force at each step of the query in flight
        let mut query_window: Vec<[bool; 3]> = Vec::new();
        // reference, built from the outside
        let mut model: [bool; 3] = [init_flags & 1 != 0, init_flags & 2 != 0, init_flags & 4 != 0]; // R, K, L
        let mut stamp_exists = init_flags == 7;
        let mut deadline_passed = false;
        let mut justified_since_boundary: Vec<(i128, bool)> = Vec::new(); // (boundary tick, a justified stamp happened after it and is still in force)
        let mut last_tick: i128 = prov.get_provision_finished().await.unwrap_or(0);
        let mut problems: Vec<(String, String)> = Vec::new();
        let mut points: Vec<Point> = Vec::new();
        let mut running: Option<usize> = None;
        let mut steps = 0u64;
        let mut stamps = 0u64;
        let mut op_all_ready_at_first_step: [bool; 4] = [false; 4];
        loop {
            let mut enabled: Vec<usize> = Vec::new();
            if let Some(r) = running {
                if threads[r].cur < threads[r].ops.len() {
                    enabled.push(r);
                }
            }
            for i in 0..threads.len() {
                if threads[i].cur < threads[i].ops.len() && !enabled.contains(&i) {
                    enabled.push(i);
                }
            }
            if enabled.is_empty() {
                break;
            }
            let running_still_enabled = running.map_or(false, |r| enabled.first() == Some(&r));
            let pi = points.len();
            let chosen = if pi < prefix.len() { prefix[pi] } else { 0 };
            if chosen >= enabled.len() {
                vcommon::result::machinery(&format!("replay divergence at point {pi}"));
            }
            let ti = enabled[chosen];
            points.push(Point { enabled: enabled.clone(), chosen, running_still_enabled });
            running = Some(ti);
            // boundary before the step
            let boundary = misc_helpers::get_date_time_unix_nano();
            let t0 = std::time::Instant::now();
            while t0.elapsed() < Duration::from_micros(2) {}
            // ---- one step
            let op = threads[ti].ops[threads[ti].cur];
            if threads[ti].fut.is_none() {
                threads[ti].fut = Some(make(op, &shared));
                threads[ti].step_in_op = 0;
            }
            let first_step = threads[ti].step_in_op == 0;
            if op == Op::Query {
                if first_step {
                    query_window.clear();
                }
                query_window.push(model);
            }
            let done = {
                let f = threads[ti].fut.as_mut().unwrap();
                std::future::poll_fn(|cx| Poll::Ready(f.as_mut().poll(cx).is_ready())).await
            };
            threads[ti].step_in_op += 1;
            steps += 1;
            drain().await;
            if done {
                threads[ti].fut = None;
                threads[ti].cur += 1;
            }
            // ---- reference update
            if op == Op::Query && done {
                // its error text names the subsystems that were not ready at SOME instant while it ran (one snapshot)
                if let Some(msg) = QUERY_OUT.lock().unwrap().pop() {
                    let named = names_in(&msg);
                    if !query_window.iter().any(|m| named == [!m[0], !m[1], !m[2]]) {
                        problems.push(("error-text-names-a-set-that-never-was:concurrent-query".into(), format!("a status query that ran while the updaters ran names (ebpf, keyLatch, listener) = {:?} as not ready; the readiness sets in force while it ran were {:?} (R, K, L): it is the complement of none of them", named, query_window)));
                    }
                }
            }
            if first_step {
                match op {
                    Op::Query => {}
                    Op::RedirectorReady => model[0] = true,
                    Op::KeyLatched => model[1] = true,
                    Op::ListenerStarted => model[2] = true,
                    Op::Reset => model[1] = false,
                    Op::Timeup => deadline_passed = true,
                }
                op_all_ready_at_first_step[ti] = model.iter().all(|b| *b);
            }
            // ---- observations (all updaters parked)
            let tick = prov.get_provision_finished().await.unwrap_or(-1);
            let flags = prov.get_state().await.map(|f| f.bits()).unwrap_or(255);
            let internal = provision::get_provision_state_internal(shared.get_provision_shared_state(), shared.get_agent_status_shared_state(), shared.get_key_keeper_shared_state()).await;
            let what = format!("thread {} op {:?} step {}", threads[ti].name, op, threads[ti].step_in_op);
            justified_since_boundary.push((boundary, false));
            if tick != last_tick {
                if tick > 0 {
                    stamps += 1;
                    let justified = match op {
                        Op::Timeup => true,
                        Op::Reset | Op::Query => false,
                        _ => op_all_ready_at_first_step[ti],
                    };
                    if !justified {
                        problems.push(("premature-finished-stamp".into(), format!("{what}: provisioning was stamped finished although {:?} (R, K, L) had not all reported and no deadline handler was running", model)));
                    }
                    stamp_exists = true;
                    for b in justified_since_boundary.iter_mut() {
                        b.1 = true;
                    }
                } else {
                    stamp_exists = false;
                    for b in justified_since_boundary.iter_mut() {
                        b.1 = false;
                    }
                }
                last_tick = tick;
            }
            // flags must equal the reference readiness set (exposes lost updates / skipped resets)
            let want_flags = (model[0] as u8) | ((model[1] as u8) << 1) | ((model[2] as u8) << 2);
            if flags != want_flags {
                problems.push(("readiness-set-differs".into(), format!("{what}: readiness flags are {flags:03b} but the subsystems that have reported are {want_flags:03b} (bit0 redirector, bit1 key latch, bit2 listener)")));
            }
            let named = names_in(&internal.error_message);
            let want_named = [!model[0], !model[1], !model[2]];
            if named != want_named {
                problems.push(("error-text-names-wrong-subsystems".into(), format!("{what}: error text names (ebpf, keyLatch, listener) = {:?}, subsystems not ready = {:?}", named, want_named)));
            }
            if http_every_step {
                let latched = internal.is_secure_channel_latched();
                // absent tick, far future, the boundary before this step, an early boundary
                let mut queries: Vec<(&str, Option<i128>)> = vec![("absent", None), ("far-future", Some(i128::MAX / 2)), ("zero", Some(0)), ("negative", Some(-5))];
                queries.push(("boundary-before-this-step", Some(boundary)));
                if let Some(first) = justified_since_boundary.first() {
                    queries.push(("first-boundary", Some(first.0)));
                }
                // ticks right at the finished stamp: the stamp itself and one nanosecond before it are covered by it, one
                // nanosecond and 999 nanoseconds after it are not (same microsecond, same millisecond)
                let stamp_now = prov.get_provision_finished().await.unwrap_or(0);
                if stamp_now > 0 {
                    queries.push(("at-the-stamp", Some(stamp_now)));
                    queries.push(("stamp-minus-1ns", Some(stamp_now - 1)));
                    queries.push(("stamp-plus-1ns", Some(stamp_now + 1)));
                    queries.push(("stamp-plus-999ns", Some(stamp_now + 999)));
                    queries.push(("stamp-plus-999999ns", Some(stamp_now + 999_999)));
                }
                if !latched || true {
                    // (the channel state is unreadable on the second listener whatever it is on the first)
                    match http_query_on(3081, Some(i128::MAX / 2)).await {
                        Err(e) => {
                            if steps > 3 {
                                problems.push(("provision-query-failed:listener-without-key-keeper".into(), format!("{what}: {e}")));
                            }
                        }
                        Ok((finished, _)) => {
                            if finished {
                                problems.push(("finished-reported-too-early:channel-state-unreadable".into(), format!("{what}: /provision on a listener whose key keeper state cannot be read (tick far in the future) reports finished=true; readiness {:?}, deadline handler ran: {deadline_passed}", model)));
                            }
                        }
                    }
                }
                for (label, q) in queries {
                    match http_query(q).await {
                        Err(e) => problems.push(("provision-query-failed".into(), format!("{what}: query {label}: {e}"))),
                        Ok((finished, msg)) => {
                            let allowed = latched
                                || match label {
                                    "far-future" => false,
                                    "absent" | "zero" | "negative" => stamp_exists,
                                    "boundary-before-this-step" => justified_since_boundary.last().map_or(false, |b| b.1),
                                    "at-the-stamp" | "stamp-minus-1ns" => stamp_exists,
                                    "stamp-plus-1ns" | "stamp-plus-999ns" | "stamp-plus-999999ns" => false,
                                    _ => justified_since_boundary.first().map_or(false, |b| b.1) || (stamp_exists && false),
                                };
                            if finished && !allowed {
                                problems.push((format!("finished-reported-too-early:query-tick-{label}"), format!("{what}: /provision (tick {label}) reports finished=true; readiness {:?}, deadline handler ran: {deadline_passed}, finished stamp in force: {stamp_exists}", model)));
                            }
                            if names_in(&msg) != want_named {
                                problems.push(("error-text-names-wrong-subsystems:http".into(), format!("{what}: /provision errorMessage names {:?}, not ready {:?}", names_in(&msg), want_named)));
                            }
                        }
                    }
                }
            }
            // the tag file is never half-written
            if let Ok(content) = std::fs::read_to_string(format!("{keys_dir}/status.tag")) {
                if !content.is_empty() && !content.ends_with("\r\n") {
                    problems.push(("status-tag-half-written".into(), format!("{what}: status.tag content {:?}", content)));
                }
                if content.contains("STALE-TMP-MARKER") || content.contains("xxxxxxxx") {
                    problems.push(("status-tag-carries-stale-bytes".into(), format!("{what}: status.tag contains bytes of a temporary file left by an earlier run: {:?}", content.chars().take(120).collect::<String>())));
                }
            }
        }
        drain().await;
        // the real client of the query (`--status --wait`): created now, i.e. it names an instant after everything that
        // happened in this execution; it polls every 100 ms until its wait is over (the wait is measured against the
        // process's uptime, so it is given uptime + 350 ms): it may report finished only if the channel is latched
        if http_every_step && prefix.is_empty() {
            let latched = provision::get_provision_state_internal(shared.get_provision_shared_state(), shared.get_agent_status_shared_state(), shared.get_key_keeper_shared_state()).await.is_secure_channel_latched();
            let wait = Duration::from_millis(gpa_harness::common::helpers::get_elapsed_time_in_millisec() as u64 + 350);
            let q = provision::provision_query::ProvisionQuery::new(3080, Some(wait));
            let st = q.get_provision_status_wait().await;
            if st.finished && !latched {
                problems.push(("finished-reported-too-early:waiting-client-query".into(), format!("a waiting status query (ProvisionQuery, wait 350 ms) created after the last event of the execution reports finished=true although nothing finished at or after the instant it names and the channel is not latched; readiness {:?}, stamp in force: {stamp_exists}", model)));
            }
        }
        let fin = format!("flags={:?} tick>0={} model={:?}", prov.get_state().await.map(|f| f.bits()), last_tick > 0, model);
        RunOut { points, problems, steps, final_state: fin, stamps }
    });
    let mut out = out;
    for (mask, name) in ino.events() {
        if name == "status.tag" && mask & (libc::IN_DELETE | libc::IN_MOVED_FROM) != 0 {
            out.problems.push(("status-tag-removed".into(), format!("the published status.tag was removed / moved away (inotify mask {:#x}) instead of being replaced by one rename: for a moment provisioning looks unfinished again", mask)));
            break;
        }
        if name == "status.tag" && mask & (libc::IN_MODIFY | libc::IN_CLOSE_WRITE | libc::IN_CREATE) != 0 {
            out.problems.push(("status-tag-written-in-place".into(), format!("status.tag was created/modified in place (inotify mask {:#x}) instead of being replaced by a rename", mask)));
            break;
        }
    }
    rt.shutdown_timeout(Duration::from_millis(200));
    out
}

fn main() {
    proxy_agent_shared::logger::logger_manager::set_logger_level(proxy_agent_shared::logger::LoggerLevel::Error);
    let thorough = is_thorough();
    let mut res = EngineResult::new("C16");
    let keys_dir = "/var/lib/azure-proxy-agent/keys";
    std::fs::create_dir_all(keys_dir).unwrap_or_else(|e| vcommon::result::machinery(&format!("cannot create {keys_dir}: {e} (not inside bin/ns?)")));
    let kvariants: Vec<Vec<Op>> = vec![
        vec![Op::KeyLatched],
        vec![Op::Reset, Op::KeyLatched],
        vec![Op::Timeup, Op::KeyLatched],
        vec![Op::KeyLatched, Op::Reset, Op::KeyLatched],
        vec![Op::KeyLatched, Op::Timeup],
        vec![Op::KeyLatched, Op::Reset],
    ];
    let bound = if thorough { 3 } else { 2 };
    let mut configs: Vec<(usize, u8)> = Vec::new();
    for k in 0..kvariants.len() {
        configs.push((k, 0));
    }
    for init in if thorough { vec![1u8, 2, 3, 4, 5, 6, 7] } else { vec![2u8, 5, 7] } {
        configs.push((1, init));
        configs.push((5, init));
    }
    for k in [0usize, 1, 3, 5] {
        configs.push((k, 0x80)); // nothing reported yet, secure channel already latched
    }
    for k in [0usize, 2, 4] {
        configs.push((k, 0x40)); // a stale status.tag.tmp of an earlier run is in the way
    }
    for (k, init) in if thorough { vec![(5usize, 0u8), (3, 0), (1, 4), (5, 1)] } else { vec![(5usize, 0u8), (1, 4)] } {
        configs.push((k, 0x20 | init)); // two status queries run concurrently with the updaters
    }
    if let Ok(path) = std::env::var("VERIF_REPLAY") {
        let doc: Value = serde_json::from_str(&std::fs::read_to_string(path).unwrap()).unwrap();
        let c = &doc["case"];
        let k = c["k_variant"].as_u64().unwrap() as usize;
        let init = c["initial_flags"].as_u64().unwrap() as u8;
        let prefix: Vec<usize> = c["choices"].as_array().unwrap().iter().map(|x| x.as_u64().unwrap() as usize).collect();
        let o = run(&kvariants[k], init, &prefix, true, keys_dir);
        for (sig, what) in o.problems {
            res.violation(&sig, &what, c.clone());
        }
        res.cov("states", 1);
        res.cov("transitions", o.steps);
        res.cov("traces_validated_against_impl", 1);
        res.sample(c.clone());
        std::process::exit(res.finish());
    }
    // coordinator: one worker per configuration, each in its own nested namespaces (own port 3080, own tag directory)
    let me = vcommon::result::worker();
    if me.is_none() {
        let n = configs.len().min(16);
        vcommon::result::run_workers(&mut res, n, "mount -t tmpfs tmpfs /var/lib/azure-proxy-agent;");
        let capped = res.coverage.get("wall_cap_hit").and_then(|v| v.as_bool()).unwrap_or(false);
        res.cov("exhaustive", !capped);
        res.cov("preemption_bound", bound as u64);
        res.cov("workers", n as u64);
        res.cov("rule", format!("threads R=[redirector_ready], L=[listener_started], K in 6 op sequences over key_latched / key_latch_ready_state_reset / provision_timeup, from the empty readiness set and (K variants [reset, latched] and [latched, reset]) from {} non-initial readiness sets, and 4 K variants with the secure channel already latched (initial_flags bit 7), 3 with a stale status.tag.tmp of an earlier run in the directory (bit 6), 2 (4) with a fourth thread Q that makes a status query concurrently with the updaters (bit 5: the error text of a query must be the complement of a readiness set in force at one of its own steps); every schedule with <= {bound} preemptions, one actor message per step; after every step: provision flags, finished tick and error text via the public getters; for schedules with <= 1 preemption also six real /provision HTTP queries (tick absent, 0, negative, far future, boundary before the step, first boundary, and the stamp itself -1 / +1 / +999 / +999999 ns); on a second listener whose key keeper handle has no actor (channel state unreadable) a far-future tick is never answered finished; after the default schedule of each configuration the real waiting client (ProvisionQuery, 4 polls) created after the last event; inotify on the tag directory; the status messages of redirector and key keeper are about 1 KiB long in every execution; plus 5 rewrites of an existing status tag under a file-size limit of 0 / 16 / 64 / 300 / 100000 bytes (the write fails part-way): the tag is wholly the previous or wholly the new text", if thorough { 7 } else { 3 }));
        std::process::exit(res.finish());
    }
    let (wi, wn) = me.unwrap();
    let configs: Vec<(usize, u8)> = configs.into_iter().enumerate().filter(|(i, _)| i % wn == wi).map(|(_, c)| c).collect();
    // determinism gate
    if wi == 0 {
        let a = run(&kvariants[3], 0, &[], true, keys_dir);
        let b = run(&kvariants[3], 0, &[], true, keys_dir);
        let f = |o: &RunOut| format!("{:?}{}{}{:?}", o.points.iter().map(|p| (p.enabled.clone(), p.chosen)).collect::<Vec<_>>(), o.steps, o.final_state, o.problems);
        if f(&a) != f(&b) {
            vcommon::result::machinery(&format!("determinism gate failed:\n{}\n{}", f(&a), f(&b)));
        }
    }
    // the write of the status tag fails part-way (file-size limit as a stand-in for a full disk / quota): the tag on disk is
    // wholly the previous text or wholly the new one
    let mut write_fault_cases = 0u64;
    let mut write_fault_problems: Vec<(String, String, Value)> = Vec::new();
    if wi == 0 && std::env::var("VERIF_REPLAY").is_err() {
        use gpa_harness::shared_state::agent_status_wrapper::AgentStatusModule;
        unsafe { libc::signal(libc::SIGXFSZ, libc::SIG_IGN) };
        for limit in [0u64, 16, 64, 300, 100000] {
            let _ = std::fs::remove_file(format!("{keys_dir}/status.tag"));
            let _ = std::fs::remove_file(format!("{keys_dir}/status.tag.tmp"));
            let rt = tokio::runtime::Builder::new_current_thread().enable_all().build().unwrap();
            let (old, mid, new) = rt.block_on(async {
                let shared = SharedState::start_all();
                let (prov, st) = (shared.get_provision_shared_state(), shared.get_agent_status_shared_state());
                let _ = st.set_module_status_message(format!("first round: {}", "A".repeat(120)), AgentStatusModule::Redirector).await;
                let _ = st.set_module_status_message(format!("first round: {}", "B".repeat(120)), AgentStatusModule::KeyKeeper).await;
                provision::provision_timeup(None, prov.clone(), st.clone()).await;
                let old = std::fs::read(format!("{keys_dir}/status.tag")).ok();
                provision::key_latch_ready_state_reset(prov.clone()).await;
                let _ = st.set_module_status_message(format!("second round: {}", "C".repeat(120)), AgentStatusModule::Redirector).await;
                let _ = st.set_module_status_message(format!("second round: {}", "D".repeat(120)), AgentStatusModule::KeyKeeper).await;
                let mut lim: libc::rlimit = unsafe { std::mem::zeroed() };
                unsafe { libc::getrlimit(libc::RLIMIT_FSIZE, &mut lim) };
                let saved = lim.rlim_cur;
                lim.rlim_cur = limit as libc::rlim_t;
                // (stdout / stderr of the engine are regular files too: parked on /dev/null while the limit is in force)
                let (so, se, dn) = unsafe { (libc::dup(1), libc::dup(2), libc::open(b"/dev/null\0".as_ptr() as *const libc::c_char, libc::O_WRONLY)) };
                unsafe {
                    libc::dup2(dn, 1);
                    libc::dup2(dn, 2);
                    libc::setrlimit(libc::RLIMIT_FSIZE, &lim);
                }
                provision::provision_timeup(None, prov.clone(), st.clone()).await;
                lim.rlim_cur = saved;
                unsafe {
                    libc::setrlimit(libc::RLIMIT_FSIZE, &lim);
                    libc::dup2(so, 1);
                    libc::dup2(se, 2);
                    libc::close(so);
                    libc::close(se);
                    libc::close(dn);
                }
                let mid = std::fs::read(format!("{keys_dir}/status.tag")).ok();
                provision::provision_timeup(None, prov.clone(), st.clone()).await;
                let new = std::fs::read(format!("{keys_dir}/status.tag")).ok();
                shared.cancel_cancellation_token();
                (old, mid, new)
            });
            write_fault_cases += 1;
            let show = |v: &Option<Vec<u8>>| v.as_ref().map(|b| format!("{} bytes {:?}", b.len(), String::from_utf8_lossy(&b[..b.len().min(40)]))).unwrap_or("absent".into());
            if old.is_none() || old == new {
                vcommon::result::machinery(&format!("write-fault family: the two rounds did not produce two different status tags ({} / {})", show(&old), show(&new)));
            }
            if mid != old && mid != new {
                write_fault_problems.push(("status-tag-half-written:write-failed-part-way".into(), format!("files may grow to {limit} bytes while the tag is rewritten: before {}, afterwards {}, a write without fault gives {}", show(&old), show(&mid), show(&new)), json!({"family": "status-tag-write-fault", "file_size_limit": limit})));
            }
        }
        let _ = std::fs::remove_file(format!("{keys_dir}/status.tag"));
        let _ = std::fs::remove_file(format!("{keys_dir}/status.tag.tmp"));
    }
    let mut schedules = 0u64;
    let mut transitions = 0u64;
    let mut finals: BTreeMap<String, u64> = BTreeMap::new();
    let mut stamps = 0u64;
    let t_start = std::time::Instant::now();
    let budget = Duration::from_secs(if thorough { 1500 } else { 45 });
    let mut capped = false;
    for (k, init) in &configs {
        let mut stack: Vec<Vec<usize>> = vec![vec![]];
        while let Some(prefix) = stack.pop() {
            // HTTP after every step only for schedules with <= 1 preemption (others: getters only)
            let pre_cost = |pts: &[Point], upto: usize| -> usize { pts[..upto].iter().filter(|p| p.running_still_enabled && p.chosen != 0).count() };
            let o = run(&kvariants[*k], *init, &prefix, false, keys_dir);
            let cost_total = pre_cost(&o.points, o.points.len());
            let o = if cost_total <= 1 { run(&kvariants[*k], *init, &prefix, true, keys_dir) } else { o };
            schedules += 1;
            transitions += o.steps;
            stamps += o.stamps;
            *finals.entry(o.final_state.clone()).or_insert(0) += 1;
            let choices: Vec<usize> = o.points.iter().map(|p| p.chosen).collect();
            let case = json!({"k_variant": k, "k_ops": kvariants[*k].iter().map(|o| format!("{:?}", o)).collect::<Vec<_>>(), "initial_flags": init, "choices": choices});
            for (sig, what) in &o.problems {
                res.violation(sig, what, case.clone());
            }
            if schedules <= 2 {
                res.sample(json!({"case": case, "steps": o.steps, "final": o.final_state}));
            }
            for i in prefix.len()..o.points.len() {
                let p = &o.points[i];
                let before = pre_cost(&o.points, i);
                for alt in 1..p.enabled.len() {
                    let cost = before + if p.running_still_enabled { 1 } else { 0 };
                    if cost > bound {
                        continue;
                    }
                    let mut np: Vec<usize> = o.points[..i].iter().map(|q| q.chosen).collect();
                    np.push(alt);
                    stack.push(np);
                }
            }
            if t_start.elapsed() > budget {
                capped = true;
                break;
            }
            if res.n_violations() > 0 && schedules > 300 {
                capped = true;
                break;
            }
        }
        if capped {
            break;
        }
    }
    for (sig, what, case) in &write_fault_problems {
        res.violation(sig, what, case.clone());
    }
    res.cov("status_tag_write_fault_cases", write_fault_cases);
    res.cov("states", schedules);
    res.cov("transitions", transitions);
    res.cov("traces_validated_against_impl", schedules);
    res.cov("finished_stamps_observed", stamps);
    res.cov("distinct_final_states", json!(finals));
    res.cov("wall_cap_hit", capped);
    res.assume("a step = one poll of the updater's future = one actor message; actor handlers contain no await, so message order determines behaviour");
    res.assume("not demanded: that all subsystems were still ready at the instant the stamp was written (a reset may overtake a justified stamp by one step)");
    std::process::exit(res.finish());
}
