//! C06: the kernel hook redirects exactly the protected connects and records the true caller.
//! (1) the real agent code writes policy / skip entries into REAL kernel maps created from the
//!     bpf-target build of the unmodified C program; their raw bytes are checked against the layout
//!     derived from inet_pton and become the policy of the model;
//! (2) the explorer (native build of the unmodified C program against a user-space model of the BPF
//!     helpers/maps) enumerates thread configurations x interleavings of the two hooks;
//! (3) every distinct audit byte pattern the model produced is written into the kernel audit_map
//!     and decoded by the real BpfObject::lookup_audit / AuditEntry accessors.

use gpa_harness::common::constants;
use gpa_harness::redirector::{self, BpfObject};
use gpa_harness::shared_state::redirector_wrapper::RedirectorSharedState;
use gpa_harness::verif::world::{self, map_fd, RawMap};
use serde_json::json;
use std::net::Ipv4Addr;
use std::sync::Arc;
use vcommon::result::{tier, EngineResult};

fn hexs(b: &[u8]) -> String {
    vcommon::sha::hex(b)
}

fn expected_entry(ip: Ipv4Addr, port: u16) -> [u8; 24] {
    // destination_entry { ip_address (16 bytes, ipv4 in the first 4, network order), __u32 port (htons in the low half), __u32 protocol }
    let mut k = [0u8; 24];
    k[0..4].copy_from_slice(&ip.octets());
    k[16..20].copy_from_slice(&((port.to_be() as u32).to_ne_bytes()));
    k[20..24].copy_from_slice(&6u32.to_ne_bytes());
    k
}

fn main() {
    proxy_agent_shared::logger::logger_manager::set_logger_level(proxy_agent_shared::logger::LoggerLevel::Error);
    let mut res = EngineResult::new("C06");
    let target = std::env::var("VERIF_TARGET").unwrap_or("/verif/target".into());
    let mut bpf = BpfObject::from_ebpf_file(&world::ebpf_object_path()).unwrap_or_else(|e| vcommon::result::machinery(&format!("cannot load bpf object: {e}")));
    let policy = RawMap { fd: map_fd(&bpf, "policy_map"), key_size: 24, value_size: 24 };
    let skip = RawMap { fd: map_fd(&bpf, "skip_process_map"), key_size: 4, value_size: 4 };
    let audit = RawMap { fd: map_fd(&bpf, "audit_map"), key_size: 8, value_size: 20 };
    let local = RawMap { fd: map_fd(&bpf, "local_map"), key_size: 8, value_size: 24 };
    let mut round_trips = 0u64;

    // ---- (1) policy / skip layout through the kernel maps
    let agent_pid = 4242u32;
    bpf.update_skip_process_map(agent_pid).unwrap_or_else(|e| vcommon::result::machinery(&format!("update_skip_process_map: {e}")));
    let eps: [(&str, &str, u16, u32); 3] = [
        ("WireServer", constants::WIRE_SERVER_IP, constants::WIRE_SERVER_PORT, constants::WIRE_SERVER_IP_NETWORK_BYTE_ORDER),
        ("IMDS", constants::IMDS_IP, constants::IMDS_PORT, constants::IMDS_IP_NETWORK_BYTE_ORDER),
        ("HostGAPlugin", constants::GA_PLUGIN_IP, constants::GA_PLUGIN_PORT, constants::GA_PLUGIN_IP_NETWORK_BYTE_ORDER),
    ];
    for (name, ip, port, ip_nbo) in &eps {
        let ipv4: Ipv4Addr = ip.parse().unwrap();
        // constants and helpers agree with inet_pton
        if *ip_nbo != u32::from_ne_bytes(ipv4.octets()) {
            res.violation("constant-byte-order", &format!("{name}: *_IP_NETWORK_BYTE_ORDER = {ip_nbo:#x}, inet_pton gives {:#x}", u32::from_ne_bytes(ipv4.octets())), json!({"endpoint": name}));
        }
        if redirector::string_to_ip(ip) != u32::from_ne_bytes(ipv4.octets()) || redirector::ip_to_string(u32::from_ne_bytes(ipv4.octets())) != *ip {
            res.violation("ip-string-conversion", &format!("{name}: string_to_ip/ip_to_string disagree with inet_pton for {ip}"), json!({"endpoint": name}));
        }
        round_trips += 1;
        bpf.update_policy_elem_bpf_map(name, constants::PROXY_AGENT_PORT, *ip_nbo, *port).unwrap_or_else(|e| vcommon::result::machinery(&format!("update_policy_elem_bpf_map: {e}")));
    }
    let mut input = String::new();
    let check_policy = |res: &mut EngineResult, stage: &str, want: &[bool; 3]| -> Vec<(usize, Vec<u8>, Vec<u8>)> {
        let dump = policy.dump();
        let mut found = Vec::new();
        for (i, (name, ip, port, _)) in eps.iter().enumerate() {
            let k = expected_entry(ip.parse().unwrap(), *port);
            let v = expected_entry(constants::PROXY_AGENT_IP.parse().unwrap(), constants::PROXY_AGENT_PORT);
            match dump.iter().find(|(dk, _)| dk.as_slice() == k) {
                Some((dk, dv)) => {
                    if !want[i] {
                        res.violation("policy-entry-not-removed", &format!("{stage}: {name} is still in the kernel policy_map"), json!({"endpoint": name, "stage": stage}));
                    }
                    if dv.as_slice() != v {
                        res.violation("policy-value-layout", &format!("{stage}: {name}: value bytes {} differ from the layout the kernel program reads ({})", hexs(dv), hexs(&v)), json!({"endpoint": name, "stage": stage}));
                    }
                    found.push((i, dk.clone(), dv.clone()));
                }
                None => {
                    if want[i] {
                        res.violation("policy-key-layout", &format!("{stage}: no entry with the key bytes the kernel program looks up for {name} ({}); map holds {:?}", hexs(&k), dump.iter().map(|(a, _)| hexs(a)).collect::<Vec<_>>()), json!({"endpoint": name, "stage": stage}));
                    }
                }
            }
        }
        if dump.len() != want.iter().filter(|b| **b).count() {
            res.violation("policy-extra-entries", &format!("{stage}: kernel policy_map holds {} entries", dump.len()), json!({"stage": stage}));
        }
        found
    };
    let found = check_policy(&mut res, "after update_policy_elem_bpf_map x3", &[true, true, true]);
    round_trips += 3;
    for (i, k, v) in &found {
        input.push_str(&format!("POLICY {} {} {}\n", i, hexs(k), hexs(v)));
    }
    match skip.dump().first() {
        Some((k, v)) if k.as_slice() == agent_pid.to_ne_bytes() => input.push_str(&format!("SKIP {} {} {}\n", agent_pid, hexs(k), hexs(v))),
        other => res.violation("skip-entry-layout", &format!("skip_process_map holds {:?}, expected the agent pid {agent_pid} as a native-endian u32 key", other.map(|(k, _)| hexs(k))), json!({})),
    }
    // the public per-endpoint update functions (used by the key keeper) on the same kernel maps
    let rt = tokio::runtime::Builder::new_current_thread().enable_all().build().unwrap();
    let bpf = Arc::new(std::sync::Mutex::new(bpf));
    rt.block_on(async {
        let st = RedirectorSharedState::start_new();
        st.update_bpf_object(bpf.clone()).await.unwrap();
        st.set_local_port(constants::PROXY_AGENT_PORT).await.unwrap();
        redirector::update_wire_server_redirect_policy(false, st.clone()).await;
        check_policy(&mut res, "update_wire_server_redirect_policy(false)", &[false, true, true]);
        redirector::update_imds_redirect_policy(false, st.clone()).await;
        check_policy(&mut res, "update_imds_redirect_policy(false)", &[false, false, true]);
        redirector::update_hostga_redirect_policy(false, st.clone()).await;
        check_policy(&mut res, "update_hostga_redirect_policy(false)", &[false, false, false]);
        redirector::update_imds_redirect_policy(true, st.clone()).await;
        check_policy(&mut res, "update_imds_redirect_policy(true)", &[false, true, false]);
        redirector::update_wire_server_redirect_policy(true, st.clone()).await;
        redirector::update_hostga_redirect_policy(true, st.clone()).await;
        check_policy(&mut res, "all three re-enabled", &[true, true, true]);
    });
    round_trips += 5;
    if res.n_violations() > 0 && found.len() < 3 {
        // the model needs the three policy entries; without them nothing further can be explored
        res.cov("states", 1);
        res.cov("transitions", 1);
        res.cov("traces_validated_against_impl", round_trips);
        res.sample(json!({"note": "layout stage failed"}));
        std::process::exit(res.finish());
    }

    // ---- (2) the explorer
    let inp = format!("{target}/run/c06-{}.in", std::process::id());
    std::fs::create_dir_all(format!("{target}/run")).ok();
    std::fs::write(&inp, &input).unwrap();
    let out = std::process::Command::new(format!("{target}/ebpf/explorer")).arg(&inp).arg(tier()).output().unwrap_or_else(|e| vcommon::result::machinery(&format!("explorer: {e}")));
    let _ = std::fs::remove_file(&inp);
    if !out.status.success() {
        vcommon::result::machinery(&format!("explorer failed: {}", String::from_utf8_lossy(&out.stderr)));
    }
    let text = String::from_utf8_lossy(&out.stdout).to_string();
    let mut stats = std::collections::BTreeMap::new();
    let mut audits: Vec<Vec<String>> = Vec::new();
    let mut counts = std::collections::BTreeMap::new();
    for l in text.lines() {
        let p: Vec<&str> = l.split(' ').collect();
        match p[0] {
            "STAT" => {
                stats.insert(p[1].to_string(), p[2].parse::<u64>().unwrap_or(0));
            }
            "VIOLCOUNT" => {
                counts.insert(p[1].to_string(), p[2].parse::<u64>().unwrap_or(1));
            }
            "AUDIT" => audits.push(p[1..].iter().map(|s| s.to_string()).collect()),
            "MAPDESC" => {
                let want = match p[1] {
                    "skip_process_map" => "key=4 value=4 cap=10 type=1",
                    "policy_map" => "key=24 value=24 cap=10 type=1",
                    "audit_map" => "key=8 value=20 cap=200 type=9",
                    "local_map" => "key=8 value=24 cap=200 type=9",
                    _ => "",
                };
                // only the layout (key and value size) is contract between the kernel program and the agent; type and
                // capacity are the kernel program's own business and are judged by what the model does with them
                if p[2..4].join(" ") != want.split(' ').take(2).collect::<Vec<_>>().join(" ") {
                    res.violation(&format!("map-declaration:{}", p[1]), &format!("C declares {} as {}; the agent side uses {}", p[1], p[2..].join(" "), want), json!({"map": p[1]}));
                }
                round_trips += 1;
            }
            _ => {}
        }
    }
    for l in text.lines() {
        if let Some(rest) = l.strip_prefix("VIOL ") {
            let parts: Vec<&str> = rest.splitn(3, '|').collect();
            let n = counts.get(parts[0]).cloned().unwrap_or(1);
            for _ in 0..n.min(1) {
                res.violation(parts[0], parts.get(1).unwrap_or(&""), json!({"configuration_and_schedule": parts.get(2).unwrap_or(&"")}));
            }
            if let Some(e) = res.violations.get_mut(parts[0]) {
                e.1 = n;
            }
        }
    }
    // ---- (3) audit record layout through the kernel map and the real decoder
    let mut decoded = 0u64;
    for a in &audits {
        let k = vcommon::sha::unhex(&a[0]).unwrap();
        let v = vcommon::sha::unhex(&a[1]).unwrap();
        let (uid, tgid, isroot): (u64, u32, i32) = (a[2].parse().unwrap(), a[3].parse().unwrap(), a[4].parse().unwrap());
        let ip: Ipv4Addr = a[5].parse().unwrap();
        let port: u16 = a[6].parse().unwrap();
        let sport = u32::from_ne_bytes([k[4], k[5], k[6], k[7]]) as u16;
        if !audit.update(&k, &v) {
            vcommon::result::machinery("cannot write into the kernel audit_map");
        }
        let case = json!({"audit_key": a[0], "audit_value": a[1]});
        match bpf.lock().unwrap().lookup_audit(sport) {
            Ok(e) => {
                decoded += 1;
                if e.logon_id != uid || e.process_id != tgid || e.is_admin != isroot || e.destination_ipv4_addr() != ip || e.destination_port_in_host_byte_order() != port {
                    res.violation("audit-record-decoding", &format!("record bytes {} decode to (user {}, pid {}, admin {}, {}:{}); the kernel program stored (user {uid}, pid {tgid}, root {isroot}, {ip}:{port})", a[1], e.logon_id, e.process_id, e.is_admin, e.destination_ipv4_addr(), e.destination_port_in_host_byte_order()), case);
                }
            }
            Err(e) => res.violation("audit-key-layout", &format!("lookup_audit({sport}) does not find the record the kernel program wrote under key {}: {e}", a[0]), case),
        }
        if bpf.lock().unwrap().remove_audit_map_entry(sport).is_err() || audit.lookup(&k).is_some() {
            res.violation("audit-remove", &format!("remove_audit_map_entry({sport}) left the record in the kernel map"), json!({"audit_key": a[0]}));
        }
    }
    round_trips += decoded;
    // ---- (4) "with up to the audit-map capacity of connections in flight": the maps the kernel creates from the object's
    // own declaration (type, max_entries, flags) hold 150 records written from one CPU (as a single-threaded client's
    // connects are) until they are picked up
    let mut pending_ok = 0u64;
    {
        unsafe {
            let mut set: libc::cpu_set_t = std::mem::zeroed();
            libc::CPU_SET(0, &mut set);
            libc::sched_setaffinity(0, std::mem::size_of::<libc::cpu_set_t>(), &set);
        }
        let n = 150u16;
        let val = vec![0x5au8; 20];
        for i in 0..n {
            if !audit.update(&world::audit_key(30000 + i), &val) {
                vcommon::result::machinery("cannot write into the kernel audit_map");
            }
        }
        let missing: Vec<u16> = (0..n).filter(|i| audit.lookup(&world::audit_key(30000 + i)).is_none()).collect();
        pending_ok = (n as usize - missing.len()) as u64;
        if !missing.is_empty() {
            res.violation("audit-map-loses-pending-records", &format!("{} of {n} records written from one CPU into the kernel's audit_map (created from the program's own declaration) were gone before anyone picked them up (declared capacity 200); first missing: source port {}", missing.len(), 30000 + missing[0]), json!({"family": "pending-records-in-the-kernel-map", "records": n}));
        }
        for i in 0..n {
            audit.delete(&world::audit_key(30000 + i));
        }
    }
    // the same for the hand-off map between the two hook points: 150 threads that passed the first hook and have not yet
    // reached the second (pid_tgid keys, written from one CPU) keep their hand-off entry in the map the kernel creates from
    // the object's declaration
    let mut handoff_ok = 0u64;
    {
        let n = 150u64;
        let val = vec![0x3cu8; 24];
        let key = |i: u64| (((7000 + i) << 32) | (7000 + i)).to_ne_bytes().to_vec();
        for i in 0..n {
            if !local.update(&key(i), &val) {
                vcommon::result::machinery("cannot write into the kernel local_map");
            }
        }
        let missing: Vec<u64> = (0..n).filter(|i| local.lookup(&key(*i)).is_none()).collect();
        handoff_ok = n - missing.len() as u64;
        if !missing.is_empty() {
            res.violation("handoff-map-loses-in-flight-connects", &format!("{} of {n} hand-off entries of threads between the two hook points (written from one CPU into the kernel's local_map, created from the program's own declaration) were gone before the second hook could pick them up - those connects reach the proxy without a record (the audit map holds 200); first missing: thread {}", missing.len(), 7000 + missing[0]), json!({"family": "in-flight-hand-offs-in-the-kernel-map", "threads": n}));
        }
        for i in 0..n {
            local.delete(&key(i));
        }
    }
    res.cov("in_flight_hand_offs_kept_by_the_kernel_map", handoff_ok);
    res.cov("pending_records_kept_by_the_kernel_map", pending_ok);
    res.cov("states", *stats.get("states").unwrap_or(&0));
    res.cov("transitions", *stats.get("transitions").unwrap_or(&0));
    res.cov("traces_validated_against_impl", round_trips);
    res.cov("configurations", *stats.get("configurations").unwrap_or(&0));
    res.cov("connects_checked", *stats.get("connects_checked").unwrap_or(&0));
    res.cov("connects_expected_to_divert", *stats.get("diverts_expected").unwrap_or(&0));
    res.cov("helper_calls_executed", *stats.get("helper_calls").unwrap_or(&0));
    res.cov("helper_granularity_configurations", *stats.get("fine_configurations").unwrap_or(&0));
    res.cov("helper_granularity_schedules", *stats.get("fine_executions").unwrap_or(&0));
    res.cov("helper_granularity_steps", *stats.get("fine_steps").unwrap_or(&0));
    res.cov("helper_granularity_preemption_bound_reached", *stats.get("fine_max_preemptions").unwrap_or(&0));
    res.cov("bound_socket_connects", *stats.get("bound_socket_connects").unwrap_or(&0));
    res.cov("handoff_update_failure_connects", *stats.get("handoff_update_failure_connects").unwrap_or(&0));
    res.cov("connects_not_judged_policy_changed_between_hooks", *stats.get("connects_not_judged_policy_changed_between_hooks").unwrap_or(&0));
    res.cov("policy_toggle_configurations", *stats.get("policy_toggle_configurations").unwrap_or(&0));
    res.cov("diverted_connects_with_policy_change_between_hooks_checked_for_their_record", *stats.get("diverted_connects_with_policy_change_between_hooks_checked_for_their_record").unwrap_or(&0));
    res.cov("audit_patterns_decoded_by_the_real_agent_code", decoded);
    res.cov("exhaustive", true);
    res.cov("rule", "configurations: policy in {all three endpoints, WireServer only, WireServer+HostGA, (thorough) none} x pairs (thorough: also triples) of threads from {agent main thread, an agent worker thread, uid0/gid0, uid0/gid1000, uid1000/gid0, uid1000/gid1000, a second thread of that process} x 1 (thorough: 2) connects each to {WS:80, WS:32526, IMDS:80, WS:81, 10.0.0.1:80} x {TCP, UDP}; thorough adds one policy toggle and one connect aborted between the hooks as environment events; plus every policy x identity x destination with the caller's socket bound to a local address (10.0.0.4) before the connect, and once more with the update of the hand-off map failing (-ENOMEM / -EBUSY): still diverted; per configuration BFS over all interleavings of connect4 / tcp_connect invocations (hook-atomic), deduplicated on (map contents, thread program counters, in-flight ctx, policy); plus, for the two-thread configurations without environment events, a stateless preemption-bounded DFS (bound 2, thorough 3) in which every helper call of a hook is a scheduling point (hooks run as coroutines and are switched before each helper executes), every schedule re-executed from the initial maps; model traces are bound to the implementation by the kernel-map round trips (policy/skip bytes written by the real Rust code are the model's input, audit bytes produced by the model are decoded by the real Rust code; 150 pending records written from one CPU must all be kept by the kernel map created from the object's declaration)".to_string());
    res.sample(json!({"policy_entries_written_by_the_agent_code": input.lines().collect::<Vec<_>>()}));
    if let Some(a) = audits.first() {
        res.sample(json!({"audit_pattern_from_the_model": a}));
    }
    res.assume("helper semantics as documented in bpf-helpers(7): bpf_get_current_uid_gid() = gid << 32 | uid, bpf_get_current_pid_tgid() = tgid << 32 | tid");
    res.assume("a connect during which the policy changed (between its two hooks) is not judged: 'currently listed' is undefined for it");
    res.assume("hooks are atomic with respect to each other (interleaving inside a hook between helper calls is not explored); LRU eviction is not modelled, the explored space stays below map capacity");
    res.assume("the kernel program cannot be attached in this kernel (no kprobes): Redirector::start_internal's own pairing of constants is covered by calling the same public functions with the same constants");
    std::process::exit(res.finish());
}
