//! C02 (and the decision half of C03): bounded-exhaustive enumeration of rule documents x
//! callers x URLs against a reference transcribed from the statement of C02.
//!
//! Reference (over the *input* document, never over ComputedAuthorizationItem):
//!   disabled -> allow
//!   else allow iff some privilege matches the URL and is granted through a role assignment to
//!        a defined identity all of whose stated attributes equal the caller's
//!   else deny if any privilege matched, else default access.
//! Metamorphic: every ordering of every list gives the same decision; letter case of rule/request
//! path and query is irrelevant.
//! Not demanded (unspecified by the statement): the decision for documents that define the same
//! name twice (only order-independence is demanded there); request URLs carrying the same query
//! key twice with different values.

use gpa_harness::key_keeper::key::{
    AccessControlRules, AuthorizationItem, Identity, Privilege, Role, RoleAssignment,
};
use gpa_harness::proxy::authorization_rules::ComputedAuthorizationItem;
use gpa_harness::proxy::proxy_authorizer::{self, AuthorizeResult};
use gpa_harness::proxy::proxy_connection::ConnectionLogger;
use gpa_harness::proxy::Claims;
use serde_json::json;
use std::collections::HashMap;
use std::ffi::OsString;
use std::path::PathBuf;
use std::str::FromStr;
use std::sync::{Arc, Mutex};
use vcommon::explore::subsets_upto;
use vcommon::result::{is_thorough, EngineResult};

#[derive(Clone, Debug)]
struct P {
    name: &'static str,
    path: &'static str,
    q: &'static [(&'static str, &'static str)],
}
#[derive(Clone, Debug)]
struct R {
    name: &'static str,
    privs: &'static [&'static str],
}
#[derive(Clone, Debug)]
struct I {
    name: &'static str,
    user: Option<&'static str>,
    group: Option<&'static str>,
    exe: Option<&'static str>,
    proc_: Option<&'static str>,
}
#[derive(Clone, Debug)]
struct A {
    role: &'static str,
    ids: &'static [&'static str],
}

const PRIVS: &[P] = &[
    P { name: "p", path: "/a", q: &[] },
    P { name: "q", path: "/a/b", q: &[("k", "v")] },
    P { name: "p", path: "/c/", q: &[] }, // same name as PRIVS[0]; a rule path that ends in '/' (covers /c/x, not /c)
    P { name: "r", path: "/A", q: &[] }, // upper-case rule path
    P { name: "s", path: "/a", q: &[("K", "V")] }, // upper-case rule query
    P { name: "t", path: "/d", q: &[("k", "v"), ("flag", "")] },
];
const ROLES: &[R] = &[
    R { name: "x", privs: &["p"] },
    R { name: "x", privs: &["q", "ghost"] }, // same name as ROLES[0]
    R { name: "y", privs: &["p", "q"] },
    R { name: "z", privs: &["r", "s", "t"] },
];
const IDS: &[I] = &[
    I { name: "alice", user: Some("alice"), group: None, exe: None, proc_: None },
    I { name: "g", user: None, group: Some("vgrp"), exe: None, proc_: None },
    I { name: "alice", user: Some("bob"), group: None, exe: None, proc_: None }, // same name as IDS[0]
    // (/bin/sh is a symbolic link on this system and /bin a link to /usr/bin: the stated path is compared as stated)
    I { name: "proc", user: None, group: None, exe: Some("/bin/sh"), proc_: Some("sh") },
    I { name: "any", user: None, group: None, exe: None, proc_: None },
    I { name: "both", user: Some("alice"), group: Some("vgrp"), exe: None, proc_: None },
    // attributes that are stated but blank: stated is stated (no caller has an empty user name / a group named " ")
    I { name: "blank", user: Some(""), group: Some(" "), exe: None, proc_: None },
];
const ASGS: &[A] = &[
    A { role: "x", ids: &["alice"] },
    A { role: "y", ids: &["g", "ghost"] },
    A { role: "ghost", ids: &["alice"] },
    A { role: "z", ids: &["proc", "both"] },
    A { role: "x", ids: &["any"] },
    A { role: "y", ids: &["blank"] },
];

#[derive(Clone, Debug)]
struct Caller {
    label: &'static str,
    user: &'static str,
    groups: &'static [&'static str],
    exe: &'static str,
    elevated: bool,
}
const CALLERS: &[Caller] = &[
    Caller { label: "alice", user: "alice", groups: &["alice"], exe: "/usr/bin/python3", elevated: false },
    Caller { label: "bob", user: "bob", groups: &["bob", "vgrp"], exe: "/usr/bin/python3", elevated: false },
    Caller { label: "alice-curl", user: "alice", groups: &["alice"], exe: "/bin/sh", elevated: false },
    Caller { label: "root", user: "root", groups: &["root"], exe: "/bin/sh", elevated: true },
    Caller { label: "Alice", user: "Alice", groups: &["VGRP"], exe: "/bin/SH", elevated: false },
];

const URLS: &[&str] = &[
    "/a/x",
    "/A/X",
    "/a/b?k=v",
    "/a/b?K=V",
    "/A/B?k=V&z=1",
    "/a/b?z=1&k=v",
    "/a/b?k=w",
    "/a/b",
    "/a/b?kk=v",
    "/c",
    "/b",
    "/d?k=v&flag",
    "/d?k=v&flag=",
    "/d?k=v",
    "http://168.63.129.16/a/x",
    "/ab",
    "/c/x",
];

#[derive(Clone)]
struct Doc {
    privs: Option<Vec<usize>>,
    roles: Option<Vec<usize>>,
    ids: Option<Vec<usize>>,
    asgs: Option<Vec<usize>>,
}

fn has_dup_names(d: &Doc) -> bool {
    fn dup<T>(v: &Option<Vec<usize>>, pool: &[T], name: impl Fn(&T) -> &'static str) -> bool {
        if let Some(v) = v {
            for i in 0..v.len() {
                for j in i + 1..v.len() {
                    if name(&pool[v[i]]) == name(&pool[v[j]]) {
                        return true;
                    }
                }
            }
        }
        false
    }
    dup(&d.privs, PRIVS, |p| p.name) || dup(&d.roles, ROLES, |r| r.name) || dup(&d.ids, IDS, |i| i.name)
}

fn to_item(d: &Doc, mode: &str, default: &str) -> AuthorizationItem {
    let rules = AccessControlRules {
        privileges: d.privs.as_ref().map(|v| {
            v.iter()
                .map(|&i| Privilege {
                    name: PRIVS[i].name.into(),
                    path: PRIVS[i].path.into(),
                    queryParameters: if PRIVS[i].q.is_empty() {
                        None
                    } else {
                        Some(PRIVS[i].q.iter().map(|(k, v)| (k.to_string(), v.to_string())).collect::<HashMap<_, _>>())
                    },
                })
                .collect()
        }),
        roles: d.roles.as_ref().map(|v| {
            v.iter()
                .map(|&i| Role { name: ROLES[i].name.into(), privileges: ROLES[i].privs.iter().map(|s| s.to_string()).collect() })
                .collect()
        }),
        identities: d.ids.as_ref().map(|v| {
            v.iter()
                .map(|&i| Identity {
                    name: IDS[i].name.into(),
                    userName: IDS[i].user.map(String::from),
                    groupName: IDS[i].group.map(String::from),
                    exePath: IDS[i].exe.map(String::from),
                    processName: IDS[i].proc_.map(String::from),
                })
                .collect()
        }),
        roleAssignments: d.asgs.as_ref().map(|v| {
            v.iter()
                .map(|&i| RoleAssignment { role: ASGS[i].role.into(), identities: ASGS[i].ids.iter().map(|s| s.to_string()).collect() })
                .collect()
        }),
    };
    AuthorizationItem { defaultAccess: default.into(), mode: mode.into(), id: "id".into(), rules: Some(rules) }
}

fn claims_of(c: &Caller) -> Claims {
    Claims {
        userId: if c.elevated { 0 } else { 1001 },
        userName: c.user.into(),
        userGroups: c.groups.iter().map(|s| s.to_string()).collect(),
        processId: 4242,
        processName: OsString::from(c.exe.rsplit('/').next().unwrap()),
        processFullPath: PathBuf::from(c.exe),
        processCmdLine: c.exe.into(),
        runAsElevated: c.elevated,
        clientIp: "127.0.0.1".into(),
        clientPort: 40000,
    }
}

// ---------------- reference, written from the statement -----------------------------------

/// path and (key, value) pairs of a request target, without using the subject's parser
fn split_url(u: &str) -> (String, Vec<(String, String)>) {
    let mut s = u;
    if let Some(rest) = s.strip_prefix("http://") {
        s = match rest.find('/') {
            Some(i) => &rest[i..],
            None => "/",
        };
    }
    let (path, query) = match s.find('?') {
        Some(i) => (&s[..i], &s[i + 1..]),
        None => (s, ""),
    };
    let mut pairs = Vec::new();
    for seg in query.split('&') {
        if seg.is_empty() {
            continue;
        }
        let (k, v) = match seg.find('=') {
            Some(i) => (&seg[..i], &seg[i + 1..]),
            None => (seg, ""),
        };
        if k.is_empty() {
            continue;
        }
        pairs.push((k.to_string(), v.to_string()));
    }
    (path.to_string(), pairs)
}

/// None = the URL repeats a query key with different values (unspecified by the statement)
fn url_is_specified(u: &str) -> bool {
    let (_, pairs) = split_url(u);
    for i in 0..pairs.len() {
        for j in i + 1..pairs.len() {
            if pairs[i].0.eq_ignore_ascii_case(&pairs[j].0) && !pairs[i].1.eq_ignore_ascii_case(&pairs[j].1) {
                return false;
            }
        }
    }
    true
}

fn ref_priv_matches(p: &P, u: &str) -> bool {
    let (path, pairs) = split_url(u);
    if !path.to_lowercase().starts_with(&p.path.to_lowercase()) {
        return false;
    }
    p.q.iter().all(|(k, v)| pairs.iter().any(|(rk, rv)| rk.eq_ignore_ascii_case(k) && rv.eq_ignore_ascii_case(v)))
}

fn ref_id_matches(i: &I, c: &Caller) -> bool {
    i.user.map_or(true, |u| u == c.user)
        && i.group.map_or(true, |g| c.groups.contains(&g))
        && i.exe.map_or(true, |e| e == c.exe)
        && i.proc_.map_or(true, |p| p == c.exe.rsplit('/').next().unwrap())
}

fn ref_decide(d: &Doc, disabled: bool, default_allow: bool, c: &Caller, u: &str) -> bool {
    if disabled {
        return true;
    }
    let empty = Vec::new();
    let privs = d.privs.as_ref().unwrap_or(&empty);
    let roles = d.roles.as_ref().unwrap_or(&empty);
    let ids = d.ids.as_ref().unwrap_or(&empty);
    let asgs = d.asgs.as_ref().unwrap_or(&empty);
    let mut matched = false;
    for &pi in privs {
        let p = &PRIVS[pi];
        if !ref_priv_matches(p, u) {
            continue;
        }
        matched = true;
        for &ai in asgs {
            let a = &ASGS[ai];
            for &ri in roles {
                let r = &ROLES[ri];
                if r.name != a.role || !r.privs.contains(&p.name) {
                    continue;
                }
                for idn in a.ids {
                    for &ii in ids {
                        if IDS[ii].name == *idn && ref_id_matches(&IDS[ii], c) {
                            return true;
                        }
                    }
                }
            }
        }
    }
    if matched {
        false
    } else {
        default_allow
    }
}

// ---------------- enumeration -------------------------------------------------------------

fn orderings(v: &Option<Vec<usize>>) -> Vec<Option<Vec<usize>>> {
    match v {
        None => vec![None],
        Some(v) => vcommon::explore::permutations(v.len()).into_iter().map(|p| Some(p.iter().map(|&i| v[i]).collect())).collect(),
    }
}

fn section_choices(n: usize, max: usize) -> Vec<Option<Vec<usize>>> {
    let mut out: Vec<Option<Vec<usize>>> = vec![None];
    out.extend(subsets_upto(n, max).into_iter().map(Some));
    out
}

fn doc_json(d: &Doc, mode: &str, default: &str) -> serde_json::Value {
    serde_json::to_value(to_item(d, mode, default)).unwrap()
}

struct Shared {
    res: EngineResult,
    evals: u64,
    docs: u64,
    orderings: u64,
    nontrivial: std::collections::HashSet<u64>,
    outcomes: [u64; 2],
    skipped_unspecified: u64,
}

fn main() {
    proxy_agent_shared::logger::logger_manager::set_logger_level(proxy_agent_shared::logger::LoggerLevel::Error);
    std::panic::set_hook(Box::new(|_| {})); // subject panics are caught and reported as violations
    let thorough = is_thorough();
    let max_per_section = if thorough { 3 } else { 2 };
    let reflatten = if thorough { 32 } else { 4 };
    let all_modes: &[(&str, &str)] = &[("enforce", "deny"), ("Audit", "Allow"), ("disabled", "deny"), ("enforce", "allow"), ("ENFORCE", "DENY")];
    let modes: &[(&str, &str)] = if thorough { all_modes } else { &all_modes[..3] };

    // replay mode: one document
    // (a case of the identity-attribute family carries no document: the whole engine is re-run for it)
    let replay_doc: Option<serde_json::Value> = std::env::var("VERIF_REPLAY").ok().and_then(|p| std::fs::read_to_string(p).ok()).and_then(|t| serde_json::from_str(&t).ok()).filter(|d: &serde_json::Value| !d["case"]["document"].is_null());
    if let Some(doc) = replay_doc {
        let case = &doc["case"];
        let item: AuthorizationItem = serde_json::from_value(case["document"].clone()).unwrap();
        let url = case["url"].as_str().unwrap();
        let caller = CALLERS.iter().find(|c| c.label == case["caller"].as_str().unwrap()).unwrap();
        let comp = ComputedAuthorizationItem::from_authorization_item(item);
        let mut lg = ConnectionLogger::new(0, 0);
        let got = comp.is_allowed(&mut lg, hyper::Uri::from_str(url).unwrap(), claims_of(caller));
        println!("replay: decision={} expected={}", got, case["expected"]);
        let mut res = EngineResult::new("C02");
        if json!(got) != case["expected"] {
            res.violation(doc["sig"].as_str().unwrap_or("replay"), "replayed case still fails", case.clone());
        }
        res.cov("evaluations", 1);
        res.cov("distinct_nontrivial", 2);
        res.cov("rule", "replay");
        res.sample(case.clone());
        std::process::exit(res.finish());
    }

    if std::env::var("VERIF_PROPERTY").as_deref() == Ok("C03") {
        std::process::exit(c03_sweep(thorough));
    }

    let privs = section_choices(PRIVS.len(), max_per_section);
    let roles = section_choices(ROLES.len(), max_per_section.min(2).max(2));
    let ids = section_choices(IDS.len(), max_per_section.min(2).max(2));
    let asgs = section_choices(ASGS.len(), max_per_section.min(2).max(2));

    let mut docs: Vec<Doc> = Vec::new();
    for p in &privs {
        for r in &roles {
            for i in &ids {
                for a in &asgs {
                    docs.push(Doc { privs: p.clone(), roles: r.clone(), ids: i.clone(), asgs: a.clone() });
                }
            }
        }
    }
    // simplest first: fewest total elements
    docs.sort_by_key(|d| {
        let n = |v: &Option<Vec<usize>>| v.as_ref().map_or(0, |v| v.len() + 1);
        n(&d.privs) + n(&d.roles) + n(&d.ids) + n(&d.asgs)
    });

    let shared = Arc::new(Mutex::new(Shared {
        res: EngineResult::new("C02"),
        evals: 0,
        docs: 0,
        orderings: 0,
        nontrivial: Default::default(),
        outcomes: [0, 0],
        skipped_unspecified: 0,
    }));
    let uris: Vec<hyper::Uri> = URLS.iter().map(|u| hyper::Uri::from_str(u).unwrap()).collect();
    let claims: Vec<Claims> = CALLERS.iter().map(claims_of).collect();
    let nthreads = std::thread::available_parallelism().map(|n| n.get()).unwrap_or(4).min(16);
    let docs = Arc::new(docs);
    let next = Arc::new(std::sync::atomic::AtomicUsize::new(0));
    let mut handles = Vec::new();
    for _ in 0..nthreads {
        let docs = docs.clone();
        let next = next.clone();
        let shared = shared.clone();
        let uris = uris.clone();
        let claims = claims.clone();
        let modes = modes.to_vec();
        handles.push(std::thread::spawn(move || {
            let mut lg = ConnectionLogger::new(0, 0);
            let mut local_evals = 0u64;
            let mut local_ord = 0u64;
            let mut local_nontrivial: Vec<u64> = Vec::new();
            let mut local_out = [0u64; 2];
            let mut local_skipped = 0u64;
            let mut viols: Vec<(String, String, serde_json::Value)> = Vec::new();
            let mut ndocs = 0u64;
            loop {
                let k = next.fetch_add(64, std::sync::atomic::Ordering::Relaxed);
                if k >= docs.len() {
                    break;
                }
                for d in &docs[k..(k + 64).min(docs.len())] {
                    ndocs += 1;
                    let dup = has_dup_names(d);
                    let multi_priv = d.privs.as_ref().map_or(0, |v| v.len()) >= 2;
                    // all orderings of all lists
                    let mut ords: Vec<Doc> = Vec::new();
                    for p in orderings(&d.privs) {
                        for r in orderings(&d.roles) {
                            for i in orderings(&d.ids) {
                                for a in orderings(&d.asgs) {
                                    ords.push(Doc { privs: p.clone(), roles: r.clone(), ids: i.clone(), asgs: a.clone() });
                                }
                            }
                        }
                    }
                    for (mode, default) in &modes {
                        let disabled = mode.eq_ignore_ascii_case("disabled");
                        let default_allow = default.eq_ignore_ascii_case("allow");
                        // decisions[ordering][caller][url]
                        let mut first: Option<Vec<bool>> = None;
                        for (oi, od) in ords.iter().enumerate() {
                            let reps = if multi_priv && oi == 0 { reflatten } else { 1 };
                            for rep in 0..reps {
                                local_ord += 1;
                                let comp = match std::panic::catch_unwind(std::panic::AssertUnwindSafe(|| ComputedAuthorizationItem::from_authorization_item(to_item(od, mode, default)))) {
                                    Ok(c) => c,
                                    Err(_) => {
                                        viols.push(("decision-function-panicked:flatten".into(), "from_authorization_item panicked".into(), json!({"document": doc_json(od, mode, default)})));
                                        continue;
                                    }
                                };
                                let mut dec = Vec::with_capacity(claims.len() * uris.len());
                                for (ci, cl) in claims.iter().enumerate() {
                                    for (ui, u) in uris.iter().enumerate() {
                                        let got = match std::panic::catch_unwind(std::panic::AssertUnwindSafe(|| comp.is_allowed(&mut lg, u.clone(), cl.clone()))) {
                                            Ok(g) => g,
                                            Err(_) => {
                                                viols.push(("decision-function-panicked:is_allowed".into(), format!("is_allowed panicked for caller {} url {}", CALLERS[ci].label, URLS[ui]), json!({"document": doc_json(od, mode, default), "caller": CALLERS[ci].label, "url": URLS[ui], "expected": "a decision", "got": "panic"})));
                                                false
                                            }
                                        };
                                        local_evals += 1;
                                        local_out[got as usize] += 1;
                                        dec.push(got);
                                        if oi == 0 && rep == 0 {
                                            if !url_is_specified(URLS[ui]) {
                                                local_skipped += 1;
                                            } else if !dup {
                                                let want = ref_decide(d, disabled, default_allow, &CALLERS[ci], URLS[ui]);
                                                if want != default_allow && !disabled {
                                                    local_nontrivial.push(vcommon::explore::fnv(
                                                        format!("{:?}{:?}{:?}{:?}{}{}{}{}", d.privs, d.roles, d.ids, d.asgs, mode, default, ci, ui).as_bytes(),
                                                    ));
                                                }
                                                if got != want {
                                                    let sig = classify(d, URLS[ui], got, want);
                                                    viols.push((
                                                        sig,
                                                        format!(
                                                            "decision {} but the declared semantics give {} for caller {} url {}",
                                                            got, want, CALLERS[ci].label, URLS[ui]
                                                        ),
                                                        json!({"document": doc_json(od, mode, default), "caller": CALLERS[ci].label, "url": URLS[ui], "expected": want, "got": got}),
                                                    ));
                                                }
                                            }
                                        }
                                    }
                                }
                                match &first {
                                    None => first = Some(dec),
                                    Some(f) => {
                                        if *f != dec {
                                            let at = f.iter().zip(dec.iter()).position(|(a, b)| a != b).unwrap();
                                            let (ci, ui) = (at / uris.len(), at % uris.len());
                                            let sig = if dup {
                                                "order-dependent:duplicate-names".to_string()
                                            } else if oi == 0 {
                                                "nondeterministic:same-document".to_string()
                                            } else {
                                                "order-dependent:unique-names".to_string()
                                            };
                                            viols.push((
                                                sig,
                                                format!(
                                                    "two listings of the same rule set decide differently ({} vs {}) for caller {} url {}",
                                                    f[at], dec[at], CALLERS[ci].label, URLS[ui]
                                                ),
                                                json!({"document": doc_json(od, mode, default), "other_order": doc_json(&ords[0], mode, default),
                                                       "caller": CALLERS[ci].label, "url": URLS[ui], "expected": f[at], "got": dec[at]}),
                                            ));
                                        }
                                    }
                                }
                            }
                        }
                    }
                }
                // flush periodically
                if viols.len() > 2000 {
                    let mut s = shared.lock().unwrap();
                    for (sig, what, rp) in viols.drain(..) {
                        s.res.violation(&sig, &what, rp);
                    }
                }
            }
            let mut s = shared.lock().unwrap();
            s.evals += local_evals;
            s.docs += ndocs;
            s.orderings += local_ord;
            s.outcomes[0] += local_out[0];
            s.outcomes[1] += local_out[1];
            s.skipped_unspecified += local_skipped;
            s.nontrivial.extend(local_nontrivial);
            for (sig, what, rp) in viols {
                s.res.violation(&sig, &what, rp);
            }
        }));
    }
    for h in handles {
        h.join().expect("worker panicked");
    }
    let mut s = Arc::try_unwrap(shared).ok().unwrap().into_inner().unwrap();

    // ---- identity attributes, every combination: an identity stating any subset of {user, group, process name, executable
    // path} (16 subsets, values those of a base caller) against the base caller and callers that differ from it in exactly
    // one attribute (or whose executable path is not valid UTF-8 where the rule's path has U+FFFD): granted iff every stated
    // attribute equals the caller's
    let mut id_combo_evals = 0u64;
    {
        use std::os::unix::ffi::OsStringExt;
        struct Cv {
            label: &'static str,
            user: &'static str,
            groups: &'static [&'static str],
            exe: &'static [u8],
        }
        let base_user = "alice";
        let base_group = "vgrp";
        let base_exe: &[u8] = b"/opt/agent/tool";
        let variants = [
            Cv { label: "base", user: "alice", groups: &["alice", "vgrp"], exe: b"/opt/agent/tool" },
            Cv { label: "other-user", user: "bob", groups: &["alice", "vgrp"], exe: b"/opt/agent/tool" },
            Cv { label: "not-in-the-group", user: "alice", groups: &["alice"], exe: b"/opt/agent/tool" },
            Cv { label: "other-directory-same-process-name", user: "alice", groups: &["alice", "vgrp"], exe: b"/tmp/tool" },
            Cv { label: "other-process-name", user: "alice", groups: &["alice", "vgrp"], exe: b"/opt/agent/fetch" },
            Cv { label: "no-groups", user: "alice", groups: &[], exe: b"/opt/agent/tool" },
        ];
        for mask in 0u32..16 {
            for (stated_exe, stated_proc, exe_set) in [("/opt/agent/tool", "tool", 0usize), ("/opt/agent/\u{fffd}tool", "\u{fffd}tool", 1)] {
                if exe_set == 1 && mask & 0b1100 == 0 {
                    continue;
                }
                let identity = Identity {
                    name: "i".into(),
                    userName: if mask & 1 != 0 { Some(base_user.into()) } else { None },
                    groupName: if mask & 2 != 0 { Some(base_group.into()) } else { None },
                    processName: if mask & 4 != 0 { Some(stated_proc.into()) } else { None },
                    exePath: if mask & 8 != 0 { Some(stated_exe.into()) } else { None },
                };
                let rules = AccessControlRules {
                    privileges: Some(vec![Privilege { name: "p".into(), path: "/a".into(), queryParameters: None }]),
                    roles: Some(vec![Role { name: "r".into(), privileges: vec!["p".into()] }]),
                    identities: Some(vec![identity.clone()]),
                    roleAssignments: Some(vec![RoleAssignment { role: "r".into(), identities: vec!["i".into()] }]),
                };
                let item = AuthorizationItem { defaultAccess: "deny".into(), mode: "enforce".into(), id: "id".into(), rules: Some(rules) };
                let comp = ComputedAuthorizationItem::from_authorization_item(item);
                let mut callers: Vec<(String, &str, Vec<String>, Vec<u8>)> = variants.iter().map(|v| (v.label.to_string(), v.user, v.groups.iter().map(|g| g.to_string()).collect(), v.exe.to_vec())).collect();
                if exe_set == 1 {
                    // the caller's path has a byte that is no UTF-8 where the rule's path has the replacement character
                    callers = vec![("executable-path-not-utf8".into(), "alice", vec!["alice".into(), "vgrp".into()], b"/opt/agent/\x80tool".to_vec())];
                }
                for (label, user, groups, exe) in callers {
                    let name: Vec<u8> = exe.rsplit(|b| *b == b'/').next().unwrap().to_vec();
                    let cl = Claims {
                        userId: 1001,
                        userName: user.into(),
                        userGroups: groups.clone(),
                        processId: 4242,
                        processName: OsString::from_vec(name.clone()),
                        processFullPath: PathBuf::from(OsString::from_vec(exe.clone())),
                        processCmdLine: String::from_utf8_lossy(&exe).to_string(),
                        runAsElevated: false,
                        clientIp: "127.0.0.1".into(),
                        clientPort: 40000,
                    };
                    let want = (mask & 1 == 0 || user == base_user)
                        && (mask & 2 == 0 || groups.iter().any(|g| g == base_group))
                        && (mask & 4 == 0 || name == stated_proc.as_bytes())
                        && (mask & 8 == 0 || exe == stated_exe.as_bytes());
                    let _ = base_exe;
                    let mut lg = ConnectionLogger::new(0, 0);
                    let got = comp.is_allowed(&mut lg, hyper::Uri::from_str("/a/x").unwrap(), cl);
                    id_combo_evals += 1;
                    if got != want {
                        let stated: Vec<&str> = [(1, "user"), (2, "group"), (4, "process name"), (8, "executable path")].iter().filter(|(b, _)| mask & b != 0).map(|(_, n)| *n).collect();
                        s.res.violation(
                            &format!("identity-attributes:got-{}-want-{}", if got { "allow" } else { "deny" }, if want { "allow" } else { "deny" }),
                            &format!("identity stating {:?} (values of the base caller: user alice, group vgrp, process {stated_proc:?}, path {stated_exe:?}); caller '{label}' (user {user}, groups {groups:?}, executable {:?}): decision {}, every stated attribute equals the caller's: {want}", stated, String::from_utf8_lossy(&exe), if got { "allow" } else { "deny" }),
                            json!({"family": "identity-attribute-combinations", "stated": stated, "caller": label, "rule_exe_path": stated_exe}),
                        );
                    }
                }
            }
        }
    }
    // C03 decision half lives in e1_authz; here only C02
    let (evals, docs_n, ords, nontriv, outcomes, skipped) = (s.evals, s.docs, s.orderings, s.nontrivial.len(), s.outcomes, s.skipped_unspecified);
    let res = &mut s.res;
    res.cov("evaluations", evals);
    res.cov("distinct_nontrivial", nontriv as u64);
    res.cov("documents", docs_n);
    res.cov("document_orderings_flattened", ords);
    res.cov("decisions_allow", outcomes[1]);
    res.cov("decisions_deny", outcomes[0]);
    res.cov("identity_attribute_combination_decisions", id_combo_evals);
    res.cov("unspecified_url_cases_only_checked_for_order_independence", skipped);
    res.cov("exhaustive", true);
    res.cov(
        "rule",
        format!(
            "every rule document with <= {max_per_section} privileges and <= 2 roles/identities/assignments from fixed pools (each section may also be absent), every ordering of every list, x {} mode/default pairs x {} callers x {} URLs; non-trivial = the reference decision differs from the default access in a non-disabled mode (distinct (document, mode, caller, url) counted). HashMap iteration order inside the subject is not ownable: documents with >= 2 privileges are flattened {reflatten}x (sampled dimension, labelled).",
            modes.len(),
            CALLERS.len(),
            URLS.len()
        ),
    );
    res.assume("callers are given as Claims values; how claims are derived from a connection is C01/C07");
    res.assume("documents defining one name twice: only order-independence is demanded");
    res.sample(json!({"document": doc_json(&docs[docs.len() / 2], "enforce", "deny"), "caller": "alice", "url": URLS[2]}));
    res.sample(json!({"document": doc_json(&docs[docs.len() - 1], "enforce", "allow"), "caller": "bob", "url": URLS[0]}));
    std::process::exit(res.finish());
}

/// stable signature of a reference disagreement: which feature of the document/URL is involved
fn classify(d: &Doc, url: &str, got: bool, want: bool) -> String {
    let privs = d.privs.clone().unwrap_or_default();
    let missing = [d.privs.is_none(), d.roles.is_none(), d.ids.is_none(), d.asgs.is_none()];
    let (path, _) = split_url(url);
    let mut tags = Vec::new();
    if missing.iter().any(|m| *m) && !missing[0] {
        tags.push("missing-section");
    }
    if privs.iter().any(|&i| PRIVS[i].path.chars().any(|c| c.is_ascii_uppercase()) && path.to_lowercase().starts_with(&PRIVS[i].path.to_lowercase())) {
        tags.push("uppercase-rule-path");
    }
    if tags.is_empty() {
        tags.push("other");
    }
    format!("ref-mismatch:{}:got-{}-want-{}", tags.join("+"), if got { "allow" } else { "deny" }, if want { "allow" } else { "deny" })
}



/// C03, decision half: authorize() for WireServer / HostGAPlugin with every non-elevated caller
/// under every rule document, mode and default must be Forbidden; the self endpoint is Forbidden
/// for every caller (elevated too) under every rule set.
fn c03_sweep(thorough: bool) -> i32 {
    use gpa_harness::common::constants;
    let mut res = EngineResult::new("C03");
    let max = if thorough { 2 } else { 1 };
    let privs = section_choices(PRIVS.len(), max);
    let roles = section_choices(ROLES.len(), max);
    let ids = section_choices(IDS.len() - 1, max); // (C03 does not need the blank-attribute identity of the C02 pool)
    let asgs = section_choices(ASGS.len() - 1, max);
    let modes: &[(&str, &str)] = &[("enforce", "deny"), ("enforce", "allow"), ("audit", "allow"), ("Audit", "deny"), ("disabled", "allow"), ("bogus", "allow")];
    let uris: Vec<hyper::Uri> = URLS.iter().map(|u| hyper::Uri::from_str(u).unwrap()).collect();
    let mut lg = ConnectionLogger::new(0, 0);
    let endpoints = [
        ("wireserver", constants::WIRE_SERVER_IP, constants::WIRE_SERVER_PORT),
        ("hostga", constants::GA_PLUGIN_IP, constants::GA_PLUGIN_PORT),
        ("self", constants::PROXY_AGENT_IP, constants::PROXY_AGENT_PORT),
    ];
    let mut evals = 0u64;
    let mut granted_cases = 0u64; // cases where the rules themselves would allow the caller (non-trivial)
    let mut none_rules_done = false;
    let mut lg2 = ConnectionLogger::new(0, 0);
    let mut check = |res: &mut EngineResult, ep: &(&str, &str, u16), c: &Caller, u: usize, rules: Option<ComputedAuthorizationItem>, doc: serde_json::Value| {
        let r = proxy_authorizer::authorize(ep.1.to_string(), ep.2, &mut lg2, uris[u].clone(), claims_of(c), rules);
        if r != AuthorizeResult::Forbidden {
            let what = if r == AuthorizeResult::Ok { "Ok" } else { "OkWithAudit" };
            res.violation(
                &format!("not-forbidden:{}:{}:{}", ep.0, if c.elevated { "elevated" } else { "non-elevated" }, what),
                &format!("authorize() returned {} for endpoint {} caller {} url {}", what, ep.0, c.label, URLS[u]),
                json!({"endpoint": ep.0, "caller": c.label, "url": URLS[u], "document": doc}),
            );
        }
    };
    for p in &privs {
        for r in &roles {
            for i in &ids {
                for a in &asgs {
                    let d = Doc { privs: p.clone(), roles: r.clone(), ids: i.clone(), asgs: a.clone() };
                    for (mode, default) in modes {
                        let item = to_item(&d, mode, default);
                        let comp = ComputedAuthorizationItem::from_authorization_item(item);
                        for ep in &endpoints {
                            for c in CALLERS {
                                if ep.0 != "self" && c.elevated {
                                    continue;
                                }
                                for u in 0..uris.len() {
                                    if comp.is_allowed(&mut lg, uris[u].clone(), claims_of(c)) {
                                        granted_cases += 1;
                                    }
                                    evals += 1;
                                    check(&mut res, ep, c, u, Some(comp.clone()), doc_json(&d, mode, default));
                                }
                            }
                        }
                    }
                    if !none_rules_done {
                        none_rules_done = true;
                        for ep in &endpoints {
                            for c in CALLERS {
                                if ep.0 != "self" && c.elevated {
                                    continue;
                                }
                                for u in 0..uris.len() {
                                    evals += 1;
                                    check(&mut res, ep, c, u, None, json!(null));
                                }
                            }
                        }
                    }
                }
            }
        }
    }
    // identity half: "elevated" is what the kernel record says (is_admin == 1), whatever the user id. The real
    // Claims::from_audit_entry is swept over user ids (thorough: all of 0..=70000; quick: 0..=1200 and 65530..=65540; and the boundaries of 16/31/32/64 bits) with
    // is_admin in {0, 2, -1}: never elevated, and Forbidden for the root-only endpoints without rules and under an allowing rule set
    let mut id_cases = 0u64;
    {
        let rt = tokio::runtime::Builder::new_current_thread().enable_all().build().unwrap();
        rt.block_on(async {
            let shared = gpa_harness::shared_state::SharedState::start_all();
            let ps = shared.get_proxy_server_shared_state();
            let allow_all = ComputedAuthorizationItem::from_authorization_item(to_item(&Doc { privs: None, roles: None, ids: None, asgs: None }, "enforce", "allow"));
            let mut uids: Vec<u64> = if thorough { (0..=70000u64).collect() } else { (0..=1200u64).chain(65530..=65540).collect() };
            uids.extend_from_slice(&[(1 << 31) - 1, 1 << 31, (1 << 32) - 2, (1 << 32) - 1, 1 << 32, (1 << 32) + 999, u64::MAX]);
            let me = std::process::id();
            for uid in uids {
                for is_admin in [0i32, 2, -1] {
                    if is_admin != 0 && uid > 300 && uid < 65000 {
                        continue;
                    }
                    let entry = gpa_harness::redirector::AuditEntry { logon_id: uid, process_id: me, is_admin, destination_ipv4: 0, destination_port: 0 };
                    id_cases += 1;
                    let claims = match gpa_harness::proxy::Claims::from_audit_entry(&entry, "127.0.0.1".parse().unwrap(), 40000, ps.clone()).await {
                        Ok(c) => c,
                        Err(_) => continue, // no claims: the connection is refused as unattributed
                    };
                    if claims.runAsElevated {
                        res.violation("non-elevated-record-gives-elevated-claims", &format!("a kernel record with user id {uid} and is_admin {is_admin} gives claims with runAsElevated = true"), json!({"user_id": uid, "is_admin": is_admin}));
                        continue;
                    }
                    for ep in &endpoints[..2] {
                        for rules in [None, Some(allow_all.clone())] {
                            let r = proxy_authorizer::authorize(ep.1.to_string(), ep.2, &mut lg, uris[0].clone(), claims.clone(), rules);
                            if r != AuthorizeResult::Forbidden {
                                res.violation(&format!("not-forbidden:{}:non-elevated:user-id", ep.0), &format!("authorize() did not return Forbidden for endpoint {} and the claims of user id {uid} (is_admin {is_admin})", ep.0), json!({"user_id": uid, "is_admin": is_admin, "endpoint": ep.0}));
                            }
                        }
                    }
                }
            }
            shared.cancel_cancellation_token();
        });
    }
    res.cov("kernel_record_identities_swept", id_cases);
    res.cov("evaluations", evals + id_cases);
    res.cov("distinct_nontrivial", granted_cases);
    res.cov("exhaustive", true);
    res.cov("rule", format!("authorize() for endpoints {{WireServer, HostGAPlugin}} x every non-elevated caller and endpoint self x every caller, under every rule document of the C02 pools (<= {max} entries per section, sections optionally absent) x {} mode/default pairs (incl. disabled, audit, unknown mode) and under no rules, x {} URLs; expected Forbidden everywhere; non-trivial = the rule set by itself would allow the caller", modes.len(), URLS.len()));
    res.sample(json!({"endpoint": "wireserver", "caller": "alice", "url": URLS[0], "rules": "none", "expected": "Forbidden"}));
    res.sample(json!({"endpoint": "self", "caller": "root", "url": URLS[0], "document": doc_json(&Doc{privs: Some(vec![0]), roles: Some(vec![0]), ids: Some(vec![4]), asgs: Some(vec![4])}, "disabled", "allow"), "expected": "Forbidden"}));
    res.finish()
}
