//! C01 (complete mediation) and the end-to-end half of C03: exhaustive product of
//! connection kind x caller x rule set x URL x method against the real proxy in the E2 world.

use gpa_harness::verif::policy::Policy;
use gpa_harness::verif::world::{self, AuditRec, World, WorldOpts, HOSTGA, IMDS, OTHER, PROXY, WS};
use serde_json::{json, Value};
use std::collections::BTreeSet;
use std::time::Duration;
use vcommon::rawhttp::{build_request, Event};
use vcommon::result::{is_thorough, EngineResult};

#[derive(Clone, Debug)]
struct Who {
    label: &'static str,
    uid: u32,
    is_root: bool,
    user: &'static str,
    pid: u32,
}

#[derive(Clone, Debug)]
struct Case {
    dest: Option<&'static str>, // None = direct connection (no record)
    who: usize,
    policy: usize,
    url: &'static str,
    method: &'static str,
}

fn policies(thorough: bool) -> Vec<Policy> {
    let mut v = vec![
        Policy::none(),
        Policy::simple("enforce-deny-grants-alice", "enforce", false).with(&["/a"], &[(0, "alice")]),
        Policy::simple("enforce-allow-unassigned", "enforce", true).with(&["/a"], &[]),
        Policy::simple("audit-deny-grants-alice", "audit", false).with(&["/a"], &[(0, "alice")]),
        Policy::simple("disabled-deny", "disabled", false).with(&["/a"], &[]),
    ];
    if thorough {
        v.extend([
            Policy::simple("enforce-deny-grants-root", "enforce", false).with(&["/a"], &[(0, "root")]),
            Policy::simple("enforce-deny-empty", "enforce", false),
            Policy::simple("enforce-allow-empty", "enforce", true),
            Policy::simple("audit-allow-empty", "audit", true),
            Policy::simple("Enforce-caps-deny-grants-bob", "Enforce", false).with(&["/A"], &[(0, "bob")]),
        ]);
    }
    v
}

/// a rule set for the *other* endpoints that decides the opposite way for most cases, so that
/// consulting the wrong endpoint's rules is visible
fn contrast(p: &Policy) -> Policy {
    if p.disabled() || p.default_allow {
        Policy::simple("contrast-enforce-deny", "enforce", false)
    } else {
        Policy::none()
    }
}

struct Obs {
    status: Result<u16, String>,
    bytes: [usize; 4],
    reqs: Vec<(usize, String, String)>, // (host index, method, target)
}

fn run_case(w: &World, sport: u16, rec: Option<&AuditRec>, method: &str, url: &str) -> Obs {
    run_case_on(w, 3080, sport, rec, method, url)
}

fn run_case_on(w: &World, listener: u16, sport: u16, rec: Option<&AuditRec>, method: &str, url: &str) -> Obs {
    let cur = w.hosts.cursors();
    let body: Option<&[u8]> = if method == "POST" || method == "PUT" { Some(b"payload") } else { None };
    let req = build_request(method, url, &[("Host", b"metadata"), ("Metadata", b"true")], body, None);
    let status = match w.connect_port(listener, Some(sport), rec) {
        Ok(mut c) => {
            let r = c.send(&req).map_err(|e| e.to_string()).and_then(|_| c.read_response(false, Duration::from_secs(10)).map(|m| m.status()));
            c.close();
            r
        }
        Err(e) => Err(format!("connect: {e}")),
    };
    let hosts = w.hosts.all();
    let mut bytes = [0usize; 4];
    let mut reqs = Vec::new();
    for (i, h) in hosts.iter().enumerate() {
        for e in h.since(cur[i]) {
            match e {
                Event::Bytes { n, .. } => bytes[i] += n,
                Event::Request { req, .. } => reqs.push((i, req.method().to_string(), req.target().to_string())),
                _ => {}
            }
        }
    }
    Obs { status, bytes, reqs }
}

fn host_index(dest: &str) -> Option<usize> {
    [WS, HOSTGA, IMDS, OTHER].iter().position(|d| *d == dest)
}

fn main() {
    world::leaderless_helper_if_requested();
    world::install_panic_recorder();
    let thorough = is_thorough();
    let w = World::start(WorldOpts::default());
    let mut res = EngineResult::new(&std::env::var("VERIF_PROPERTY").unwrap_or("C01".into()));
    let only_c03 = res.property == "C03";

    let whos = vec![
        Who { label: "root-elevated", uid: 0, is_root: true, user: "root", pid: w.spawn_proc("/usr/bin/vt-agentlike", &["100000"], None) },
        Who { label: "alice", uid: 1001, is_root: false, user: "alice", pid: w.spawn_proc("/usr/bin/vt-curl", &["100000"], Some(1001)) },
        Who { label: "bob", uid: 1002, is_root: false, user: "bob", pid: w.spawn_proc("/usr/bin/vt-curl", &["100001"], Some(1002)) },
        Who { label: "uid0-not-admin", uid: 0, is_root: false, user: "root", pid: w.spawn_proc("/usr/bin/vt-odd", &["100000"], None) },
        // a non-elevated caller whose executable path and command line are not valid UTF-8 (any user can arrange that)
        Who {
            label: "alice-non-utf8-path",
            uid: 1001,
            is_root: false,
            user: "alice",
            pid: {
                use std::os::unix::ffi::OsStrExt;
                w.spawn_proc_os(std::ffi::OsStr::from_bytes(b"/usr/bin/vt-\xff\xfe-dir/vt-tool"), &[std::ffi::OsStr::from_bytes(b"100000")], Some(1001))
            },
        },
        // a non-elevated caller whose main thread has exited while another thread lives on: its executable path and command
        // line cannot be read any more, the name it gave itself ("comm") can
        Who { label: "alice-main-thread-exited", uid: 1001, is_root: false, user: "alice", pid: w.spawn_leaderless("vt-launcher", Some(1001)) },
    ];
    let pols = policies(thorough);
    let urls: Vec<&'static str> = if thorough {
        vec!["/a/x", "/b", "/A/x", "/a/x?k=v", "/a/../b", "/a..b", "/b?x=..", "/a/%2e%2e/b", "/", "/a/..%2fb", "/a/..;/b", "/..", "/a/..", "/...", "/a/b/..%5cc", "/vmAgentLog", "/VMAGENTLOG", "/machine/?comp=telemetrydata", "/machine?comp=telemetrydata", "/vmAgentLog/../b"]
    } else {
        vec!["/a/x", "/b", "/A/x", "/a/../b", "/b?x=..", "/a..b", "/a/..%2fb", "/vmAgentLog", "/VMAGENTLOG", "/machine/?comp=telemetrydata"]
    };
    // PUT /vmAgentLog and POST /machine/?comp=telemetrydata are the two uploads the proxy relays without a
    // signature (their own code path): mediation applies to them like to anything else
    let methods = ["GET", "POST", "PUT"];
    let dests: Vec<Option<&'static str>> = vec![None, Some(WS), Some(HOSTGA), Some(IMDS), Some(PROXY), Some(OTHER)];

    // replay: a single case
    let replay: Option<Value> = std::env::var("VERIF_REPLAY").ok().map(|p| serde_json::from_str::<Value>(&std::fs::read_to_string(p).unwrap()).unwrap()["case"].clone());

    let mut cases: Vec<Case> = Vec::new();
    for (pi, _) in pols.iter().enumerate() {
        for d in &dests {
            let who_range: Vec<usize> = if d.is_none() { vec![0] } else { (0..whos.len()).collect() };
            for wi in who_range {
                for u in &urls {
                    for m in methods {
                        if only_c03 {
                            // C03 slice: WS/HostGA with non-elevated callers, and the self destination
                            let ok = match d {
                                Some(x) if *x == WS || *x == HOSTGA => !whos[wi].is_root,
                                Some(x) if *x == PROXY => true,
                                _ => false,
                            };
                            if !ok {
                                continue;
                            }
                        }
                        cases.push(Case { dest: *d, who: wi, policy: pi, url: u, method: m });
                    }
                }
            }
        }
    }
    if let Some(r) = &replay {
        cases.retain(|c| {
            json!(c.dest) == r["dest"] && whos[c.who].label == r["who"] && pols[c.policy].label == r["policy"] && c.url == r["url"] && c.method == r["method"]
        });
        if cases.is_empty() {
            vcommon::result::machinery("replay case not in the alphabet of this tier (try --tier thorough)");
        }
    }

    let mut sport: u16 = 20000;
    let mut cur_policy = usize::MAX;
    let mut cur_dest: Option<&str> = Some("?");
    let mut nontrivial: BTreeSet<String> = BTreeSet::new();
    let mut relayed_n = 0u64;
    let mut refused_n = 0u64;
    let mut status_hist: std::collections::BTreeMap<String, u64> = Default::default();
    let mut gate: Vec<(usize, String)> = Vec::new();

    let total = cases.len();
    for (ci, c) in cases.iter().enumerate() {
        let pol = &pols[c.policy];
        if cur_policy != c.policy || cur_dest != c.dest {
            // endpoint under test gets `pol`, the others the contrasting set
            let under = c.dest.unwrap_or(IMDS);
            for ep in [WS, HOSTGA, IMDS] {
                let p = if ep == under { pol.clone() } else { contrast(pol) };
                w.set_rules(ep, p.to_item());
            }
            cur_policy = c.policy;
            cur_dest = c.dest;
        }
        let who = &whos[c.who];
        let rec = c.dest.map(|d| AuditRec::to(d, who.uid, who.pid, who.is_root));
        sport = if sport >= 29999 { 20000 } else { sport + 1 };
        let obs = run_case(&w, sport, rec.as_ref(), c.method, c.url);

        // ---------------- reference ----------------
        let path = c.url.split('?').next().unwrap();
        let mut reasons: BTreeSet<u16> = BTreeSet::new();
        if path.contains("..") {
            reasons.insert(404);
        }
        match c.dest {
            None => {
                reasons.insert(421);
            }
            Some(d) => {
                if d == PROXY {
                    reasons.insert(403);
                }
                if (d == WS || d == HOSTGA) && !who.is_root {
                    reasons.insert(403);
                }
                if d == WS || d == HOSTGA || d == IMDS {
                    if pol.enforce() && !pol.allows(who.user, c.url) {
                        reasons.insert(403);
                    }
                }
            }
        }
        let expect_relay = reasons.is_empty();
        // a caller whose identity cannot be rendered (non-UTF-8 path) may be refused as unattributed (421) even where the
        // rules would let it through: refusing more is not a mediation failure; relaying what must be refused is
        let unrenderable = who.label == "alice-non-utf8-path";
        if unrenderable && !expect_relay {
            reasons.insert(421);
        }
        let case_json = json!({"dest": c.dest, "who": who.label, "policy": pol.label, "url": c.url, "method": c.method});
        if ci < 3 || (!expect_relay && res.samples.len() < 5 && ci % 97 == 0) {
            res.sample(json!({"case": case_json, "expected": if expect_relay { json!("relay") } else { json!(reasons) }, "status": format!("{:?}", obs.status), "upstream_bytes": obs.bytes}));
        }
        let total_bytes: usize = obs.bytes.iter().sum();
        let st = match &obs.status {
            Ok(s) => s.to_string(),
            Err(e) => format!("err:{}", e.split(':').next().unwrap_or("")),
        };
        *status_hist.entry(st.clone()).or_insert(0) += 1;
        if expect_relay && unrenderable && obs.status == Ok(421) && obs.bytes.iter().sum::<usize>() == 0 {
            refused_n += 1;
        } else if expect_relay {
            relayed_n += 1;
            let d = c.dest.unwrap();
            let hi = host_index(d).unwrap();
            let ok = obs.reqs.len() == 1 && obs.reqs[0].0 == hi && obs.reqs[0].1 == c.method && obs.reqs[0].2 == c.url && obs.bytes.iter().enumerate().all(|(i, b)| i == hi || *b == 0) && obs.status == Ok(200);
            if !ok {
                res.violation(
                    &format!("not-relayed-as-expected:{}:{}", pol.label, c.dest.unwrap_or("direct")),
                    &format!("authorized attributed request was not relayed exactly once to its recorded destination: status {:?}, upstream requests {:?}, bytes {:?}", obs.status, obs.reqs, obs.bytes),
                    case_json.clone(),
                );
            }
        } else {
            refused_n += 1;
            nontrivial.insert(format!("{:?}|{}|{}|{}", c.dest, who.label, pol.label, c.url));
            if total_bytes != 0 {
                let why: Vec<String> = reasons.iter().map(|r| r.to_string()).collect();
                res.violation(
                    &format!("bytes-upstream-on-refusal:{}:{}", why.join("+"), c.dest.map_or("direct", |d| if d == PROXY { "self" } else { "endpoint" })),
                    &format!("request that must be refused ({:?}) put {} bytes on a metadata host: {:?}", reasons, total_bytes, obs.reqs),
                    case_json.clone(),
                );
            }
            match obs.status {
                Ok(s) if reasons.contains(&s) => {}
                ref other => {
                    res.violation(
                        &format!("wrong-refusal-status:{}", st),
                        &format!("request that must be refused with one of {:?} got {:?}", reasons, other),
                        case_json.clone(),
                    );
                }
            }
        }
        if ci < 40 {
            gate.push((ci, format!("{:?}{:?}{:?}", obs.status, obs.bytes, obs.reqs)));
        }
        if ci % 500 == 0 {
            eprintln!("progress {ci}/{total}");
        }
    }

    // ---- family 2: the policy in force *at request time* decides, also on a kept-alive connection
    // one attributed connection, request under policy A, switch the endpoint's rules to B, request again
    let mut ka_cases = 0u64;
    if replay.is_none() && !only_c03 {
        let ka_dests: Vec<(&'static str, usize)> = vec![(IMDS, 1), (IMDS, 2), (WS, 0), (HOSTGA, 0)];
        for (d, wi) in &ka_dests {
            for a in 0..pols.len() {
                for b in 0..pols.len() {
                    if a == b {
                        continue;
                    }
                    let who = &whos[*wi];
                    w.set_rules(d, pols[a].to_item());
                    sport = if sport >= 29999 { 20000 } else { sport + 1 };
                    let rec = AuditRec::to(d, who.uid, who.pid, who.is_root);
                    let mut c = match w.connect(Some(sport), Some(&rec)) {
                        Ok(c) => c,
                        Err(e) => vcommon::result::machinery(&format!("connect: {e}")),
                    };
                    let hi = host_index(d).unwrap();
                    let mut statuses = Vec::new();
                    let mut ok = true;
                    for (step, pi) in [a, b, a].iter().enumerate() {
                        if step > 0 {
                            w.set_rules(d, pols[*pi].to_item());
                        }
                        let url = "/a/x";
                        let cur = w.hosts.all()[hi].cursor();
                        let req = build_request("GET", url, &[("Host", b"metadata"), ("Metadata", b"true")], None, None);
                        let st = c.send(&req).map_err(|e| e.to_string()).and_then(|_| c.read_response(false, Duration::from_secs(10)).map(|m| m.status()));
                        let bytes = w.hosts.all()[hi].bytes_since(cur);
                        let must_refuse = pols[*pi].enforce() && !pols[*pi].allows(who.user, url);
                        statuses.push(format!("{:?}", st));
                        ka_cases += 1;
                        if must_refuse {
                            nontrivial.insert(format!("ka|{d}|{}|{}|{}|{step}", who.label, pols[a].label, pols[b].label));
                        }
                        let good = if must_refuse { st == Ok(403) && bytes == 0 } else { st == Ok(200) && bytes > 0 };
                        if !good && ok {
                            ok = false;
                            res.violation(
                                &format!("keepalive-policy-change:{}", if must_refuse { "relayed-under-denying-policy" } else { "refused-under-allowing-policy" }),
                                &format!("on a kept-alive connection to {d} by {}, request {} under rule set '{}' (after '{}') got {:?} with {} bytes upstream", who.label, step + 1, pols[*pi].label, pols[a].label, st, bytes),
                                json!({"family": "keepalive-policy-change", "dest": d, "who": who.label, "policy_a": pols[a].label, "policy_b": pols[b].label, "step": step}),
                            );
                        }
                        if st.is_err() {
                            break;
                        }
                    }
                    c.close();
                    if ka_cases <= 3 {
                        res.sample(json!({"family": "keepalive-policy-change", "dest": d, "who": who.label, "policies": [pols[a].label, pols[b].label, pols[a].label], "statuses": statuses}));
                    }
                }
            }
        }
    }
    res.cov("keepalive_policy_change_requests", ka_cases);

    // ---- family 3: every field of the record of *this* connection decides, whatever earlier
    // connections of the same process / user looked like (no caching across connections)
    let mut pair_cases = 0u64;
    if replay.is_none() {
        let mut recs: Vec<(u32, u32, bool)> = Vec::new(); // (uid, pid, is_root)
        for uid in [0u32, 1001] {
            for pid in [whos[0].pid, whos[1].pid] {
                for ir in [true, false] {
                    recs.push((uid, pid, ir));
                }
            }
        }
        w.set_rules(WS, None);
        w.set_rules(HOSTGA, None);
        w.set_rules(IMDS, Policy::simple("enforce-deny-grants-alice", "enforce", false).with(&["/a"], &[(0, "alice")]).to_item());
        for d in [WS, IMDS, HOSTGA] {
            if only_c03 && d == IMDS {
                continue;
            }
            for a in &recs {
                for b in &recs {
                    for (step, r) in [a, b].iter().enumerate() {
                        let rec = AuditRec::to(d, r.0, r.1, r.2);
                        sport = if sport >= 29999 { 20000 } else { sport + 1 };
                        let hi = host_index(d).unwrap();
                        let cur = w.hosts.all()[hi].cursor();
                        let obs = run_case(&w, sport, Some(&rec), "GET", "/a/x");
                        pair_cases += 1;
                        let must_refuse = if d == IMDS { r.0 != 1001 } else { !r.2 };
                        if must_refuse {
                            nontrivial.insert(format!("pair|{d}|{:?}|{:?}|{step}", a, b));
                        }
                        let claims_ok = w.hosts.all()[hi].requests_since(cur).iter().all(|(_, m)| m.header("x-ms-azure-host-claims").unwrap_or_default() == format!("{{ \"isRoot\": \"{}\"}}", r.2));
                        let good = if must_refuse { obs.status == Ok(403) && obs.bytes.iter().sum::<usize>() == 0 } else { obs.status == Ok(200) && obs.reqs.len() == 1 && claims_ok };
                        if !good {
                            res.violation(
                                &format!("decided-with-another-connections-record:{}", if must_refuse { "relayed" } else { "refused-or-wrong-claims" }),
                                &format!("connection {} of 2 to {d} with record (uid {}, pid {}, is_root {}) after a connection with (uid {}, pid {}, is_root {}): status {:?}, upstream {:?}", step + 1, r.0, r.1, r.2, a.0, a.1, a.2, obs.status, obs.reqs),
                                json!({"family": "record-pairs", "dest": d, "first": [a.0, a.1, a.2], "second": [b.0, b.1, b.2], "step": step}),
                            );
                        }
                    }
                }
            }
        }
    }
    res.cov("record_pair_requests", pair_cases);

    // ---- family 4: a connection made directly to the listener from a source port whose previous connection was
    // attributed (and served) is as unattributed as any other direct connection
    let mut reuse_cases = 0u64;
    if replay.is_none() && !only_c03 {
        w.set_rules(WS, None);
        w.set_rules(HOSTGA, None);
        w.set_rules(IMDS, Policy::simple("enforce-deny-grants-alice", "enforce", false).with(&["/a"], &[(0, "alice")]).to_item());
        for (d, who) in [(WS, &whos[0]), (HOSTGA, &whos[0]), (IMDS, &whos[1])] {
            for gap_ms in [0u64, 30] {
                for n_first in [1usize, 2] {
                    sport = if sport >= 29999 { 20000 } else { sport + 1 };
                    let rec = AuditRec::to(d, who.uid, who.pid, who.is_root);
                    for _ in 0..n_first {
                        let first = run_case(&w, sport, Some(&rec), "GET", "/a/x");
                        reuse_cases += 1;
                        if first.status != Ok(200) {
                            res.violation("port-reuse:attributed-connection-refused", &format!("attributed connection to {d} by {} got {:?}", who.label, first.status), json!({"family": "port-reuse", "dest": d, "who": who.label}));
                        }
                        std::thread::sleep(Duration::from_millis(gap_ms));
                    }
                    let second = run_case(&w, sport, None, "GET", "/a/x");
                    reuse_cases += 1;
                    nontrivial.insert(format!("reuse|{d}|{gap_ms}|{n_first}"));
                    if second.status != Ok(421) || second.bytes.iter().sum::<usize>() != 0 {
                        res.violation(
                            "port-reuse:direct-connection-relayed",
                            &format!("a direct connection from source port {sport}, {gap_ms} ms after {n_first} attributed connection(s) from that port to {d} by {}, got {:?} with {:?} bytes upstream (expected 421 and nothing upstream)", who.label, second.status, second.bytes),
                            json!({"family": "port-reuse", "dest": d, "who": who.label, "gap_ms": gap_ms, "attributed_first": n_first}),
                        );
                    }
                }
            }
        }
    }
    res.cov("port_reuse_requests", reuse_cases);

    // ---- family 5: the program behind a pid changes (exec) between two connections of that pid; rules tell callers
    // apart by processName / exePath: each connection is judged by the program running when it was made
    let mut exec_cases = 0u64;
    if replay.is_none() && !only_c03 {
        use std::io::Write;
        use std::os::unix::process::CommandExt;
        for p in ["/usr/bin/vt-launcher", "/usr/bin/vt-after"] {
            if !std::path::Path::new(p).exists() {
                std::fs::copy(if p.ends_with("launcher") { "/bin/sh" } else { "/bin/sleep" }, p).unwrap();
            }
        }
        let by = |field: &str, value: &str| -> Option<gpa_harness::key_keeper::key::AuthorizationItem> {
            Some(
                serde_json::from_value(json!({
                    "defaultAccess": "deny", "mode": "enforce", "id": "exec-family",
                    "rules": {"privileges": [{"name": "p", "path": "/a"}], "roles": [{"name": "r", "privileges": ["p"]}],
                              "identities": [{"name": "i", field: value}], "roleAssignments": [{"role": "r", "identities": ["i"]}]}
                }))
                .unwrap(),
            )
        };
        w.set_rules(WS, None);
        w.set_rules(HOSTGA, None);
        for (field, value, grants_before) in [("processName", "vt-launcher", true), ("exePath", "/usr/bin/vt-launcher", true), ("processName", "vt-after", false), ("exePath", "/usr/bin/vt-after", false)] {
            for n_before in [1usize, 3] {
                w.set_rules(IMDS, by(field, value));
                let mut child = std::process::Command::new("/usr/bin/vt-launcher")
                    .args(["-c", "read x; exec /usr/bin/vt-after 100000"])
                    .stdin(std::process::Stdio::piped())
                    .stdout(std::process::Stdio::null())
                    .uid(1001)
                    .spawn()
                    .unwrap_or_else(|e| vcommon::result::machinery(&format!("spawn launcher: {e}")));
                let pid = child.id();
                let rec = AuditRec::to(IMDS, 1001, pid, false);
                let case = json!({"family": "exec-between-connections", "identity_by": field, "value": value, "connections_before_exec": n_before});
                for _ in 0..n_before {
                    sport = if sport >= 29999 { 20000 } else { sport + 1 };
                    let o = run_case(&w, sport, Some(&rec), "GET", "/a/x");
                    exec_cases += 1;
                    let want = if grants_before { 200 } else { 403 };
                    if o.status != Ok(want) || (!grants_before && o.bytes.iter().sum::<usize>() != 0) {
                        res.violation("exec:before-exec", &format!("pid {pid} running /usr/bin/vt-launcher, rules grant {field}={value}: got {:?}, {:?} bytes upstream (expected {want})", o.status, o.bytes), case.clone());
                    }
                }
                let _ = child.stdin.as_mut().unwrap().write_all(b"go\n");
                let t0 = std::time::Instant::now();
                while std::fs::read_link(format!("/proc/{pid}/exe")).map(|p| p.to_string_lossy() != "/usr/bin/vt-after").unwrap_or(true) {
                    if t0.elapsed() > Duration::from_secs(5) {
                        vcommon::result::machinery("launcher did not exec the second program");
                    }
                    std::thread::sleep(Duration::from_millis(2));
                }
                sport = if sport >= 29999 { 20000 } else { sport + 1 };
                let o = run_case(&w, sport, Some(&rec), "GET", "/a/x");
                exec_cases += 1;
                nontrivial.insert(format!("exec|{field}|{value}|{n_before}"));
                let want = if grants_before { 403 } else { 200 };
                if o.status != Ok(want) || (grants_before && o.bytes.iter().sum::<usize>() != 0) {
                    res.violation(
                        if grants_before { "exec:stale-program-authorized" } else { "exec:after-exec" },
                        &format!("pid {pid} made {n_before} connection(s) as /usr/bin/vt-launcher, then exec'ed /usr/bin/vt-after; rules grant {field}={value}: the connection after the exec got {:?}, {:?} bytes upstream (expected {want})", o.status, o.bytes),
                        case.clone(),
                    );
                }
                let _ = child.kill();
                let _ = child.wait();
            }
        }
    }
    // the same rules against a caller that merely *names itself* after the granted program (PR_SET_NAME) and whose
    // executable can no longer be read: it is not that program
    if replay.is_none() && !only_c03 {
        let item = |field: &str, value: &str| -> Option<gpa_harness::key_keeper::key::AuthorizationItem> {
            Some(
                serde_json::from_value(json!({
                    "defaultAccess": "deny", "mode": "enforce", "id": "self-named-family",
                    "rules": {"privileges": [{"name": "p", "path": "/a"}], "roles": [{"name": "r", "privileges": ["p"]}],
                              "identities": [{"name": "i", field: value}], "roleAssignments": [{"role": "r", "identities": ["i"]}]}
                }))
                .unwrap(),
            )
        };
        w.set_rules(WS, None);
        w.set_rules(HOSTGA, None);
        let who = whos.iter().find(|x| x.label == "alice-main-thread-exited").unwrap();
        for (field, value) in [("processName", "vt-launcher"), ("exePath", "vt-launcher"), ("exePath", "/usr/bin/vt-launcher")] {
            w.set_rules(IMDS, item(field, value));
            sport = if sport >= 29999 { 20000 } else { sport + 1 };
            let rec = AuditRec::to(IMDS, who.uid, who.pid, false);
            let o = run_case(&w, sport, Some(&rec), "GET", "/a/x");
            exec_cases += 1;
            nontrivial.insert(format!("self-named|{field}|{value}"));
            if o.status != Ok(403) || o.bytes.iter().sum::<usize>() != 0 {
                res.violation(
                    "self-named-process-authorized",
                    &format!("pid {} (main thread exited, executable unreadable) calls itself 'vt-launcher'; rules grant {field}={value}: got {:?}, {:?} bytes upstream (expected 403, nothing upstream)", who.pid, o.status, o.bytes),
                    json!({"family": "self-named-process", "identity_by": field, "value": value}),
                );
            }
        }
    }
    res.cov("exec_between_connections_requests", exec_cases);

    // ---- family 6: the policy lookup fails (the key keeper shared-state task is gone: second listener of the real
    // server on a handle without actor): whatever the caller, URL and method, 500 and not one byte upstream
    let mut lookup_cases = 0u64;
    if replay.is_none() && !only_c03 {
        w.start_listener_without_key_keeper_actor(3081);
        for ep in [WS, HOSTGA, IMDS] {
            w.set_rules(ep, None);
        }
        for d in [Some(WS), Some(HOSTGA), Some(IMDS), None] {
            for who in [&whos[0], &whos[1]] {
                for url in ["/a/x", "/vmAgentLog", "/machine/?comp=telemetrydata", "/a/../b"] {
                    for method in methods {
                        sport = if sport >= 29999 { 20000 } else { sport + 1 };
                        let rec = d.map(|d| AuditRec::to(d, who.uid, who.pid, who.is_root));
                        let o = run_case_on(&w, 3081, sport, rec.as_ref(), method, url);
                        lookup_cases += 1;
                        nontrivial.insert(format!("lookup|{d:?}|{}|{url}|{method}", who.label));
                        let want: &[u16] = match d {
                            None if url.contains("..") => &[404, 421],
                            None => &[421],
                            Some(_) if url.contains("..") => &[404, 500],
                            Some(_) => &[500],
                        };
                        if !o.status.as_ref().map(|s| want.contains(s)).unwrap_or(false) || o.bytes.iter().sum::<usize>() != 0 {
                            res.violation(
                                "lookup-failure:not-refused",
                                &format!("policy lookup cannot succeed (key keeper task gone); {method} {url} to {d:?} by {}: got {:?}, {:?} bytes upstream (expected {want:?} and nothing upstream)", who.label, o.status, o.bytes),
                                json!({"family": "policy-lookup-failure", "dest": d, "who": who.label, "url": url, "method": method}),
                            );
                        }
                    }
                }
            }
        }
    }
    res.cov("policy_lookup_failure_requests", lookup_cases);

    // determinism gate: replay the first cases and demand identical observations
    let mut gate_ok = true;
    cur_policy = usize::MAX;
    for (ci, want) in &gate {
        let c = &cases[*ci];
        let pol = &pols[c.policy];
        if cur_policy != c.policy || cur_dest != c.dest {
            let under = c.dest.unwrap_or(IMDS);
            for ep in [WS, HOSTGA, IMDS] {
                let p = if ep == under { pol.clone() } else { contrast(pol) };
                w.set_rules(ep, p.to_item());
            }
            cur_policy = c.policy;
            cur_dest = c.dest;
        }
        let who = &whos[c.who];
        let rec = c.dest.map(|d| AuditRec::to(d, who.uid, who.pid, who.is_root));
        sport += 1;
        let obs = run_case(&w, sport, rec.as_ref(), c.method, c.url);
        if format!("{:?}{:?}{:?}", obs.status, obs.bytes, obs.reqs) != *want {
            gate_ok = false;
        }
    }
    if !gate_ok {
        vcommon::result::machinery("determinism gate failed: replaying the first cases gave different observations");
    }

    let panics = world::take_panics();
    for p in &panics {
        res.violation(&format!("panic:{}", p.split(" at=").nth(1).unwrap_or("?").split(' ').next().unwrap_or("?")), p, json!({"note": "panic while running the case product"}));
    }
    res.cov("evaluations", total as u64 + ka_cases + pair_cases + reuse_cases + exec_cases + lookup_cases);
    res.cov("distinct_nontrivial", nontrivial.len() as u64);
    res.cov("expected_relayed", relayed_n);
    res.cov("expected_refused", refused_n);
    res.cov("client_status_histogram", json!(status_hist));
    res.cov("determinism_gate_cases", gate.len() as u64);
    res.cov("exhaustive", true);
    res.cov(
        "rule",
        format!(
            "full product of {} destinations (incl. direct/no record, self, other) x {} callers (incl. one whose executable path and command line are not valid UTF-8 and one whose main thread has exited: executable and command line unreadable, self-chosen name readable) x {} rule sets (endpoint under test gets the set, the other endpoints a contrasting one) x {} URLs (incl. the two signature-exempt upload URLs) x 3 methods, one fresh TCP connection with a chosen source port and an injected kernel audit record each; plus every ordered pair of rule sets (A,B) applied A,B,A to one kept-alive attributed connection (policy in force at request time must decide); plus every ordered pair of records over uid (0,1001) x two pids x is_root (0,1) on two consecutive connections per endpoint (each connection is judged by its own record); plus a direct connection from the source port of 1 or 2 earlier attributed and served connections, 0 and 30 ms after them, per endpoint (must get 421, nothing upstream); plus a caller that makes 1 or 3 connections, exec()s another program in the same pid and connects again, under rules that grant the first or the second program by processName / exePath (each connection judged by the program running when it was made); plus 4 destinations x 2 callers x 4 URLs x 3 methods on a second listener of the real server whose key keeper handle has no actor behind it (every policy lookup fails: 500 or, for direct connections, 421, nothing upstream); non-trivial = the reference says the request must be refused (distinct (dest, caller, rule set, url) counted)",
            dests.len(), whos.len(), pols.len(), urls.len()
        ),
    );
    res.assume("attribution records are written into the real kernel audit_map by the harness in the layout of sock_addr_audit_entry (layout conformance with the kernel program is C06)");
    res.assume("the rule-lookup failure branch is reached through a key keeper handle without actor (guarded hook verif_without_actor); claims == None is unreachable on Linux and not exercised");
    std::process::exit(res.finish());
}
