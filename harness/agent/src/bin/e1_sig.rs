//! C04, canonicaliser half: bounded-exhaustive enumeration of requests through both signing
//! routes of the real code (hyper_client::build_request = the agent's own calls,
//! hyper_client::as_sig_input = the proxied route) against an independent HMAC and canonicaliser.
//!
//! Oracles
//!  (1) route agreement: the MAC build_request put into the request equals HMAC(key, as_sig_input(parts, body))
//!  (2) MAC == HMAC(key, reference canonical string of the request as it would go on the wire)
//!  (3) coverage: two requests that differ in a header instance / parameter never share the
//!      subject's canonical string (every header and every parameter is bound by the MAC)
//!  (4) should_skip_sig is true exactly for the two documented uploads (any letter case)

use gpa_harness::common::hyper_client;
use gpa_harness::verif::sigref;
use serde_json::json;
use std::collections::{BTreeSet, HashMap};
use std::sync::{Arc, Mutex};
use vcommon::result::{is_thorough, EngineResult};
use vcommon::sha;

const KEY: &str = "4A404E635266556A586E3272357538782F413F4428472B4B6250645367566B59";
const GUID: &str = "11111111-2222-3333-4444-555555555555";

#[derive(Clone, Debug)]
struct Case {
    method: &'static str,
    path: &'static str,
    query: Vec<String>, // raw segments, joined with '&'
    headers: Vec<(&'static str, &'static str)>,
    body: Option<&'static [u8]>,
}

impl Case {
    fn target(&self) -> String {
        if self.query.is_empty() {
            self.path.to_string()
        } else {
            format!("{}?{}", self.path, self.query.join("&"))
        }
    }
    fn json(&self) -> serde_json::Value {
        json!({"method": self.method, "target": self.target(), "headers": self.headers, "body": self.body.map(|b| String::from_utf8_lossy(b).to_string())})
    }
}

fn classify(c: &Case) -> &'static str {
    // which unusual feature of the request is involved (most specific first)
    let mut names: Vec<String> = c.headers.iter().map(|h| h.0.to_lowercase()).collect();
    names.sort();
    let dup_header = names.windows(2).any(|w| w[0] == w[1]);
    let pairs: Vec<(String, String)> = c
        .query
        .iter()
        .filter_map(|s| {
            let (k, v) = match s.find('=') {
                Some(i) => (&s[..i], &s[i + 1..]),
                None => (s.as_str(), ""),
            };
            if k.is_empty() {
                None
            } else {
                Some((k.to_lowercase(), v.to_string()))
            }
        })
        .collect();
    let mut exact_dup = false;
    let mut concat_collision = false;
    for i in 0..pairs.len() {
        for j in i + 1..pairs.len() {
            if pairs[i] == pairs[j] {
                exact_dup = true;
            } else if format!("{}{}", pairs[i].0, pairs[i].1) == format!("{}{}", pairs[j].0, pairs[j].1) {
                concat_collision = true;
            }
        }
    }
    if dup_header {
        "duplicate-header-name"
    } else if concat_collision {
        "param-key+value-collision"
    } else if exact_dup {
        "param-exact-duplicate"
    } else {
        "other"
    }
}

struct Out {
    evals: u64,
    signed: u64,
    viol: Vec<(String, String, serde_json::Value)>,
    // subject canonical digest -> (reference canonical digest, example)
    canon: HashMap<u64, (u64, serde_json::Value)>,
    distinct_ref: BTreeSet<u64>,
    by_ref: HashMap<u64, (u64, serde_json::Value)>,
}

fn run_case(c: &Case, out: &mut Out) {
    out.evals += 1;
    let url: hyper::Uri = match format!("http://168.63.129.16{}", c.target()).parse() {
        Ok(u) => u,
        Err(_) => return, // not a valid request target; cannot be sent
    };
    let mut hm: HashMap<String, String> = HashMap::new();
    for (n, v) in &c.headers {
        hm.insert(n.to_string(), v.to_string());
    }
    let method = hyper::Method::from_bytes(c.method.as_bytes()).unwrap();
    let req = match std::panic::catch_unwind(std::panic::AssertUnwindSafe(|| {
        hyper_client::build_request(method.clone(), &url, &hm, c.body, Some(GUID.to_string()), Some(KEY.to_string()))
    })) {
        Ok(Ok(r)) => r,
        Ok(Err(e)) => {
            out.viol.push(("build-request-error".into(), format!("build_request failed: {e}"), c.json()));
            return;
        }
        Err(_) => {
            out.viol.push(("build-request-panic".into(), "build_request panicked".into(), c.json()));
            return;
        }
    };
    let (parts, _body) = req.into_parts();
    // what goes on the wire: request target + headers of the built request
    let wire_target = parts.uri.to_string();
    let wire_headers: Vec<(String, Vec<u8>)> = parts.headers.iter().map(|(n, v)| (n.as_str().to_string(), v.as_bytes().to_vec())).collect();
    let authz: Vec<&(String, Vec<u8>)> = wire_headers.iter().filter(|h| h.0.eq_ignore_ascii_case(sigref::AUTHZ)).collect();
    // the client-supplied authorization header (if any) is appended before the agent's own; the
    // agent's is the last one
    let own = match authz.last() {
        Some(h) => String::from_utf8_lossy(&h.1).to_string(),
        None => {
            out.viol.push(("no-authorization-header".into(), "build_request with a key produced no authorization header".into(), c.json()));
            return;
        }
    };
    let (guid, mac) = match sigref::parse_authz(&own) {
        Some(x) => x,
        None => {
            out.viol.push(("malformed-authorization-header".into(), format!("authorization value {own:?}"), c.json()));
            return;
        }
    };
    out.signed += 1;
    if guid != GUID {
        out.viol.push(("wrong-key-id".into(), format!("key id {guid}"), c.json()));
    }
    let body = c.body.unwrap_or(b"");
    // (1) route agreement
    let subj = hyper_client::as_sig_input(parts.clone(), hyper::body::Bytes::copy_from_slice(body));
    let mac_b = sigref::mac_hex(KEY, &subj).unwrap();
    if mac_b != mac.to_lowercase() {
        out.viol.push((
            format!("routes-disagree:{}", classify(c)),
            "the MAC of build_request differs from HMAC(as_sig_input) for the same request".into(),
            c.json(),
        ));
    }
    // (2) structure of the subject's string-to-sign == reference (parameters as a multiset)
    let refc = sigref::canon_ref(c.method, body, &wire_headers, &wire_target);
    match sigref::canon_parse(&subj, body.len()) {
        None => out.viol.push(("string-to-sign-malformed".into(), format!("cannot parse the string-to-sign {:?}", String::from_utf8_lossy(&subj)), c.json())),
        Some(got) => {
            if got != refc {
                let part = if got.method != refc.method {
                    "method"
                } else if got.body != refc.body {
                    "body"
                } else if got.header_lines != refc.header_lines {
                    "headers"
                } else if got.path != refc.path {
                    "path"
                } else {
                    "parameters"
                };
                out.viol.push((
                    format!("mac-not-over-received-request:{}:{}", part, classify(c)),
                    format!(
                        "the string-to-sign does not contain exactly the {} of the request as sent; subject {:?}",
                        part,
                        String::from_utf8_lossy(&subj)
                    ),
                    c.json(),
                ));
            }
        }
    }
    // (3) one-to-one: requests with different content never share a string-to-sign (binding), and
    // requests with the same content (any parameter order / key case) always do (order independence).
    // Date-free strings (the date header changes with the clock).
    let strip = |v: &[u8]| -> Vec<u8> {
        let s = String::from_utf8_lossy(v).to_string();
        s.split('\n').filter(|l| !l.starts_with("x-ms-azure-host-date:")).collect::<Vec<_>>().join("\n").into_bytes()
    };
    let mut refd = refc.clone();
    refd.header_lines.retain(|l| !l.starts_with(b"x-ms-azure-host-date:"));
    let ds = vcommon::explore::fnv(&strip(&subj));
    let dr = vcommon::explore::fnv(format!("{:?}", refd).as_bytes());
    out.distinct_ref.insert(dr);
    match out.canon.get(&ds) {
        None => {
            let mut j = c.json();
            j["class"] = json!(classify(c));
            out.canon.insert(ds, (dr, j));
        }
        Some((prev, ex)) => {
            if *prev != dr {
                let excls = ex["class"].as_str().unwrap_or("other").to_string();
                let cls = if classify(c) != "other" { classify(c).to_string() } else { excls };
                out.viol.push((
                    format!("not-bound-by-mac:{}", cls),
                    "two requests that differ in a header or parameter share one string-to-sign".into(),
                    json!({"a": ex, "b": c.json()}),
                ));
            }
        }
    }
    match out.by_ref.get(&dr) {
        None => {
            let mut j = c.json();
            j["class"] = json!(classify(c));
            out.by_ref.insert(dr, (ds, j));
        }
        Some((prev, ex)) => {
            if *prev != ds {
                let excls = ex["class"].as_str().unwrap_or("other").to_string();
                let cls = if classify(c) != "other" { classify(c).to_string() } else { excls };
                out.viol.push((
                    format!("order-or-case-dependent-string:{}", cls),
                    "two requests with the same method, body, headers, path and parameter multiset get different strings-to-sign".into(),
                    json!({"a": ex, "b": c.json()}),
                ));
            }
        }
    }
}

fn main() {
    proxy_agent_shared::logger::logger_manager::set_logger_level(proxy_agent_shared::logger::LoggerLevel::Error);
    sha::selftest();
    let thorough = is_thorough();
    let mut res = EngineResult::new("C04");

    // python-independent cross-check of the own HMAC against the subject's dependency on one vector
    let own = sigref::mac_hex(KEY, b"Hello world").unwrap();
    let theirs = gpa_harness::common::helpers::compute_signature(KEY, b"Hello world").unwrap();
    if own != theirs {
        res.violation("compute-signature-differs", &format!("compute_signature {theirs} vs independent HMAC {own}"), json!({"input": "Hello world"}));
    }

    // secrets of every size the host may issue (the MAC is under the whole secret of the named key, whatever its size):
    // 8 .. 1024 bit, around the 256-bit habit and around the HMAC block size, through compute_signature and through the
    // request-building route
    let mut secret_shapes = 0u64;
    for nbytes in [1usize, 8, 16, 31, 32, 33, 48, 63, 64, 65, 96, 128] {
        for fill in 0..3u8 {
            let secret: String = (0..nbytes).map(|i| format!("{:02X}", (i as u8).wrapping_mul(37).wrapping_add(fill.wrapping_mul(91)).wrapping_add(1))).collect();
            for msg in [&b""[..], b"Hello world", b"GET\n\nhost:168.63.129.16\n/\n"] {
                secret_shapes += 1;
                let own = sigref::mac_hex(&secret, msg).unwrap();
                match gpa_harness::common::helpers::compute_signature(&secret, msg) {
                    Ok(t) if t.to_lowercase() == own => {}
                    Ok(t) => res.violation("mac-not-under-the-whole-secret", &format!("a secret of {nbytes} bytes: compute_signature gives {t}, HMAC-SHA256 under the whole secret is {own}"), json!({"family": "secret-shapes", "secret": secret, "message": String::from_utf8_lossy(msg)})),
                    Err(e) => res.violation("mac-not-under-the-whole-secret", &format!("a secret of {nbytes} bytes: compute_signature fails: {e}"), json!({"family": "secret-shapes", "secret": secret})),
                }
            }
            let url: hyper::Uri = "http://168.63.129.16/machine?comp=goalstate".parse().unwrap();
            let hm: HashMap<String, String> = HashMap::new();
            if let Ok(req) = hyper_client::build_request(hyper::Method::GET, &url, &hm, None, Some(GUID.to_string()), Some(secret.clone())) {
                secret_shapes += 1;
                let (parts, _b) = req.into_parts();
                let own_h = parts.headers.get_all(sigref::AUTHZ).iter().last().map(|v| String::from_utf8_lossy(v.as_bytes()).to_string()).unwrap_or_default();
                let subj = hyper_client::as_sig_input(parts.clone(), hyper::body::Bytes::new());
                let want = sigref::mac_hex(&secret, &subj).unwrap();
                match sigref::parse_authz(&own_h) {
                    Some((_g, mac)) if mac.to_lowercase() == want => {}
                    _ => res.violation("mac-not-under-the-whole-secret", &format!("a secret of {nbytes} bytes: the built request carries {own_h:?}, HMAC-SHA256 of its string-to-sign under the whole secret is {want}"), json!({"family": "secret-shapes", "secret": secret, "route": "build_request"})),
                }
            }
        }
    }
    res.cov("secret_shapes_checked", secret_shapes);

    let methods = ["GET", "POST", "PUT"];
    let paths = ["/", "/a", "/a%2Fb", "/A"];
    let keys = ["a", "ab", "A", "b"];
    let vals: [Option<&str>; 7] = [None, Some(""), Some("c"), Some("bc"), Some("%20"), Some("c=d"), Some("Yg==")];
    let mut pair_forms: Vec<String> = vec![String::new()]; // empty segment
    for k in keys {
        for v in vals {
            pair_forms.push(match v {
                None => k.to_string(),
                Some(v) => format!("{k}={v}"),
            });
        }
    }
    let maxq = if thorough { 3 } else { 2 };
    let mut queries: Vec<Vec<String>> = vec![vec![]];
    let mut layer: Vec<Vec<String>> = vec![vec![]];
    for _ in 0..maxq {
        let mut next = Vec::new();
        for q in &layer {
            for p in &pair_forms {
                let mut t = q.clone();
                t.push(p.clone());
                next.push(t);
            }
        }
        queries.extend(next.iter().cloned());
        layer = next;
    }
    // (x-a / x-a-b: one name is a prefix of the other and the next character sorts before ':')
    let hpool: [(&'static str, &'static str); 6] = [("x-a", "1"), ("X-A", "2"), ("x-b", " v "), ("x-ms-azure-host-authorization", "Azure-HMAC-SHA256 client forged"), ("X-C", ""), ("x-a-b", "3")];
    let mut hsets: Vec<Vec<(&'static str, &'static str)>> = Vec::new();
    for s in vcommon::explore::subsets_upto(hpool.len(), 3) {
        hsets.push(s.iter().map(|&i| hpool[i]).collect());
    }
    // one set per well-known header name a client may send (a canonicaliser that special-cases a name must show up)
    for h in [
        ("Expect", "100-continue"), ("Content-Type", "application/json"), ("Accept", "*/*"), ("User-Agent", "curl/8"), ("Connection", "keep-alive"),
        ("x-ms-version", "2012-11-30"), ("Metadata", "true"), ("If-Match", "*"), ("Range", "bytes=0-1"), ("Cookie", "a=b"), ("Authorization", "Bearer x"),
        ("Accept-Encoding", "gzip"), ("Cache-Control", "no-cache"), ("Pragma", "no-cache"), ("Origin", "http://x"), ("Referer", "http://x/y"),
        ("X-Forwarded-For", "10.0.0.1"), ("Via", "1.1 x"), ("TE", "trailers"), ("Upgrade", "h2c"), ("Content-Encoding", "identity"), ("Content-MD5", "abc"),
        ("Date", "Sat, 26 Sep 2026 00:00:00 GMT"), ("x-ms-client-request-id", "1"), ("x-ms-azure-host-foo", "bar"),
    ] {
        hsets.push(vec![h]);
    }
    let bodies: [Option<&'static [u8]>; 3] = [None, Some(b"x"), Some(b"x\ny:z")];

    let mut cases: Vec<Case> = Vec::new();
    for q in &queries {
        for m in methods {
            for p in paths {
                for h in &hsets {
                    for b in bodies {
                        if !thorough && q.len() == 2 && (h.len() > 1 || b.is_some() && m != "POST") {
                            continue; // quick: pair-of-parameters only with simple header sets
                        }
                        cases.push(Case { method: m, path: p, query: q.clone(), headers: h.clone(), body: b });
                    }
                }
            }
        }
    }
    // paths made of every character a path may legally carry besides letters and digits (one at a time, and all together):
    // the path is signed exactly as it is sent
    let mut odd_paths: Vec<&'static str> = Vec::new();
    let specials = "!$&'()*+,;=:@-._~|^[]{}\"`";
    for ch in specials.chars() {
        let p = format!("/m/p{ch}q/r{ch}");
        if p.parse::<hyper::Uri>().is_ok() {
            odd_paths.push(Box::leak(p.into_boxed_str()));
        }
    }
    for p in ["/machine/plugins(1)/status:latest;v=2,a@b", "/m/tagsList('a')!:*", "/a+b/c=d&e", "/%41%2f%7E/~x", "/a%zz"] {
        if p.parse::<hyper::Uri>().is_ok() {
            odd_paths.push(p);
        }
    }
    for p in &odd_paths {
        for m in ["GET", "POST"] {
            for q in [vec![], vec!["a=c".to_string()]] {
                for h in [vec![], vec![("x-a", "1")]] {
                    cases.push(Case { method: m, path: p, query: q.clone(), headers: h.clone(), body: if m == "POST" { Some(b"x") } else { None } });
                }
            }
        }
    }
    if let Ok(path) = std::env::var("VERIF_REPLAY") {
        let doc: serde_json::Value = serde_json::from_str(&std::fs::read_to_string(path).unwrap()).unwrap();
        let want = if doc["case"]["b"].is_object() { doc["case"]["b"].clone() } else { doc["case"].clone() };
        cases.retain(|c| c.json() == want || doc["case"]["a"] == c.json());
    }
    let total = cases.len();
    let cases = Arc::new(cases);
    let next = Arc::new(std::sync::atomic::AtomicUsize::new(0));
    let merged = Arc::new(Mutex::new(Vec::<Out>::new()));
    let nthreads = 16usize.min(std::thread::available_parallelism().map(|n| n.get()).unwrap_or(4));
    let mut hs = Vec::new();
    // shard by (method, path, headers, body) so that requests that can collide land in one shard:
    // a shard = all queries for one fixed rest-of-request
    for t in 0..nthreads {
        let cases = cases.clone();
        let merged = merged.clone();
        let _ = &next;
        hs.push(std::thread::spawn(move || {
            let mut out = Out { evals: 0, signed: 0, viol: Vec::new(), canon: HashMap::new(), distinct_ref: BTreeSet::new(), by_ref: HashMap::new() };
            for c in cases.iter() {
                let shard = vcommon::explore::fnv(format!("{}{}{:?}{:?}", c.method, c.path, c.headers, c.body).as_bytes()) as usize % nthreads;
                if shard == t {
                    run_case(c, &mut out);
                    if out.viol.len() > 5000 {
                        // keep first of each signature only
                        let mut seen = BTreeSet::new();
                        out.viol.retain(|v| seen.insert(v.0.clone()));
                    }
                }
            }
            merged.lock().unwrap().push(out);
        }));
    }
    for h in hs {
        h.join().expect("worker panicked");
    }
    let outs = std::mem::take(&mut *merged.lock().unwrap());
    let mut evals = 0;
    let mut signed = 0;
    let mut distinct = 0usize;
    let mut counts: std::collections::BTreeMap<String, u64> = Default::default();
    for o in outs {
        evals += o.evals;
        signed += o.signed;
        distinct += o.distinct_ref.len();
        for (sig, what, rp) in o.viol {
            *counts.entry(sig.clone()).or_insert(0) += 1;
            res.violation(&sig, &what, rp);
        }
    }

    // (4) exemption predicate
    let mut skip_evals = 0u64;
    for m in ["GET", "PUT", "POST", "DELETE"] {
        for u in [
            "/vmAgentLog", "/VMAGENTLOG", "/vmagentlog", "/vmAgentLog/", "/vmAgentLog?x=1", "/vmAgentLog?", "/x/vmAgentLog",
            "/machine/?comp=telemetrydata", "/MACHINE/?COMP=TelemetryData", "/machine?comp=telemetrydata", "/machine/?comp=telemetrydata&x=1",
            "/machine/?x=1&comp=telemetrydata", "/machine/?comp=telemetrydata2", "/machine/", "/",
        ] {
            skip_evals += 1;
            let uri: hyper::Uri = u.parse().unwrap();
            let got = hyper_client::should_skip_sig(&hyper::Method::from_bytes(m.as_bytes()).unwrap(), &uri);
            let want = (m == "PUT" && u.eq_ignore_ascii_case("/vmagentlog")) || (m == "POST" && u.eq_ignore_ascii_case("/machine/?comp=telemetrydata"));
            if got != want {
                res.violation(
                    &format!("exemption-predicate:{}", if got { "exempts-undocumented-request" } else { "signs-documented-upload" }),
                    &format!("should_skip_sig({m} {u}) = {got}, documented = {want}"),
                    json!({"method": m, "target": u}),
                );
            }
        }
    }

    res.cov("evaluations", evals + skip_evals);
    res.cov("distinct_nontrivial", distinct as u64);
    res.cov("requests_signed", signed);
    res.cov("exemption_predicate_cases", skip_evals);
    res.cov("exhaustive", true);
    res.cov("rule", format!(
        "every request over methods {methods:?} x paths {paths:?} x every sequence of <= {maxq} query segments from {} forms (4 keys incl. a prefix pair and a case pair x {{valueless, empty, c, bc, %20, c=d, Yg==}} + the empty segment) x every subset <= 3 of {} client headers (duplicate names via case, padded value, forged authorization header, empty value, a name that is a prefix of another) x 3 bodies{}; plus {} paths made of each character a path may carry besides letters and digits; distinct = distinct reference canonical strings", pair_forms.len(), hpool.len(), if thorough { "" } else { " (quick: two-parameter queries only with <= 1 client header)" }, odd_paths.len()));
    res.cov("total_cases", total as u64);
    res.sample(cases[total / 3].json());
    res.sample(cases[total - 1].json());
    res.assume("the relative order of parameters inside the string-to-sign is host contract and is not judged: parameters are compared as a multiset, plus independence from the order and key case in the request");
    std::process::exit(res.finish());
}
