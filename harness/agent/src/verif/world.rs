//! E2 "world": the real ProxyServer + shared-state actors + real BpfObject on real kernel maps,
//! mock metadata hosts on the real addresses, raw-socket clients with chosen source ports.
//! Must run inside bin/ns.

use crate::common::constants;
use crate::key_keeper::key::{AuthorizationItem, Key};
use crate::proxy::proxy_server::ProxyServer;
use crate::redirector::BpfObject;
use crate::shared_state::SharedState;
use aya::maps::Map;
use std::net::SocketAddr;
use std::os::fd::{AsFd, AsRawFd, RawFd};
use std::path::PathBuf;
use std::sync::{Arc, Mutex};
use std::time::Duration;
use vcommon::rawhttp::{self, Client, MockHost};

pub const WS: &str = "168.63.129.16:80";
pub const HOSTGA: &str = "168.63.129.16:32526";
pub const IMDS: &str = "169.254.169.254:80";
pub const OTHER: &str = "127.0.0.2:8081";
pub const PROXY: &str = "127.0.0.1:3080";

/// An attribution record as the kernel program writes it (layout of sock_addr_audit_entry).
#[derive(Clone, Copy, Debug, PartialEq, Eq)]
pub struct AuditRec {
    pub uid: u32,
    pub pid: u32,
    pub is_root: u32,
    pub dst_ip: [u8; 4],
    pub dst_port: u16,
}

impl AuditRec {
    pub fn to(dst: &str, uid: u32, pid: u32, is_root: bool) -> AuditRec {
        let sa: SocketAddr = dst.parse().unwrap();
        let ip = match sa {
            SocketAddr::V4(v) => v.ip().octets(),
            _ => unreachable!(),
        };
        AuditRec { uid, pid, is_root: is_root as u32, dst_ip: ip, dst_port: sa.port() }
    }
    fn value_bytes(&self) -> [u8; 20] {
        let mut v = [0u8; 20];
        v[0..4].copy_from_slice(&self.uid.to_ne_bytes());
        v[4..8].copy_from_slice(&self.pid.to_ne_bytes());
        v[8..12].copy_from_slice(&self.is_root.to_ne_bytes());
        v[12..16].copy_from_slice(&self.dst_ip); // network order, as ctx->user_ip4
        let p = (self.dst_port.to_be() as u32).to_ne_bytes(); // ctx->user_port: htons in the low half
        v[16..20].copy_from_slice(&p);
        v
    }
}

#[repr(C)]
struct BpfMapElemAttr {
    map_fd: u32,
    _pad: u32,
    key: u64,
    value: u64,
    flags: u64,
}

fn bpf_map_op(cmd: libc::c_long, fd: RawFd, key: *const u8, value: *mut u8) -> i64 {
    let attr = BpfMapElemAttr { map_fd: fd as u32, _pad: 0, key: key as u64, value: value as u64, flags: 0 };
    unsafe { libc::syscall(libc::SYS_bpf, cmd, &attr as *const _, std::mem::size_of::<BpfMapElemAttr>()) as i64 }
}

pub fn map_fd(bpf: &BpfObject, name: &str) -> RawFd {
    let m = bpf.get_bpf().map(name).unwrap_or_else(|| panic!("map {name} missing"));
    let md = match m {
        Map::HashMap(d) | Map::LruHashMap(d) => d,
        _ => panic!("unexpected map type for {name}"),
    };
    let fd = md.fd().as_fd().as_raw_fd();
    let d = unsafe { libc::dup(fd) };
    assert!(d >= 0);
    d
}

pub struct RawMap {
    pub fd: RawFd,
    pub key_size: usize,
    pub value_size: usize,
}

impl RawMap {
    pub fn update(&self, key: &[u8], value: &[u8]) -> bool {
        assert_eq!(key.len(), self.key_size);
        assert_eq!(value.len(), self.value_size);
        bpf_map_op(2, self.fd, key.as_ptr(), value.as_ptr() as *mut u8) == 0
    }
    pub fn lookup(&self, key: &[u8]) -> Option<Vec<u8>> {
        let mut v = vec![0u8; self.value_size];
        if bpf_map_op(1, self.fd, key.as_ptr(), v.as_mut_ptr()) == 0 {
            Some(v)
        } else {
            None
        }
    }
    pub fn delete(&self, key: &[u8]) -> bool {
        bpf_map_op(3, self.fd, key.as_ptr(), std::ptr::null_mut()) == 0
    }
    /// all (key, value) pairs, sorted by key
    pub fn dump(&self) -> Vec<(Vec<u8>, Vec<u8>)> {
        let mut out = Vec::new();
        let mut key = vec![0u8; self.key_size];
        let mut next = vec![0u8; self.key_size];
        let mut first = true;
        loop {
            let r = bpf_map_op(4, self.fd, if first { std::ptr::null() } else { key.as_ptr() }, next.as_mut_ptr());
            if r != 0 {
                break;
            }
            first = false;
            key.copy_from_slice(&next);
            if let Some(v) = self.lookup(&key) {
                out.push((key.clone(), v));
            }
            if out.len() > 10000 {
                break;
            }
        }
        out.sort();
        out
    }
}

pub fn audit_key(sport: u16) -> [u8; 8] {
    let mut k = [0u8; 8];
    k[0..4].copy_from_slice(&6u32.to_ne_bytes());
    k[4..8].copy_from_slice(&(sport as u32).to_ne_bytes());
    k
}

static PANICS: Mutex<Vec<String>> = Mutex::new(Vec::new());

/// Install a process-wide panic hook that records every panic (thread, location, message).
pub fn install_panic_recorder() {
    std::panic::set_hook(Box::new(|info| {
        let th = std::thread::current();
        let loc = info.location().map(|l| format!("{}:{}", l.file(), l.line())).unwrap_or_default();
        let msg = if let Some(s) = info.payload().downcast_ref::<&str>() {
            s.to_string()
        } else if let Some(s) = info.payload().downcast_ref::<String>() {
            s.clone()
        } else {
            "?".to_string()
        };
        let line = format!("thread={} at={} msg={}", th.name().unwrap_or("?"), loc, msg.chars().take(200).collect::<String>());
        eprintln!("PANIC-RECORDED: {line}");
        PANICS.lock().unwrap_or_else(|e| e.into_inner()).push(line);
    }));
}

pub fn take_panics() -> Vec<String> {
    std::mem::take(&mut *PANICS.lock().unwrap_or_else(|e| e.into_inner()))
}

pub fn ebpf_object_path() -> PathBuf {
    let t = std::env::var("VERIF_TARGET").unwrap_or_else(|_| "/verif/target".to_string());
    PathBuf::from(t).join("ebpf/ebpf_cgroup.o")
}

fn start_core_after(_f: impl Fn(), opts: &WorldOpts, w: &mut World) -> Core {
    // the old listener must be gone before the new one binds: shut the old runtime down first
    let placeholder = tokio::runtime::Builder::new_current_thread().build().unwrap();
    let old = std::mem::replace(&mut w.rt, placeholder);
    old.shutdown_timeout(Duration::from_millis(500));
    start_core(opts)
}

pub struct Hosts {
    pub ws: MockHost,
    pub hostga: MockHost,
    pub imds: MockHost,
    pub other: MockHost,
}

impl Hosts {
    pub fn start() -> Hosts {
        let mk = |n: &str, a: &str| MockHost::start(n, a).unwrap_or_else(|e| vcommon::result::machinery(&format!("cannot bind mock host {n} on {a}: {e} (not inside bin/ns?)")));
        Hosts { ws: mk("wireserver", WS), hostga: mk("hostga", HOSTGA), imds: mk("imds", IMDS), other: mk("other", OTHER) }
    }
    pub fn all(&self) -> [&MockHost; 4] {
        [&self.ws, &self.hostga, &self.imds, &self.other]
    }
    pub fn by_addr(&self, a: &str) -> Option<&MockHost> {
        self.all().into_iter().find(|h| h.addr.to_string() == a)
    }
    pub fn cursors(&self) -> [usize; 4] {
        [self.ws.cursor(), self.hostga.cursor(), self.imds.cursor(), self.other.cursor()]
    }
    pub fn bytes_since(&self, c: &[usize; 4]) -> usize {
        self.all().iter().zip(c.iter()).map(|(h, c)| h.bytes_since(*c)).sum()
    }
}

pub struct World {
    pub rt: tokio::runtime::Runtime,
    pub shared: SharedState,
    pub hosts: Hosts,
    pub bpf: Arc<std::sync::Mutex<BpfObject>>,
    pub audit: RawMap,
    pub policy: RawMap,
    pub skip: RawMap,
    children: Mutex<Vec<std::process::Child>>,
}

pub struct WorldOpts {
    pub log_level: proxy_agent_shared::logger::LoggerLevel,
    pub file_loggers: bool,
    pub worker_threads: usize,
}

impl Default for WorldOpts {
    fn default() -> Self {
        WorldOpts { log_level: proxy_agent_shared::logger::LoggerLevel::Warn, file_loggers: false, worker_threads: 2 }
    }
}

struct Core {
    rt: tokio::runtime::Runtime,
    shared: SharedState,
    bpf: Arc<std::sync::Mutex<BpfObject>>,
    audit: RawMap,
    policy: RawMap,
    skip: RawMap,
}

fn start_core(opts: &WorldOpts) -> Core {
    let rt = tokio::runtime::Builder::new_multi_thread().worker_threads(opts.worker_threads).thread_name("subject").enable_all().build().unwrap();
    let obj = ebpf_object_path();
    let bpf = match BpfObject::from_ebpf_file(&obj) {
        Ok(b) => b,
        Err(e) => vcommon::result::machinery(&format!("cannot load {}: {e}", obj.display())),
    };
    let audit = RawMap { fd: map_fd(&bpf, "audit_map"), key_size: 8, value_size: 20 };
    let policy = RawMap { fd: map_fd(&bpf, "policy_map"), key_size: 24, value_size: 24 };
    let skip = RawMap { fd: map_fd(&bpf, "skip_process_map"), key_size: 4, value_size: 4 };
    let bpf = Arc::new(std::sync::Mutex::new(bpf));
    let shared = rt.block_on(async { SharedState::start_all() });
    rt.block_on(async {
        let r = shared.get_redirector_shared_state();
        r.update_bpf_object(bpf.clone()).await.unwrap();
        r.set_local_port(constants::PROXY_AGENT_PORT).await.unwrap();
    });
    let server = ProxyServer::new(constants::PROXY_AGENT_PORT, &shared);
    rt.spawn(async move { server.start().await });
    let mut ok = false;
    for _ in 0..800 {
        if std::net::TcpStream::connect(PROXY).is_ok() {
            ok = true;
            break;
        }
        std::thread::sleep(Duration::from_millis(10));
    }
    if !ok {
        vcommon::result::machinery("proxy listener did not come up on 127.0.0.1:3080");
    }
    Core { rt, shared, bpf, audit, policy, skip }
}

impl World {
    pub fn start(opts: WorldOpts) -> World {
        use proxy_agent_shared::logger::{logger_manager, rolling_logger::RollingLogger};
        logger_manager::set_logger_level(opts.log_level);
        if opts.file_loggers {
            let dir = crate::common::config::get_logs_dir();
            let mut loggers = std::collections::HashMap::new();
            loggers.insert(
                crate::common::logger::AGENT_LOGGER_KEY.to_string(),
                RollingLogger::create_new(dir.clone(), "ProxyAgent.log".to_string(), constants::MAX_LOG_FILE_SIZE, constants::MAX_LOG_FILE_COUNT as u16),
            );
            loggers.insert(
                crate::proxy::proxy_connection::ConnectionLogger::CONNECTION_LOGGER_KEY.to_string(),
                RollingLogger::create_new(dir, "ProxyAgent.Connection.log".to_string(), constants::MAX_LOG_FILE_SIZE, constants::MAX_LOG_FILE_COUNT as u16),
            );
            logger_manager::set_loggers(loggers, crate::common::logger::AGENT_LOGGER_KEY.to_string());
        }
        let hosts = Hosts::start();
        let c = start_core(&opts);
        World { rt: c.rt, shared: c.shared, hosts, bpf: c.bpf, audit: c.audit, policy: c.policy, skip: c.skip, children: Mutex::new(Vec::new()) }
    }

    /// throw the subject away (all tasks, actors, listener) and start a fresh one; mock hosts and
    /// helper processes stay
    pub fn restart_subject(&mut self, opts: &WorldOpts) {
        self.shared.cancel_cancellation_token();
        std::thread::sleep(Duration::from_millis(20));
        let c = start_core_after(|| {}, opts, self);
        self.shared = c.shared;
        self.bpf = c.bpf;
        self.audit = c.audit;
        self.policy = c.policy;
        self.skip = c.skip;
        let old = std::mem::replace(&mut self.rt, c.rt);
        old.shutdown_background();
    }

    pub fn inject_audit(&self, sport: u16, rec: &AuditRec) {
        assert!(self.audit.update(&audit_key(sport), &rec.value_bytes()), "audit_map update failed");
    }
    pub fn audit_present(&self, sport: u16) -> bool {
        self.audit.lookup(&audit_key(sport)).is_some()
    }
    pub fn clear_audit(&self) {
        for (k, _) in self.audit.dump() {
            self.audit.delete(&k);
        }
    }

    /// connect to the proxy listener, optionally from a fixed source port with a record in place
    pub fn connect(&self, sport: Option<u16>, rec: Option<&AuditRec>) -> std::io::Result<Client> {
        if let (Some(p), Some(r)) = (sport, rec) {
            self.inject_audit(p, r);
        }
        let s = rawhttp::connect_from([127, 0, 0, 1], sport, PROXY.parse().unwrap())?;
        Ok(Client::new(s))
    }

    /// connect to another listener of the subject (see `start_listener_without_key_keeper_actor`)
    pub fn connect_port(&self, listener_port: u16, sport: Option<u16>, rec: Option<&AuditRec>) -> std::io::Result<Client> {
        if let (Some(p), Some(r)) = (sport, rec) {
            self.inject_audit(p, r);
        }
        let s = rawhttp::connect_from([127, 0, 0, 1], sport, SocketAddr::from(([127, 0, 0, 1], listener_port)))?;
        Ok(Client::new(s))
    }

    /// a second listener of the real proxy server whose key keeper handle has no actor behind it (hook
    /// `verif_without_actor`): every rule/key lookup of a request arriving there fails, everything else (attribution
    /// through the kernel map, the other shared states) is shared with the main listener
    pub fn start_listener_without_key_keeper_actor(&self, port: u16) {
        let shared = self.shared.verif_with_key_keeper(crate::shared_state::key_keeper_wrapper::KeyKeeperSharedState::verif_without_actor());
        let server = ProxyServer::new(port, &shared);
        self.rt.spawn(async move { server.start().await });
        for _ in 0..800 {
            if std::net::TcpStream::connect(("127.0.0.1", port)).is_ok() {
                return;
            }
            std::thread::sleep(Duration::from_millis(10));
        }
        vcommon::result::machinery(&format!("second proxy listener did not come up on 127.0.0.1:{port}"));
    }

    pub fn set_rules(&self, endpoint: &str, item: Option<AuthorizationItem>) {
        let kk = self.shared.get_key_keeper_shared_state();
        self.rt.block_on(async {
            match endpoint {
                WS => kk.set_wireserver_rules(item).await.unwrap(),
                HOSTGA => kk.set_hostga_rules(item).await.unwrap(),
                IMDS => kk.set_imds_rules(item).await.unwrap(),
                _ => panic!("no rules slot for {endpoint}"),
            }
        });
    }

    pub fn set_key(&self, key: Option<(&str, &str)>) {
        let kk = self.shared.get_key_keeper_shared_state();
        self.rt.block_on(async {
            match key {
                Some((guid, hexkey)) => kk.update_key(make_key(guid, hexkey)).await.unwrap(),
                None => kk.clear_key().await.unwrap(),
            }
        });
    }

    /// start a helper process (gives a real pid / exe path / command line); killed on drop
    pub fn spawn_proc(&self, exe_path: &str, args: &[&str], uid: Option<u32>) -> u32 {
        let a: Vec<&std::ffi::OsStr> = args.iter().map(std::ffi::OsStr::new).collect();
        self.spawn_proc_os(std::ffi::OsStr::new(exe_path), &a, uid)
    }

    /// like `spawn_proc`, with arbitrary bytes (not necessarily UTF-8) in the executable path and the arguments
    pub fn spawn_proc_os(&self, exe_path: &std::ffi::OsStr, args: &[&std::ffi::OsStr], uid: Option<u32>) -> u32 {
        use std::os::unix::process::CommandExt;
        let p = std::path::Path::new(exe_path);
        if !p.exists() {
            if let Some(d) = p.parent() {
                std::fs::create_dir_all(d).unwrap();
            }
            std::fs::copy("/bin/sleep", p).unwrap();
        }
        let mut cmd = std::process::Command::new(exe_path);
        cmd.args(args).stdin(std::process::Stdio::null()).stdout(std::process::Stdio::null());
        if let Some(u) = uid {
            cmd.uid(u);
        }
        let child = cmd.spawn().unwrap_or_else(|e| panic!("spawn {}: {e}", exe_path.to_string_lossy()));
        let pid = child.id();
        self.children.lock().unwrap().push(child);
        pid
    }
}

/// Call first thing in an engine's `main`: when the process was started by `World::spawn_leaderless` it names itself
/// (PR_SET_NAME), leaves one thread sleeping and ends its main thread only. The thread-group leader becomes a zombie
/// while the process lives on: `/proc/<pid>/exe` and `cmdline` can no longer be read, `comm` (chosen by the process
/// itself) can. Any program can arrange this.
pub fn leaderless_helper_if_requested() {
    if let Ok(name) = std::env::var("VERIF_LEADERLESS_HELPER") {
        let c = std::ffi::CString::new(name).unwrap();
        unsafe {
            // (started as root so that the engine binary can be executed wherever it lies; drops to the wanted user itself)
            if let Some(u) = std::env::var("VERIF_LEADERLESS_UID").ok().and_then(|u| u.parse::<u32>().ok()) {
                libc::setgid(u);
                libc::setuid(u);
            }
            libc::prctl(libc::PR_SET_NAME, c.as_ptr(), 0, 0, 0);
        }
        std::thread::spawn(|| loop {
            std::thread::sleep(Duration::from_secs(100_000));
        });
        std::thread::sleep(Duration::from_millis(20));
        unsafe {
            libc::syscall(libc::SYS_exit, 0);
        }
        unreachable!();
    }
}

impl World {
    /// a helper process whose main thread has exited (see `leaderless_helper_if_requested`); returns its pid
    pub fn spawn_leaderless(&self, comm: &str, uid: Option<u32>) -> u32 {
        let mut cmd = std::process::Command::new(std::env::current_exe().unwrap());
        cmd.env("VERIF_LEADERLESS_HELPER", comm).stdin(std::process::Stdio::null()).stdout(std::process::Stdio::null()).stderr(std::process::Stdio::null());
        if let Some(u) = uid {
            cmd.env("VERIF_LEADERLESS_UID", u.to_string());
        }
        let child = cmd.spawn().unwrap_or_else(|e| vcommon::result::machinery(&format!("spawn leaderless helper: {e}")));
        let pid = child.id();
        self.children.lock().unwrap().push(child);
        for _ in 0..2000 {
            let st = std::fs::read_to_string(format!("/proc/{pid}/stat")).unwrap_or_default();
            if st.contains(") Z ") {
                return pid;
            }
            std::thread::sleep(Duration::from_millis(1));
        }
        vcommon::result::machinery("the leaderless helper's main thread did not exit")
    }
}

impl World {
    /// kill and reap the helper processes started from this executable (families that start hundreds of them)
    pub fn reap_children_named(&self, exe_path: &str) {
        let mut ch = self.children.lock().unwrap();
        let mut keep = Vec::new();
        for mut c in ch.drain(..) {
            let is = std::fs::read_link(format!("/proc/{}/exe", c.id())).map(|p| p.to_string_lossy() == exe_path).unwrap_or(false);
            if is {
                let _ = c.kill();
                let _ = c.wait();
            } else {
                keep.push(c);
            }
        }
        *ch = keep;
    }
}

impl Drop for World {
    fn drop(&mut self) {
        for c in self.children.lock().unwrap().iter_mut() {
            let _ = c.kill();
            let _ = c.wait();
        }
    }
}

pub fn make_key(guid: &str, hexkey: &str) -> Key {
    serde_json::from_value(serde_json::json!({
        "authorizationScheme": "Azure-HMAC-SHA256",
        "guid": guid,
        "issued": "2026-01-01T00:00:00Z",
        "key": hexkey,
        "incarnationId": 1
    }))
    .unwrap()
}
