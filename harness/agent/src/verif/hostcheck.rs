//! What the mock host checks on a request it received (C04 / C05 / C10): proxy-owned headers and
//! the MAC, recomputed from the raw bytes with the independent canonicaliser and HMAC.

use super::sigref;
use std::collections::HashMap;
use vcommon::rawhttp::Msg;

pub const CLAIMS: &str = "x-ms-azure-host-claims";
pub const DATE: &str = "x-ms-azure-host-date";
pub const AUTHZ: &str = "x-ms-azure-host-authorization";

#[derive(Debug, Clone, PartialEq, Eq)]
pub enum SigVerdict {
    /// no authorization header at all
    Unsigned,
    /// exactly one header, verifies under the key registered for the announced id
    Valid { guid: String, modulo_framing: bool },
    /// anything else
    Bad(String),
}

fn concat_sorted_canonical(method: &str, body: &[u8], headers: &[(String, Vec<u8>)], target: &str) -> Vec<u8> {
    // same content as sigref::canonical but parameters ordered by key+value concatenation
    // (the relative order of parameters is host contract and is not judged)
    let c = sigref::canonical(method, body, headers, target);
    let (_, mut pairs) = sigref::split_target(target);
    pairs.sort_by_key(|p| format!("{}{}", p.0, p.1));
    let rendered: Vec<String> = pairs.iter().map(|(k, v)| if v.is_empty() { k.clone() } else { format!("{k}={v}") }).collect();
    let cut = c.iter().rposition(|b| *b == b'\n').map(|i| i + 1).unwrap_or(c.len());
    let mut out = c[..cut].to_vec();
    out.extend_from_slice(rendered.join("&").as_bytes());
    out
}

/// `keys`: guid -> hex secret. `client_sent`: lower-cased names of the headers the client sent
/// (framing headers the transport added on its own are tolerated when the client did not send them).
pub fn verify_signature(m: &Msg, keys: &HashMap<String, String>, client_sent: &[String]) -> SigVerdict {
    let authz = m.header_all(AUTHZ);
    if authz.is_empty() {
        return SigVerdict::Unsigned;
    }
    if authz.len() != 1 {
        return SigVerdict::Bad(format!("{} authorization headers", authz.len()));
    }
    let v = String::from_utf8_lossy(authz[0]).to_string();
    let (guid, mac) = match sigref::parse_authz(&v) {
        Some(x) => x,
        None => return SigVerdict::Bad(format!("malformed authorization value {v:?}")),
    };
    let key = match keys.get(&guid) {
        Some(k) => k,
        None => return SigVerdict::Bad(format!("unknown key id {guid}")),
    };
    let try_headers = |hs: &[(String, Vec<u8>)]| -> bool {
        for canon in [sigref::canonical(m.method(), &m.body, hs, m.target()), concat_sorted_canonical(m.method(), &m.body, hs, m.target())] {
            if sigref::mac_hex(key, &canon).map_or(false, |x| x.eq_ignore_ascii_case(&mac)) {
                return true;
            }
        }
        false
    };
    if try_headers(&m.headers) {
        return SigVerdict::Valid { guid, modulo_framing: false };
    }
    let reduced: Vec<(String, Vec<u8>)> = m
        .headers
        .iter()
        .filter(|(n, _)| {
            let l = n.to_lowercase();
            !((l == "content-length" || l == "transfer-encoding") && !client_sent.contains(&l))
        })
        .cloned()
        .collect();
    if reduced.len() != m.headers.len() && try_headers(&reduced) {
        return SigVerdict::Valid { guid, modulo_framing: true };
    }
    SigVerdict::Bad(format!("MAC does not verify under key {guid}"))
}

/// "Sat, 26 Sep 2026 23:06:53 GMT" -> unix seconds
pub fn parse_rfc1123(s: &str) -> Option<i64> {
    // IMF-fixdate (RFC 9110 5.6.7): fixed width, two-digit day, four-digit year, single spaces
    if s.len() != 29 || s.contains("  ") {
        return None;
    }
    let p: Vec<&str> = s.split(' ').collect();
    if p.len() != 6 || p[5] != "GMT" || !p[0].ends_with(',') || p[0].len() != 4 || p[1].len() != 2 || p[3].len() != 4 || p[4].len() != 8 {
        return None;
    }
    let day: i64 = p[1].parse().ok()?;
    let mon = ["Jan", "Feb", "Mar", "Apr", "May", "Jun", "Jul", "Aug", "Sep", "Oct", "Nov", "Dec"].iter().position(|m| *m == p[2])? as i64 + 1;
    let year: i64 = p[3].parse().ok()?;
    let t: Vec<&str> = p[4].split(':').collect();
    if t.len() != 3 {
        return None;
    }
    let (h, mi, sec): (i64, i64, i64) = (t[0].parse().ok()?, t[1].parse().ok()?, t[2].parse().ok()?);
    // days from civil (Howard Hinnant)
    let y = if mon <= 2 { year - 1 } else { year };
    let era = if y >= 0 { y } else { y - 399 } / 400;
    let yoe = y - era * 400;
    let doy = (153 * (if mon > 2 { mon - 3 } else { mon + 9 }) + 2) / 5 + day - 1;
    let doe = yoe * 365 + yoe / 4 - yoe / 100 + doy;
    let days = era * 146097 + doe - 719468;
    // the day name belongs to the date (1970-01-01 was a Thursday)
    let dow = ["Thu", "Fri", "Sat", "Sun", "Mon", "Tue", "Wed"][(days.rem_euclid(7)) as usize];
    if &p[0][..3] != dow || day < 1 || day > 31 || h > 23 || mi > 59 || sec > 60 {
        return None;
    }
    Some(days * 86400 + h * 3600 + mi * 60 + sec)
}

pub fn now_unix() -> i64 {
    std::time::SystemTime::now().duration_since(std::time::UNIX_EPOCH).unwrap().as_secs() as i64
}

/// C05: exactly one claims header stating the elevation of the attributed caller, exactly one date
/// header holding the proxy's current time; returns a list of problems (empty = fine)
pub fn check_owned_headers(m: &Msg, elevated: bool, t_before: i64, t_after: i64) -> Vec<(String, String)> {
    let mut bad = Vec::new();
    let claims = m.header_all(CLAIMS);
    if claims.len() != 1 {
        bad.push(("claims-count".to_string(), format!("{} claims headers reached the host: {:?}", claims.len(), claims.iter().map(|v| String::from_utf8_lossy(v).to_string()).collect::<Vec<_>>())));
    } else {
        let v = String::from_utf8_lossy(claims[0]).to_string();
        let want = format!("{{ \"isRoot\": \"{}\"}}", elevated);
        if v != want {
            bad.push(("claims-value".to_string(), format!("claims header {v:?}, expected {want:?}")));
        }
    }
    let dates = m.header_all(DATE);
    if dates.len() != 1 {
        bad.push(("date-count".to_string(), format!("{} date headers reached the host: {:?}", dates.len(), dates.iter().map(|v| String::from_utf8_lossy(v).to_string()).collect::<Vec<_>>())));
    } else {
        let v = String::from_utf8_lossy(dates[0]).to_string();
        match parse_rfc1123(&v) {
            None => bad.push(("date-format".to_string(), format!("date header {v:?} is not an RFC 1123 / IMF-fixdate date (fixed width, two-digit day, day name of that date)"))),
            Some(t) => {
                if t < t_before - 1 || t > t_after + 1 {
                    bad.push(("date-not-current".to_string(), format!("date header {v:?} is {}s away from the proxy's current time", if t < t_before { t_before - t } else { t - t_after })));
                }
            }
        }
    }
    bad
}
