//! Small rule-set builder + reference decision used by the end-to-end engines (C01, C03, C11).
//! The reference is the statement of C02 restricted to user-name identities.

use crate::key_keeper::key::AuthorizationItem;
use serde_json::json;

#[derive(Clone, Debug)]
pub struct Policy {
    pub label: &'static str,
    /// None = the host delivered no rule item for the endpoint
    pub mode: Option<&'static str>,
    pub default_allow: bool,
    /// privilege paths
    pub privs: Vec<&'static str>,
    /// (privilege index, user name) grants
    pub grants: Vec<(usize, &'static str)>,
}

impl Policy {
    pub fn none() -> Policy {
        Policy { label: "none", mode: None, default_allow: true, privs: vec![], grants: vec![] }
    }
    pub fn simple(label: &'static str, mode: &'static str, default_allow: bool) -> Policy {
        Policy { label, mode: Some(mode), default_allow, privs: vec![], grants: vec![] }
    }
    pub fn with(mut self, privs: &[&'static str], grants: &[(usize, &'static str)]) -> Policy {
        self.privs = privs.to_vec();
        self.grants = grants.to_vec();
        self
    }
    pub fn to_item(&self) -> Option<AuthorizationItem> {
        let mode = self.mode?;
        let privileges: Vec<_> = self.privs.iter().enumerate().map(|(i, p)| json!({"name": format!("p{i}"), "path": p})).collect();
        let roles: Vec<_> = self.privs.iter().enumerate().map(|(i, _)| json!({"name": format!("r{i}"), "privileges": [format!("p{i}")]})).collect();
        let mut users: Vec<&str> = self.grants.iter().map(|g| g.1).collect();
        users.sort();
        users.dedup();
        let identities: Vec<_> = users.iter().map(|u| json!({"name": format!("id-{u}"), "userName": u})).collect();
        let assignments: Vec<_> = self.grants.iter().map(|(pi, u)| json!({"role": format!("r{pi}"), "identities": [format!("id-{u}")]})).collect();
        Some(
            serde_json::from_value(json!({
                "defaultAccess": if self.default_allow { "allow" } else { "deny" },
                "mode": mode,
                "id": format!("id-{}", self.label),
                "rules": {"privileges": privileges, "roles": roles, "identities": identities, "roleAssignments": assignments}
            }))
            .unwrap(),
        )
    }
    pub fn disabled(&self) -> bool {
        match self.mode {
            None => true,
            Some(m) => m.eq_ignore_ascii_case("disabled"),
        }
    }
    pub fn enforce(&self) -> bool {
        self.mode.map_or(false, |m| m.eq_ignore_ascii_case("enforce"))
    }
    pub fn audit(&self) -> bool {
        self.mode.map_or(false, |m| m.eq_ignore_ascii_case("audit"))
    }
    /// the rules' allow/deny decision for (user, url path), per the statement of C02
    pub fn allows(&self, user: &str, url: &str) -> bool {
        if self.disabled() {
            return true;
        }
        let path = url.split('?').next().unwrap_or("").to_lowercase();
        let mut matched = false;
        for (i, p) in self.privs.iter().enumerate() {
            if path.starts_with(&p.to_lowercase()) {
                matched = true;
                if self.grants.iter().any(|(pi, u)| *pi == i && *u == user) {
                    return true;
                }
            }
        }
        if matched {
            false
        } else {
            self.default_allow
        }
    }
}
