//! Independent canonicaliser for the string-to-sign, written from the documented rule:
//!   Method \n Body \n (name:value \n)* Path \n k=v&k=v...
//! every header except the authorization header, names lower-cased, values trimmed, sorted by
//! name (then value); every query parameter, keys lower-cased, sorted by name then value,
//! valueless parameters rendered as the bare key.

pub const AUTHZ: &str = "x-ms-azure-host-authorization";

pub fn split_target(target: &str) -> (String, Vec<(String, String)>) {
    let mut s = target;
    if let Some(rest) = s.strip_prefix("http://") {
        s = match rest.find('/') {
            Some(i) => &rest[i..],
            None => "/",
        };
    }
    let (path, query) = match s.find('?') {
        Some(i) => (&s[..i], &s[i + 1..]),
        None => (s, ""),
    };
    let mut pairs = Vec::new();
    for seg in query.split('&') {
        let (k, v) = match seg.find('=') {
            Some(i) => (&seg[..i], &seg[i + 1..]),
            None => (seg, ""),
        };
        if k.is_empty() {
            continue;
        }
        pairs.push((k.to_lowercase(), v.to_string()));
    }
    (path.to_string(), pairs)
}

fn trim(v: &[u8]) -> &[u8] {
    let mut s = 0;
    let mut e = v.len();
    while s < e && (v[s] == b' ' || v[s] == b'\t') {
        s += 1;
    }
    while e > s && (v[e - 1] == b' ' || v[e - 1] == b'\t') {
        e -= 1;
    }
    &v[s..e]
}

pub fn canonical(method: &str, body: &[u8], headers: &[(String, Vec<u8>)], target: &str) -> Vec<u8> {
    let mut out = Vec::new();
    out.extend_from_slice(method.as_bytes());
    out.push(b'\n');
    out.extend_from_slice(body);
    out.push(b'\n');
    let mut hs: Vec<(String, Vec<u8>)> = headers
        .iter()
        .filter(|(n, _)| !n.eq_ignore_ascii_case(AUTHZ))
        .map(|(n, v)| (n.to_lowercase(), trim(v).to_vec()))
        .collect();
    hs.sort();
    for (n, v) in hs {
        out.extend_from_slice(n.as_bytes());
        out.push(b':');
        out.extend_from_slice(&v);
        out.push(b'\n');
    }
    let (path, mut pairs) = split_target(target);
    pairs.sort();
    out.extend_from_slice(path.as_bytes());
    out.push(b'\n');
    let rendered: Vec<String> = pairs.iter().map(|(k, v)| if v.is_empty() { k.clone() } else { format!("{k}={v}") }).collect();
    out.extend_from_slice(rendered.join("&").as_bytes());
    out
}

/// "scheme guid mac" -> (guid, mac)
pub fn parse_authz(v: &str) -> Option<(String, String)> {
    let mut it = v.split(' ');
    let scheme = it.next()?;
    let guid = it.next()?;
    let mac = it.next()?;
    if scheme != "Azure-HMAC-SHA256" || it.next().is_some() {
        return None;
    }
    Some((guid.to_string(), mac.to_string()))
}

pub fn mac_hex(hexkey: &str, canonical: &[u8]) -> Option<String> {
    let key = vcommon::sha::unhex(hexkey)?;
    Some(vcommon::sha::hex(&vcommon::sha::hmac_sha256(&key, canonical)))
}


/// Structured reference: what must be in the string-to-sign. The statement fixes the content
/// (every header, every parameter) but not the relative order of parameters, so parameters are
/// compared as a multiset and order-independence is checked separately (metamorphic).
#[derive(Clone, Debug, PartialEq, Eq, PartialOrd, Ord)]
pub struct Canon {
    pub method: String,
    pub body: Vec<u8>,
    pub header_lines: Vec<Vec<u8>>, // sorted
    pub path: String,
    pub params: Vec<String>, // sorted multiset of rendered parameters
}

pub fn canon_ref(method: &str, body: &[u8], headers: &[(String, Vec<u8>)], target: &str) -> Canon {
    let mut hs: Vec<Vec<u8>> = headers
        .iter()
        .filter(|(n, _)| !n.eq_ignore_ascii_case(AUTHZ))
        .map(|(n, v)| {
            let mut l = n.to_lowercase().into_bytes();
            l.push(b':');
            l.extend_from_slice(trim(v));
            l
        })
        .collect();
    // header lines are ordered by header NAME (the convention of Azure's canonicalised headers; a name that is a
    // prefix of another comes first, which a sort of whole "name:value" lines would get wrong because '-' < ':')
    hs.sort_by(|a, b| name_of(a).cmp(name_of(b)).then_with(|| a.cmp(b)));
    let (path, pairs) = split_target(target);
    let mut params: Vec<String> = pairs.iter().map(|(k, v)| if v.is_empty() { k.clone() } else { format!("{k}={v}") }).collect();
    params.sort();
    Canon { method: method.to_string(), body: body.to_vec(), header_lines: hs, path, params }
}

fn name_of(line: &[u8]) -> &[u8] {
    match line.iter().position(|b| *b == b':') {
        Some(i) => &line[..i],
        None => line,
    }
}

/// Parse a string-to-sign produced by the subject, knowing the body length.
pub fn canon_parse(s: &[u8], body_len: usize) -> Option<Canon> {
    let nl = s.iter().position(|b| *b == b'\n')?;
    let method = String::from_utf8_lossy(&s[..nl]).to_string();
    let bstart = nl + 1;
    if s.len() < bstart + body_len + 1 || s[bstart + body_len] != b'\n' {
        return None;
    }
    let body = s[bstart..bstart + body_len].to_vec();
    let rest = &s[bstart + body_len + 1..];
    let mut lines: Vec<&[u8]> = rest.split(|b| *b == b'\n').collect();
    if lines.len() < 2 {
        return None;
    }
    let params_line = String::from_utf8_lossy(lines.pop()?).to_string();
    let path = String::from_utf8_lossy(lines.pop()?).to_string();
    let mut header_lines: Vec<Vec<u8>> = lines.iter().map(|l| l.to_vec()).collect();
    let sorted_as_given = header_lines.clone();
    header_lines.sort_by(|a, b| name_of(a).cmp(name_of(b)).then_with(|| a.cmp(b)));
    if sorted_as_given.iter().map(|l| name_of(l)).collect::<Vec<_>>() != header_lines.iter().map(|l| name_of(l)).collect::<Vec<_>>() {
        return None; // header lines must be ordered by name
    }
    let mut params: Vec<String> = if params_line.is_empty() { vec![] } else { params_line.split('&').map(|x| x.to_string()).collect() };
    params.sort();
    Some(Canon { method, body, header_lines, path, params })
}
