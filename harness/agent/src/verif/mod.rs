//! Harness-side code that lives inside the linked-source crate (so it can name `crate::…`).
pub mod hostcheck;
pub mod policy;
pub mod sigref;
pub mod world;
