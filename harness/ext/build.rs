fn main() {
    // the harness always builds the extension sources with the verification hooks on
    println!("cargo::rustc-check-cfg=cfg(azure_guestproxyagent_verif)");
    println!("cargo::rustc-cfg=azure_guestproxyagent_verif");
}
