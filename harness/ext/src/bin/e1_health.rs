//! C20: extension health hysteresis and notification throttling. Every success/failure sequence
//! up to a length bound (and run-length families beyond the counters' saturation point) is
//! replayed on the real StatusState; every notification sequence over 2 keys x 2 values on the
//! real ServiceState. Oracle = the constraints of the statement, evaluated on every prefix.

use ext_harness::common::StatusState;
use ext_harness::constants;
use ext_harness::service_main::service_state::ServiceState;
use serde_json::json;
use std::collections::HashSet;
use vcommon::result::{is_thorough, EngineResult};

fn check_seq(seq: &[bool], res: &mut EngineResult, product_states: &mut HashSet<(String, u32, u32)>, transitions: &mut u64) {
    let mut st = StatusState::new();
    let mut f = 0u32; // current run of consecutive failures
    let mut s = 0u32; // current run of consecutive successes
    for (i, &ok) in seq.iter().enumerate() {
        if ok {
            s += 1;
            f = 0;
        } else {
            f += 1;
            s = 0;
        }
        let out = st.update_state(ok);
        *transitions += 1;
        product_states.insert((out.clone(), f.min(25), s.min(3)));
        let compact = || -> serde_json::Value {
            // run-length encoding of the prefix
            let mut runs: Vec<(bool, u32)> = Vec::new();
            for &b in &seq[..=i] {
                match runs.last_mut() {
                    Some(r) if r.0 == b => r.1 += 1,
                    _ => runs.push((b, 1)),
                }
            }
            json!({"observations_run_length": runs.iter().map(|r| json!([if r.0 { "success" } else { "failure" }, r.1])).collect::<Vec<_>>()})
        };
        if out == constants::ERROR_STATUS && f < 20 {
            res.violation(
                if ok { "error-directly-after-success" } else { "error-before-20-consecutive-failures" },
                &format!("Error reported after {} consecutive failure(s) (observation {} of the sequence)", f, i + 1),
                compact(),
            );
            return;
        }
        if ok && out == constants::ERROR_STATUS {
            res.violation("success-does-not-leave-error", "a successful observation left the report at Error", compact());
            return;
        }
        if s >= 2 && out != constants::SUCCESS_STATUS {
            res.violation("two-successes-not-success", &format!("after {} consecutive successes the report is {}", s, out), compact());
            return;
        }
        if out != constants::ERROR_STATUS && out != constants::SUCCESS_STATUS && out != constants::TRANSITIONING_STATUS {
            res.violation("unknown-status-string", &format!("status {:?}", out), compact());
            return;
        }
    }
}

fn main() {
    let thorough = is_thorough();
    let mut res = EngineResult::new("C20");
    let mut product_states: HashSet<(String, u32, u32)> = HashSet::new();
    let mut transitions = 0u64;
    let mut sequences = 0u64;

    // (1) every sequence up to length L: enumerate as binary numbers; a violation in a prefix is
    // reported once (simplest first because shorter lengths come first)
    let maxlen = if thorough { 22 } else { 16 };
    // lengths < maxlen are prefixes of length-maxlen sequences: checking every prefix of every
    // maxlen sequence covers them all
    let total: u64 = 1u64 << maxlen;
    let mut buf = vec![false; maxlen];
    for n in 0..total {
        for i in 0..maxlen {
            buf[i] = (n >> (maxlen - 1 - i)) & 1 == 1;
        }
        check_seq(&buf, &mut res, &mut product_states, &mut transitions);
        sequences += 1;
        if res.n_violations() > 0 && n > 4096 {
            break;
        }
    }
    // (1b) from non-initial states: every sequence of length L2 after each of these prefixes
    let l2 = if thorough { 16 } else { 12 };
    let mut prefixes: Vec<Vec<bool>> = vec![vec![false; 19], vec![false; 20], vec![false; 21]];
    let mut p = vec![false; 25];
    p.push(true);
    prefixes.push(p);
    let mut p2 = vec![false; 10001];
    p2.push(true);
    p2.extend(vec![false; 18]);
    prefixes.push(p2);
    for pre in &prefixes {
        for n in 0..(1u64 << l2) {
            let mut seq = pre.clone();
            for i in 0..l2 {
                seq.push((n >> (l2 - 1 - i)) & 1 == 1);
            }
            if pre.len() > 1000 && n % 64 != 0 {
                continue; // the long prefix is expensive: every 64th suffix
            }
            check_seq(&seq, &mut res, &mut product_states, &mut transitions);
            sequences += 1;
            if res.n_violations() > 0 && n > 4096 {
                break;
            }
        }
    }
    // (2) run-length families: up to 5 runs with lengths from a boundary set, starting with either outcome
    let lens: Vec<u32> = if thorough { vec![1, 2, 19, 20, 21, 9999, 10000, 10001] } else { vec![1, 2, 19, 20, 21, 10001] };
    let nruns = if thorough { 5 } else { 4 };
    let mut families = 0u64;
    let mut idx = vec![0usize; nruns];
    'outer: loop {
        for start in [false, true] {
            let total_len: u64 = idx.iter().map(|&i| lens[i] as u64).sum();
            if total_len <= 45000 {
                let mut seq: Vec<bool> = Vec::with_capacity(total_len as usize);
                let mut cur = start;
                for &i in &idx {
                    for _ in 0..lens[i] {
                        seq.push(cur);
                    }
                    cur = !cur;
                }
                check_seq(&seq, &mut res, &mut product_states, &mut transitions);
                families += 1;
            }
        }
        let mut k = nruns;
        loop {
            if k == 0 {
                break 'outer;
            }
            k -= 1;
            idx[k] += 1;
            if idx[k] < lens.len() {
                break;
            }
            idx[k] = 0;
        }
    }

    // (3) notifications: the throttle constant is the one the service uses
    let repo = std::env::var("VERIF_REPO").unwrap_or("/repo".into());
    let src = std::fs::read_to_string(format!("{repo}/proxy_agent_extension/src/service_main.rs")).unwrap_or_default();
    let max_count: u32 = src
        .lines()
        .find_map(|l| l.trim().strip_prefix("const MAX_STATE_COUNT: u32 = ").and_then(|r| r.trim_end_matches(';').trim().parse().ok()))
        .unwrap_or_else(|| vcommon::result::machinery("cannot find MAX_STATE_COUNT in service_main.rs"));
    let mut notif_seqs = 0u64;
    let mut check_notifs = |calls: &[(usize, usize)], res: &mut EngineResult| {
        let keys = ["k1", "k2"];
        let vals = ["A", "B"];
        let mut st = ServiceState::default();
        // reference: per key (last value, calls since the last emission of this unchanged value)
        let mut last: [Option<usize>; 2] = [None, None];
        let mut since: [u32; 2] = [0, 0];
        for (i, &(k, v)) in calls.iter().enumerate() {
            let emitted = st.update_service_state_entry(keys[k], vals[v], max_count);
            transitions += 1;
            let changed = last[k] != Some(v);
            let describe = || {
                let mut runs: Vec<(usize, usize, u32)> = Vec::new();
                for &(k, v) in &calls[..=i] {
                    match runs.last_mut() {
                        Some(r) if r.0 == k && r.1 == v => r.2 += 1,
                        _ => runs.push((k, v, 1)),
                    }
                }
                json!({"notifications_run_length": runs.iter().map(|r| json!([keys[r.0], vals[r.1], r.2])).collect::<Vec<_>>(), "max_count_used_by_service": max_count})
            };
            if changed {
                if !emitted {
                    res.violation("notification:change-not-emitted", &format!("call {}: first or changed value not emitted", i + 1), describe());
                    return;
                }
                since[k] = 0;
            } else if emitted {
                // an unchanged value may be re-emitted at most once per 120 repetitions
                if since[k] + 1 < 120 {
                    res.violation("notification:repeated-too-often", &format!("call {}: identical state re-emitted after only {} repetition(s)", i + 1, since[k] + 1), describe());
                    return;
                }
                since[k] = 0;
            } else {
                since[k] += 1;
            }
            last[k] = Some(v);
        }
    };
    // every sequence over 2 keys x 2 values to length 8
    let nl = if thorough { 9 } else { 7 };
    for len in 1..=nl {
        for seq in vcommon::explore::sequences(4, len) {
            let calls: Vec<(usize, usize)> = seq.iter().map(|&c| (c / 2, c % 2)).collect();
            check_notifs(&calls, &mut res);
            notif_seqs += 1;
        }
    }
    // run-length families on one and two keys
    let rl = [1u32, 2, 50, 119, 120, 121, 241];
    for &a in &rl {
        for &b in &rl {
            for &c in &rl {
                for other_key in [false, true] {
                    let mut calls = Vec::new();
                    for _ in 0..a {
                        calls.push((0, 0));
                    }
                    for _ in 0..b {
                        calls.push((if other_key { 1 } else { 0 }, 1));
                    }
                    for _ in 0..c {
                        calls.push((0, if other_key { 0 } else { 1 }));
                    }
                    for _ in 0..125 {
                        calls.push((0, 1));
                    }
                    check_notifs(&calls, &mut res);
                    notif_seqs += 1;
                }
            }
        }
    }

    res.cov("states", product_states.len() as u64);
    res.cov("transitions", transitions);
    res.cov("traces_validated_against_impl", sequences + families + notif_seqs);
    res.cov("health_sequences_exhaustive_to_length", maxlen as u64);
    res.cov("health_sequences", sequences);
    res.cov("health_run_length_families", families);
    res.cov("notification_sequences", notif_seqs);
    res.cov("exhaustive", true);
    res.cov("rule", format!("every success/failure sequence of length <= {maxlen}, every sequence of length {l2} after the prefixes F^19, F^20, F^21, F^25 S, F^10001 S F^18 (non-initial states; every 64th suffix for the last), and every alternating run-length family of {nruns} runs with lengths from {:?} (beyond the counters' saturation at 10000) on the real StatusState; every notification sequence over 2 keys x 2 values to length {nl} and run-length families with runs from {:?} on the real ServiceState with the service's own MAX_STATE_COUNT; states = (reported status, failure-run length capped at 25, success-run length capped at 3) pairs visited", lens, rl));
    res.sample(json!({"observations": "F x 20, S, F", "expected": "not Error after the last failure (run length 1)"}));
    res.sample(json!({"notifications": [["k1", "A", 50], ["k1", "B", 121]], "expected": "B emitted at call 51, not again before call 171"}));
    res.assume("MAX_STATE_COUNT is read from service_main.rs (private constant); the notification oracle demands >= 120 calls between two emissions of an unchanged value");
    std::process::exit(res.finish());
}
