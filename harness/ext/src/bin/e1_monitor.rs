//! C20 (second engine): the extension's monitor pass, i.e. the CALLERS of the health automaton and of the
//! notification throttle. Each pass the real `report_proxy_agent_aggregate_status` reads the agent's aggregate
//! status file (absent / written by another agent version / healthy) and the real
//! `report_proxy_agent_service_status` digests the outcome of the setup tool (could not be started / exit 1 /
//! exit 0); the reported status and the events actually written (the real event logger runs on a paused clock and
//! its files are read back after every pass) are judged by the statement: Error only after 20 consecutive failed
//! observations and never directly after a success, two successes give Success, and an identical notification is
//! emitted on change and then at most once per 120 repetitions.

use ext_harness::common::StatusState;
use ext_harness::constants;
use ext_harness::service_main::service_state::ServiceState;
use ext_harness::service_main::verif_access;
use ext_harness::structs::StatusObj;
use proxy_agent_shared::telemetry::event_logger;
use serde_json::{json, Value};
use std::collections::BTreeMap;
use std::os::unix::process::ExitStatusExt;
use std::path::PathBuf;
use std::time::Duration;
use vcommon::result::{is_thorough, EngineResult};

const STATUS_FILE: &str = "/var/log/azure-proxy-agent/status.json";
const EXT_VERSION: &str = "1.0.30";

#[derive(Clone, Copy, Debug, PartialEq, Eq)]
enum In {
    /// aggregate status file absent / unreadable
    Unreadable,
    /// aggregate status file present but not a JSON document (caught half-written, or damaged)
    Garbled,
    /// file of the expected version in which the agent reports its own overall state as ERROR (what it writes while key
    /// latch, redirector or listener are not running yet); whether that is a failed or a successful *health observation*
    /// the statement does not say: it counts as neither a success (nothing is demanded after it) nor as one of the 20
    /// failures... conservatively it does count towards the failures an Error report needs
    AgentSaysError,
    /// file written by another agent version
    Mismatch,
    /// file of the expected version
    Healthy,
    /// the setup tool could not be started
    SpawnErr,
    /// the setup tool exited with 1
    Exit1,
    /// the setup tool exited with 0
    Exit0,
}

impl In {
    /// a successful health observation is a readable status file of the expected version; the outcome of the setup
    /// tool is recorded by the service as a not-yet-healthy observation whatever its exit code (the agent has yet to
    /// report), so none of the three setup outcomes is demanded to count as a success
    fn success(self) -> bool {
        matches!(self, In::Healthy)
    }
}

fn status_doc(version: &str) -> String {
    status_doc_overall(version, "SUCCESS")
}

fn status_doc_overall(version: &str, overall: &str) -> String {
    let detail = json!({"status": "RUNNING", "message": "ok"});
    json!({
        "timestamp": "2026-01-01T00:00:00Z",
        "proxyAgentStatus": {"version": version, "status": overall, "monitorStatus": detail, "keyLatchStatus": detail, "ebpfProgramStatus": detail, "proxyListenerStatus": detail, "telemetryLoggerStatus": detail, "proxyConnectionsCount": 3},
        "proxyConnectionSummary": [],
        "failedAuthenticateSummary": []
    })
    .to_string()
}

struct Run {
    status: StatusObj,
    state: StatusState,
    svc: ServiceState,
    restored: bool,
    folder: PathBuf,
}

fn new_status() -> StatusObj {
    serde_json::from_value(json!({"name": "n", "operation": "o", "configurationAppliedTime": "", "status": "transitioning", "code": 0, "formattedMessage": {"lang": "en-US", "message": ""}, "substatus": []})).expect("StatusObj")
}

fn apply(run: &mut Run, i: In) {
    match i {
        In::Unreadable | In::Garbled | In::Mismatch | In::Healthy | In::AgentSaysError => {
            match i {
                In::AgentSaysError => std::fs::write(STATUS_FILE, status_doc_overall(EXT_VERSION, "ERROR")).unwrap(),
                In::Unreadable => {
                    let _ = std::fs::remove_file(STATUS_FILE);
                }
                In::Garbled => {
                    let doc = status_doc(EXT_VERSION);
                    std::fs::write(STATUS_FILE, &doc[..doc.len() / 2]).unwrap()
                }
                In::Mismatch => std::fs::write(STATUS_FILE, status_doc("9.9.9")).unwrap(),
                _ => std::fs::write(STATUS_FILE, status_doc(EXT_VERSION)).unwrap(),
            }
            verif_access::aggregate_status_pass(&EXT_VERSION.to_string(), &mut run.status, &mut run.state, &mut run.restored, &mut run.svc);
        }
        In::SpawnErr => verif_access::service_status_pass(Err(std::io::Error::new(std::io::ErrorKind::NotFound, "No such file or directory")), run.folder.clone(), "0", &mut run.status, &mut run.state),
        In::Exit1 | In::Exit0 => {
            let out = std::process::Output { status: std::process::ExitStatus::from_raw(if i == In::Exit1 { 256 } else { 0 }), stdout: b"out".to_vec(), stderr: vec![] };
            verif_access::service_status_pass(Ok(out), run.folder.clone(), "0", &mut run.status, &mut run.state)
        }
    }
}

/// events written since the last call (message texts), read from the event logger's files
async fn drain_events(dir: &std::path::Path) -> Vec<String> {
    tokio::time::sleep(Duration::from_millis(1100)).await;
    tokio::task::yield_now().await;
    let mut out = Vec::new();
    if let Ok(rd) = std::fs::read_dir(dir) {
        let mut files: Vec<PathBuf> = rd.flatten().map(|e| e.path()).filter(|p| p.extension().map_or(false, |x| x == "json")).collect();
        files.sort();
        for f in files {
            if let Ok(v) = serde_json::from_str::<Value>(&std::fs::read_to_string(&f).unwrap_or_default()) {
                for e in v.as_array().cloned().unwrap_or_default() {
                    out.push(e["Message"].as_str().unwrap_or("").to_string());
                }
            }
            let _ = std::fs::remove_file(&f);
        }
    }
    out
}

/// the class of a notification: its text without the parts that vary with the clock
fn class_of(m: &str) -> String {
    m.chars().filter(|c| !c.is_ascii_digit()).take(60).collect()
}

fn main() {
    let thorough = is_thorough();
    let mut res = EngineResult::new("C20");
    if std::fs::create_dir_all("/var/log/azure-proxy-agent").is_err() || !std::path::Path::new("/mnt/console").exists() {
        vcommon::result::machinery("this engine writes the agent's aggregate status file: it must run inside bin/ns");
    }
    // std::time::Instant of the subject is owned through an LD_PRELOAD shim on clock_gettime (the engine replaces itself by
    // itself under the shim once)
    let shim = vcommon::clockshim::reexec_under_shim(&format!("{}/run", std::env::var("VERIF_TARGET").unwrap_or("/verif/target".into())));
    let base = PathBuf::from(std::env::var("VERIF_TARGET").unwrap_or("/verif/target".into())).join(format!("run/c20-monitor-{}", std::process::id()));
    let _ = std::fs::remove_dir_all(&base);
    let ev_dir = base.join("events");
    std::fs::create_dir_all(&ev_dir).unwrap();
    std::fs::create_dir_all(base.join("status")).unwrap();
    std::fs::create_dir_all(base.join("logs")).unwrap();
    ext_harness::logger::init_logger(base.join("logs").to_string_lossy().to_string(), "ProxyAgentExtension.log");
    let rt = tokio::runtime::Builder::new_current_thread().enable_all().start_paused(true).build().unwrap();

    let alphabet_a = [In::Unreadable, In::Mismatch, In::Healthy, In::Garbled];
    let alphabet_b = [In::SpawnErr, In::Exit1, In::Exit0, In::Healthy, In::Unreadable];
    let mut seqs: Vec<Vec<In>> = Vec::new();
    let la = if thorough { 7 } else { 5 };
    for s in vcommon::explore::sequences(alphabet_a.len(), la) {
        seqs.push(s.iter().map(|&i| alphabet_a[i]).collect());
    }
    let lb = if thorough { 5 } else { 4 };
    for s in vcommon::explore::sequences(alphabet_b.len(), lb) {
        if s.iter().any(|&i| i < 3) {
            seqs.push(s.iter().map(|&i| alphabet_b[i]).collect());
        }
    }
    // run-length families: sustained conditions (throttle: 120) and failure runs around the threshold (20)
    for x in [In::Unreadable, In::Mismatch, In::Healthy, In::Garbled] {
        seqs.push(vec![x; 250]);
        for pre in [In::Healthy, In::Unreadable, In::Mismatch] {
            if pre != x {
                let mut v = vec![pre; 2];
                v.extend(vec![x; 125]);
                seqs.push(v);
            }
        }
    }
    for k in [18usize, 19, 20, 21, 25] {
        for f in [In::Unreadable, In::Garbled, In::Mismatch, In::SpawnErr, In::Exit1] {
            for after in [In::Healthy] {
                let mut v = vec![In::Healthy, In::Healthy];
                v.extend(vec![f; k]);
                v.push(after);
                v.push(f);
                v.push(after);
                v.push(after);
                seqs.push(v);
            }
        }
    }
    // alternations: a condition that comes and goes every pass, every second pass, every fifth pass (the notifications of
    // a state variable that did not change in between must stay throttled)
    for k in [1usize, 2, 5, 19, 25] {
        // the agent says ERROR for k passes after two healthy ones, then mixed with real failures
        let mut v = vec![In::Healthy, In::Healthy];
        v.extend(vec![In::AgentSaysError; k]);
        v.extend([In::Healthy, In::AgentSaysError, In::Unreadable, In::AgentSaysError, In::Healthy, In::Healthy]);
        seqs.push(v);
    }
    for (a, b) in [(In::Healthy, In::Unreadable), (In::Healthy, In::Garbled), (In::Mismatch, In::Unreadable), (In::Healthy, In::Mismatch), (In::Healthy, In::Exit1)] {
        for period in [1usize, 2, 5] {
            let mut v = Vec::new();
            for k in 0..30 {
                v.extend(vec![if k % 2 == 0 { a } else { b }; period]);
            }
            seqs.push(v);
        }
    }
    // passes that are not 15 s apart: the setup tool runs inside the monitor loop and may take minutes, the process may be
    // starved or frozen; seconds of monotonic time that pass before each pass (the statement counts observations, not time)
    let mut timed: BTreeMap<usize, Vec<u64>> = BTreeMap::new();
    for f in [In::Unreadable, In::Mismatch, In::Exit1, In::Garbled] {
        for (lead, gaps) in [(2usize, vec![400u64]), (0, vec![400]), (2, vec![15, 15, 330]), (2, vec![60; 19]), (0, vec![16; 19]), (2, vec![0, 0, 0, 0, 0, 301]), (2, vec![15, 15, 15, 15, 15, 15, 15, 15, 15, 15, 15, 15, 15, 15, 15, 15, 15, 15, 86400])] {
            let mut v = vec![In::Healthy; lead];
            let mut g = vec![15u64; lead];
            v.extend(vec![f; 19]);
            // the first failure follows 15 s after what was before it; the listed gaps precede the 2nd, 3rd, ... failure
            g.push(15);
            for k in 0..18 {
                g.push(*gaps.get(k).unwrap_or(&15));
            }
            v.extend([In::Healthy, In::Healthy]);
            g.extend([15, 15]);
            timed.insert(seqs.len(), g);
            seqs.push(v);
        }
    }
    let n_timed = timed.len() as u64;
    let (mut passes, mut events_seen) = (0u64, 0u64);
    let mut classes: BTreeMap<String, u64> = BTreeMap::new();
    rt.block_on(async {
        let d = ev_dir.clone();
        tokio::spawn(async move {
            event_logger::start(d, Duration::from_secs(1), 100000, |_s: String| async {}).await;
        });
        tokio::time::sleep(Duration::from_millis(10)).await;
        let _ = drain_events(&ev_dir).await;
        for (si, seq) in seqs.iter().enumerate() {
            let mut run = Run { status: new_status(), state: StatusState::new(), svc: ServiceState::default(), restored: true, folder: base.join("status") };
            let (mut fails, mut succ) = (0u32, 0u32);
            let mut ambiguous_since_success = false;
            let _ = &ambiguous_since_success;
            let mut run_in: Option<In> = None;
            let mut run_len = 0u32;
            let mut emitted_in_run: BTreeMap<String, u32> = BTreeMap::new();
            let short = seq.len() <= 8;
            // state variable -> (class of its last emitted notification, pass of that emission)
            let mut last_of_var: BTreeMap<&'static str, (String, usize)> = BTreeMap::new();
            for (pi, &i) in seq.iter().enumerate() {
                if let Some(g) = timed.get(&si) {
                    vcommon::clockshim::advance(g[pi]);
                }
                apply(&mut run, i);
                passes += 1;
                if i == In::AgentSaysError {
                    // neither demanded to be a success nor to break a run of failures
                    fails += 1;
                    succ = 0;
                    ambiguous_since_success = true;
                } else if i.success() {
                    succ += 1;
                    fails = 0;
                    ambiguous_since_success = false;
                } else {
                    fails += 1;
                    succ = 0;
                }
                let case = json!({"family": "monitor-pass", "sequence": if short { json!(seq.iter().map(|x| format!("{:?}", x)).collect::<Vec<_>>()) } else { json!(format!("{} passes, sequence #{si}", seq.len())) }, "pass": pi + 1, "input": format!("{:?}", i)});
                let reported = run.status.status.clone();
                if reported == constants::ERROR_STATUS && fails < 20 {
                    res.violation(if succ > 0 { "monitor:error-directly-after-success" } else { "monitor:error-before-20-failures" }, &format!("pass {}: the status reported after input {:?} is Error with {fails} consecutive failed observation(s)", pi + 1, i), case.clone());
                }
                if succ >= 2 && reported != constants::SUCCESS_STATUS {
                    res.violation("monitor:not-success-after-two-successes", &format!("pass {}: {succ} consecutive successes but the reported status is {reported:?}", pi + 1), case.clone());
                }
                // notifications: within a run of identical inputs every notification class is emitted at most once per 120 passes
                if run_in != Some(i) {
                    run_in = Some(i);
                    run_len = 0;
                    emitted_in_run.clear();
                }
                run_len += 1;
                // (reading the events back costs a tick of the paused clock: every pass of short sequences, every pass of long ones too)
                for m in drain_events(&ev_dir).await {
                    events_seen += 1;
                    if m.contains("Update Proxy Agent command") {
                        continue; // a plain event of the one-off update step, not a state notification
                    }
                    let c = class_of(&m);
                    *classes.entry(c.clone()).or_insert(0) += 1;
                    let n = emitted_in_run.entry(c.clone()).or_insert(0);
                    *n += 1;
                    let allowed = 1 + (run_len - 1) / 120;
                    // the two state variables of the aggregate pass: "the status file could be read" and "its version is the
                    // expected one"; a notification equal to the previous one of its variable is a repetition, not a change,
                    // and each variable is offered at most once per pass: fewer than 120 passes apart is too often
                    let var = if c.starts_with("Error in reading") || c.starts_with("Successfully read") { "status-file-read" } else { "file-version" };
                    if let Some((prev_c, prev_pass)) = last_of_var.get(var) {
                        if *prev_c == c && pi - *prev_pass < 120 && pi != *prev_pass {
                            res.violation("monitor:unchanged-notification-repeated", &format!("pass {}: the notification {:?} of state variable '{var}' was emitted again {} passes after its previous emission (pass {}) although no other notification of that variable came in between", pi + 1, c, pi - *prev_pass, *prev_pass + 1), case.clone());
                        }
                    }
                    last_of_var.insert(var, (c.clone(), pi));
                    if *n > allowed {
                        res.violation("monitor:notification-repeated-too-often", &format!("pass {} (the {run_len}th consecutive pass with input {:?}): the notification {:?} has now been emitted {} times in this run (at most {allowed} allowed)", pi + 1, i, c, *n), case.clone());
                    }
                }
            }
        }
    });
    // ---- service lives: the real monitor loop as the service starts it (guarded hook), each life from a status folder
    // that already holds a report for the current sequence number (written by the enable handler or by an earlier life:
    // none / transitioning / success / error), two passes per life over {status file absent, healthy, other version};
    // a life has seen at most a handful of observations, so it never reports Error
    let mut lives = 0u64;
    let mut life_outcomes: BTreeMap<String, u64> = BTreeMap::new();
    {
        let exe_dir = proxy_agent_shared::misc_helpers::get_current_exe_dir();
        let st_dir = base.join("status-lives");
        let _ = std::fs::create_dir_all(&st_dir);
        let henv = json!([{"version": 1.0, "handlerEnvironment": {"logFolder": base.join("logs").to_string_lossy(), "statusFolder": st_dir.to_string_lossy(), "configFolder": base.join("config").to_string_lossy(), "heartbeatFile": base.join("heartbeat.json").to_string_lossy(), "eventsFolder": ev_dir.to_string_lossy()}}]);
        std::fs::write(exe_dir.join(constants::HANDLER_ENVIRONMENT_FILE), henv.to_string()).unwrap();
        std::fs::write(exe_dir.join(constants::CURRENT_SEQ_NO_FILE), "7").unwrap();
        let status_of = |p: &std::path::Path| -> Option<String> { serde_json::from_str::<Value>(&std::fs::read_to_string(p).ok()?).ok()?[0]["status"]["status"].as_str().map(|s| s.to_string()) };
        let inputs = [In::Unreadable, In::Healthy, In::Mismatch];
        rt.block_on(async {
            for pre in [None, Some(constants::TRANSITIONING_STATUS), Some(constants::SUCCESS_STATUS), Some(constants::ERROR_STATUS)] {
                for a in inputs {
                    for b in inputs {
                        let file = st_dir.join("7.status");
                        let _ = std::fs::remove_file(&file);
                        if let Some(p) = pre {
                            ext_harness::common::report_status_enable_command(st_dir.clone(), "7", Some(p.to_string()));
                        }
                        let set_input = |i: In| match i {
                            In::Unreadable => {
                                let _ = std::fs::remove_file(STATUS_FILE);
                            }
                            In::Mismatch => std::fs::write(STATUS_FILE, status_doc("9.9.9")).unwrap(),
                            // (no agent package lies beside this binary and none is installed: both versions read as "")
                            _ => std::fs::write(STATUS_FILE, status_doc("")).unwrap(),
                        };
                        set_input(a);
                        let h = tokio::spawn(verif_access::monitor_loop());
                        let mut seen: Vec<String> = Vec::new();
                        for (pi, next) in [Some(b), None].iter().enumerate() {
                            tokio::time::sleep(Duration::from_secs(if pi == 0 { 1 } else { 15 })).await;
                            let st = status_of(&file).unwrap_or_else(|| "(no report)".into());
                            seen.push(st.clone());
                            passes += 1;
                            if st == constants::ERROR_STATUS {
                                res.violation("monitor:error-before-20-failures:after-service-start", &format!("a service that has just started (the status folder held {:?} for this sequence number) reports Error after pass {} (inputs {:?} then {:?}): it cannot have seen 20 consecutive failed observations", pre.unwrap_or("no report"), pi + 1, a, b), json!({"family": "service-lives", "report_before_start": pre, "inputs": [format!("{:?}", a), format!("{:?}", b)], "pass": pi + 1}));
                            }
                            if let Some(n) = next {
                                set_input(*n);
                            }
                        }
                        h.abort();
                        let _ = h.await;
                        lives += 1;
                        *life_outcomes.entry(format!("{:?}: {:?},{:?} -> {}", pre.unwrap_or("none"), a, b, seen.join(","))).or_insert(0) += 1;
                        let _ = drain_events(&ev_dir).await;
                    }
                }
            }
        });
        let _ = std::fs::remove_file(exe_dir.join(constants::HANDLER_ENVIRONMENT_FILE));
        let _ = std::fs::remove_file(exe_dir.join(constants::CURRENT_SEQ_NO_FILE));
    }
    let _ = std::fs::remove_dir_all(&base);
    let _ = std::fs::remove_file(STATUS_FILE);
    if !shim.is_empty() {
        let _ = std::fs::remove_file(&shim);
    }
    if events_seen == 0 {
        vcommon::result::machinery("no event was read back from the event logger: the notification oracle would be vacuous");
    }
    res.cov("monitor_sequences", seqs.len() as u64);
    res.cov("monitor_passes", passes);
    res.cov("service_lives", lives);
    res.cov("service_life_outcomes", json!(life_outcomes));
    res.cov("monitor_sequences_with_owned_time_between_passes", n_timed);
    res.cov("events_read_back", events_seen);
    res.cov("notification_classes", json!(classes));
    res.cov("evaluations", passes);
    res.cov("exhaustive", true);
    res.cov("monitor_rule", format!("every sequence of {la} monitor passes over {{status file absent, other version, healthy, present but not JSON}} and of {lb} passes over {{setup tool not startable, exit 1, exit 0, healthy, absent}}, sustained conditions of 250 passes and 125 passes after a change, failure runs of 18..25 passes of five kinds followed by successes, conditions alternating every 1/2/5 passes (30 phases), runs of 1..25 passes in which the agent's own overall state is ERROR in a file of the expected version; 19 failures of four kinds with 0 s .. 24 h of monotonic time (owned through an LD_PRELOAD shim on clock_gettime) between passes, e.g. 400 s after the first failure, 60 s between all, 301 s before the seventh; the real report_proxy_agent_aggregate_status / report_proxy_agent_service_status (through the guarded verif_access module) with the real event logger on a paused clock; plus 36 lives of the real monitor loop (guarded hook), each started on a status folder that already holds none / transitioning / success / error for the current sequence number, two passes each over {{absent, healthy, other version}}: a life never reports Error"));
    std::process::exit(res.finish());
}
