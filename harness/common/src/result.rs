//! Engine -> driver protocol. Every engine binary writes one JSON document to the path in
//! $VERIF_RESULT (or stdout). `bin/check` turns it into evidence, replay files and the
//! VIOLATION / KNOWN-FINDING lines; engines never decide about known findings themselves.

use serde_json::{json, Map, Value};
use std::collections::BTreeMap;
use std::time::Instant;

pub struct Violation {
    /// stable signature: site + input class; matched against known_findings.txt
    pub sig: String,
    pub what: String,
    /// self-contained minimal case, replayable with `bin/check <ID> --replay file`
    pub replay: Value,
}

pub struct EngineResult {
    pub property: String,
    start: Instant,
    pub coverage: Map<String, Value>,
    pub assumptions: Vec<String>,
    /// first violation per signature (simplest-first enumeration => shortest example) + count
    pub violations: BTreeMap<String, (Violation, u64)>,
    pub samples: Vec<Value>,
    pub max_samples: usize,
}

impl EngineResult {
    pub fn new(property: &str) -> Self {
        EngineResult {
            property: property.to_string(),
            start: Instant::now(),
            coverage: Map::new(),
            assumptions: Vec::new(),
            violations: BTreeMap::new(),
            samples: Vec::new(),
            max_samples: 6,
        }
    }
    pub fn cov<T: Into<Value>>(&mut self, k: &str, v: T) {
        self.coverage.insert(k.to_string(), v.into());
    }
    pub fn add(&mut self, k: &str, n: u64) {
        let cur = self.coverage.get(k).and_then(|v| v.as_u64()).unwrap_or(0);
        self.coverage.insert(k.to_string(), json!(cur + n));
    }
    pub fn assume(&mut self, s: &str) {
        self.assumptions.push(s.to_string());
    }
    pub fn sample(&mut self, v: Value) {
        if self.samples.len() < self.max_samples {
            self.samples.push(v);
        }
    }
    pub fn violation(&mut self, sig: &str, what: &str, replay: Value) {
        match self.violations.get_mut(sig) {
            Some(e) => e.1 += 1,
            None => {
                self.violations.insert(
                    sig.to_string(),
                    (Violation { sig: sig.to_string(), what: what.to_string(), replay }, 1),
                );
            }
        }
    }
    pub fn n_violations(&self) -> usize {
        self.violations.len()
    }
    pub fn to_json(&self) -> Value {
        let mut cov = self.coverage.clone();
        cov.insert("samples".into(), Value::Array(self.samples.clone()));
        json!({
            "property": self.property,
            "coverage": cov,
            "assumptions": self.assumptions,
            "wall_s": self.start.elapsed().as_secs_f64(),
            "violations": self.violations.values().map(|(v, n)| json!({
                "sig": v.sig, "what": v.what, "count": n, "replay": v.replay
            })).collect::<Vec<_>>(),
        })
    }
    /// write to $VERIF_RESULT (or stdout) and return the process exit code (always 0: the
    /// driver decides; engines exit non-zero only for machinery failures)
    pub fn finish(&self) -> i32 {
        let doc = serde_json::to_string_pretty(&self.to_json()).unwrap();
        match std::env::var("VERIF_RESULT") {
            Ok(p) if !p.is_empty() => {
                std::fs::write(&p, doc).expect("write VERIF_RESULT");
            }
            _ => println!("{doc}"),
        }
        0
    }
}

pub fn tier() -> String {
    std::env::var("VERIF_TIER").unwrap_or_else(|_| "quick".to_string())
}
pub fn is_thorough() -> bool {
    tier() == "thorough"
}
pub fn seed() -> u64 {
    std::env::var("VERIF_SEED").ok().and_then(|s| s.parse().ok()).unwrap_or(0)
}
/// machinery failure: print and exit 2
pub fn machinery(msg: &str) -> ! {
    eprintln!("MACHINERY-ERROR: {msg}");
    std::process::exit(2)
}
