//! Engine -> driver protocol. Every engine binary writes one JSON document to the path in
//! $VERIF_RESULT (or stdout). `bin/check` turns it into evidence, replay files and the
//! VIOLATION / KNOWN-FINDING lines; engines never decide about known findings themselves.

use serde_json::{json, Map, Value};
use std::collections::BTreeMap;
use std::time::SystemTime;

pub struct Violation {
    /// stable signature: site + input class; matched against known_findings.txt
    pub sig: String,
    pub what: String,
    /// self-contained minimal case, replayable with `bin/check <ID> --replay file`
    pub replay: Value,
}

pub struct EngineResult {
    pub property: String,
    start: SystemTime,
    pub coverage: Map<String, Value>,
    pub assumptions: Vec<String>,
    /// first violation per signature (simplest-first enumeration => shortest example) + count
    pub violations: BTreeMap<String, (Violation, u64)>,
    pub samples: Vec<Value>,
    pub max_samples: usize,
}

impl EngineResult {
    pub fn new(property: &str) -> Self {
        EngineResult {
            property: property.to_string(),
            start: SystemTime::now(),
            coverage: Map::new(),
            assumptions: Vec::new(),
            violations: BTreeMap::new(),
            samples: Vec::new(),
            max_samples: 6,
        }
    }
    pub fn cov<T: Into<Value>>(&mut self, k: &str, v: T) {
        self.coverage.insert(k.to_string(), v.into());
    }
    pub fn add(&mut self, k: &str, n: u64) {
        let cur = self.coverage.get(k).and_then(|v| v.as_u64()).unwrap_or(0);
        self.coverage.insert(k.to_string(), json!(cur + n));
    }
    pub fn assume(&mut self, s: &str) {
        self.assumptions.push(s.to_string());
    }
    pub fn sample(&mut self, v: Value) {
        if self.samples.len() < self.max_samples {
            self.samples.push(v);
        }
    }
    pub fn violation(&mut self, sig: &str, what: &str, replay: Value) {
        match self.violations.get_mut(sig) {
            Some(e) => e.1 += 1,
            None => {
                self.violations.insert(
                    sig.to_string(),
                    (Violation { sig: sig.to_string(), what: what.to_string(), replay }, 1),
                );
            }
        }
    }
    /// merge the result document of a worker process: numeric coverage is added, maps of numbers
    /// are added key-wise, booleans are AND-ed (keys starting with "exhaustive") or OR-ed, violations united
    pub fn merge_json(&mut self, other: &Value) {
        if let Some(cov) = other["coverage"].as_object() {
            for (k, v) in cov {
                if k == "samples" {
                    for s in v.as_array().cloned().unwrap_or_default() {
                        self.sample(s);
                    }
                    continue;
                }
                match (self.coverage.get(k).cloned(), v) {
                    (None, _) => {
                        self.coverage.insert(k.clone(), v.clone());
                    }
                    (Some(Value::Number(a)), Value::Number(b)) => {
                        let (x, y) = (a.as_u64().unwrap_or(0), b.as_u64().unwrap_or(0));
                        self.coverage.insert(k.clone(), json!(if k.starts_with("max_") { x.max(y) } else if k.starts_with("min_") { x.min(y) } else { x + y }));
                    }
                    (Some(Value::Bool(a)), Value::Bool(b)) => {
                        self.coverage.insert(k.clone(), json!(if k.starts_with("exhaustive") { a && *b } else { a || *b }));
                    }
                    (Some(Value::Object(mut a)), Value::Object(b)) => {
                        for (kk, vv) in b {
                            let cur = a.get(kk).and_then(|x| x.as_u64()).unwrap_or(0);
                            a.insert(kk.clone(), json!(cur + vv.as_u64().unwrap_or(0)));
                        }
                        self.coverage.insert(k.clone(), Value::Object(a));
                    }
                    _ => {}
                }
            }
        }
        for v in other["violations"].as_array().cloned().unwrap_or_default() {
            let sig = v["sig"].as_str().unwrap_or("?").to_string();
            let n = v["count"].as_u64().unwrap_or(1);
            match self.violations.get_mut(&sig) {
                Some(e) => e.1 += n,
                None => {
                    self.violations.insert(sig.clone(), (Violation { sig, what: v["what"].as_str().unwrap_or("").to_string(), replay: v["replay"].clone() }, n));
                }
            }
        }
        for a in other["assumptions"].as_array().cloned().unwrap_or_default() {
            if let Some(s) = a.as_str() {
                if !self.assumptions.iter().any(|x| x == s) {
                    self.assumptions.push(s.to_string());
                }
            }
        }
    }
    pub fn n_violations(&self) -> usize {
        self.violations.len()
    }
    pub fn to_json(&self) -> Value {
        let mut cov = self.coverage.clone();
        cov.insert("samples".into(), Value::Array(self.samples.clone()));
        json!({
            "property": self.property,
            "coverage": cov,
            "assumptions": self.assumptions,
            "wall_s": self.start.elapsed().map(|d| d.as_secs_f64()).unwrap_or(0.0),
            "violations": self.violations.values().map(|(v, n)| json!({
                "sig": v.sig, "what": v.what, "count": n, "replay": v.replay
            })).collect::<Vec<_>>(),
        })
    }
    /// write to $VERIF_RESULT (or stdout) and return the process exit code (always 0: the
    /// driver decides; engines exit non-zero only for machinery failures)
    pub fn finish(&self) -> i32 {
        let doc = serde_json::to_string_pretty(&self.to_json()).unwrap();
        match std::env::var("VERIF_RESULT") {
            Ok(p) if !p.is_empty() => {
                std::fs::write(&p, doc).expect("write VERIF_RESULT");
            }
            _ => println!("{doc}"),
        }
        0
    }
}

pub fn tier() -> String {
    std::env::var("VERIF_TIER").unwrap_or_else(|_| "quick".to_string())
}
pub fn is_thorough() -> bool {
    tier() == "thorough"
}
pub fn seed() -> u64 {
    std::env::var("VERIF_SEED").ok().and_then(|s| s.parse().ok()).unwrap_or(0)
}
/// machinery failure: print and exit 2
pub fn machinery(msg: &str) -> ! {
    eprintln!("MACHINERY-ERROR: {msg}");
    std::process::exit(2)
}


/// Run `n` copies of the current executable as workers (env VERIF_WORKER=i/n), each in its own
/// nested network + mount namespace prepared by `prep` (a shell snippet), and merge their results.
pub fn run_workers(res: &mut EngineResult, n: usize, prep: &str) {
    let exe = std::env::current_exe().unwrap();
    let base = std::env::var("VERIF_RESULT").unwrap_or_else(|_| "/verif/target/run/worker".to_string());
    let mut children = Vec::new();
    for i in 0..n {
        let out = format!("{base}.w{i}");
        let _ = std::fs::remove_file(&out);
        let script = format!("ip link set lo up; echo '52000 60999' > /proc/sys/net/ipv4/ip_local_port_range; echo 1 > /proc/sys/net/ipv4/tcp_tw_reuse; {prep} exec \"$0\"");
        let child = std::process::Command::new("unshare")
            .args(["-n", "-m", "--propagation", "private", "--", "/bin/sh", "-c", &script])
            .arg(&exe)
            .env("VERIF_WORKER", format!("{i}/{n}"))
            .env("VERIF_RESULT", &out)
            .spawn()
            .unwrap_or_else(|e| machinery(&format!("cannot start worker: {e}")));
        children.push((child, out));
    }
    for (mut c, out) in children {
        let st = c.wait().unwrap();
        if !st.success() {
            machinery(&format!("worker failed: {st}"));
        }
        let doc: Value = serde_json::from_str(&std::fs::read_to_string(&out).unwrap_or_else(|e| machinery(&format!("worker result {out}: {e}")))).unwrap();
        let _ = std::fs::remove_file(&out);
        res.merge_json(&doc);
    }
}

/// Some((i, n)) when this process is worker i of n
pub fn worker() -> Option<(usize, usize)> {
    let v = std::env::var("VERIF_WORKER").ok()?;
    let (a, b) = v.split_once('/')?;
    Some((a.parse().ok()?, b.parse().ok()?))
}

/// Supervision: the engine body runs in a child process, so that a death of the subject under test
/// (abort on allocation failure, stack overflow, SIGSEGV, `process::exit` deep inside it) is a finding
/// attributed to the case in progress instead of a machinery failure. The child runs the cases in
/// order, announces each one with `Supervised::begin`, and flushes its result document after every
/// case; when it dies the parent records `process-died:<kind>` for the announced case and starts a
/// new child right behind it.
pub struct Supervised {
    pub start: usize,
    progress: String,
}

impl Supervised {
    /// true when case `idx` was already handled by an earlier child
    pub fn done_before(&self, idx: usize) -> bool {
        idx < self.start
    }
    pub fn begin(&self, idx: usize, desc: &Value) {
        let _ = std::fs::write(&self.progress, json!({"idx": idx, "desc": desc}).to_string());
    }
}

pub fn supervise(property: &str) -> Supervised {
    if let Ok(v) = std::env::var("VERIF_SUPERVISED_CHILD") {
        return Supervised { start: v.parse().unwrap_or(0), progress: std::env::var("VERIF_SUPERVISED_PROGRESS").unwrap() };
    }
    use std::os::unix::process::ExitStatusExt;
    let exe = std::env::current_exe().unwrap();
    let base = std::env::var("VERIF_RESULT").unwrap_or_else(|_| "/verif/target/run/supervised".to_string());
    let (child_out, progress) = (format!("{base}.child"), format!("{base}.progress"));
    let mut res = EngineResult::new(property);
    let mut start = 0usize;
    let mut deaths = 0u64;
    loop {
        let _ = std::fs::remove_file(&child_out);
        let _ = std::fs::remove_file(&progress);
        let st = std::process::Command::new(&exe)
            .env("VERIF_SUPERVISED_CHILD", start.to_string())
            .env("VERIF_SUPERVISED_PROGRESS", &progress)
            .env("VERIF_RESULT", &child_out)
            .status()
            .unwrap_or_else(|e| machinery(&format!("cannot start the supervised engine: {e}")));
        if let Ok(txt) = std::fs::read_to_string(&child_out) {
            if let Ok(doc) = serde_json::from_str::<Value>(&txt) {
                res.merge_json(&doc);
            }
        }
        if st.success() {
            break;
        }
        if st.code() == Some(2) {
            std::process::exit(2); // the child reported a machinery failure itself
        }
        let p: Value = std::fs::read_to_string(&progress).ok().and_then(|t| serde_json::from_str(&t).ok()).unwrap_or_else(|| machinery(&format!("supervised engine died ({st}) before announcing a case")));
        let idx = p["idx"].as_u64().unwrap_or(0) as usize;
        let kind = p["desc"]["kind"].as_str().unwrap_or("?").to_string();
        let how = match st.signal() {
            Some(s) => format!("killed by signal {s}"),
            None => format!("exited with status {:?}", st.code()),
        };
        res.violation(&format!("process-died:{kind}"), &format!("the whole agent process died ({how}) during this case"), p["desc"].clone());
        deaths += 1;
        if deaths > 40 {
            res.cov("exhaustive", false);
            res.cov("supervision_gave_up_after_deaths", deaths);
            break;
        }
        start = idx + 1;
    }
    res.cov("subject_process_deaths", deaths);
    let _ = std::fs::remove_file(&child_out);
    let _ = std::fs::remove_file(&progress);
    std::process::exit(res.finish());
}
