//! Minimal raw-socket HTTP/1.1 client and mock host, independent of hyper (the subject's
//! HTTP stack), so that what the subject puts on the wire is observed byte for byte.

use std::io::{Read, Write};
use std::net::{SocketAddr, TcpListener, TcpStream};
use std::os::fd::{FromRawFd, IntoRawFd};
use std::sync::{Arc, Mutex};
use std::time::{Duration, Instant};

#[derive(Clone, Debug, Default)]
pub struct Msg {
    /// request: method / response: version
    pub a: String,
    /// request: target / response: status code text
    pub b: String,
    /// request: version / response: reason
    pub c: String,
    /// header lines in wire order, name as received, value bytes trimmed of optional blanks
    pub headers: Vec<(String, Vec<u8>)>,
    pub body: Vec<u8>,
    /// sizes of the chunks when the body was chunked, None otherwise
    pub chunks: Option<Vec<usize>>,
    /// exact bytes of start line + header block (incl. final CRLFCRLF)
    pub raw_head: Vec<u8>,
    /// bodies above BIG_BODY are not retained: length and SHA-256 only
    pub body_len: usize,
    pub body_sha: Option<[u8; 32]>,
}

/// bodies larger than this are replaced by their digest in the mock host's log
pub const BIG_BODY: usize = 4 << 20;

impl Msg {
    pub fn method(&self) -> &str {
        &self.a
    }
    pub fn target(&self) -> &str {
        &self.b
    }
    pub fn status(&self) -> u16 {
        self.b.parse().unwrap_or(0)
    }
    pub fn header_all(&self, name: &str) -> Vec<&[u8]> {
        self.headers
            .iter()
            .filter(|(n, _)| n.eq_ignore_ascii_case(name))
            .map(|(_, v)| v.as_slice())
            .collect()
    }
    pub fn header(&self, name: &str) -> Option<String> {
        self.header_all(name).first().map(|v| String::from_utf8_lossy(v).to_string())
    }
}

pub enum Parse {
    Incomplete,
    Malformed(String),
    Complete(Msg, usize),
}

fn find(hay: &[u8], needle: &[u8], from: usize) -> Option<usize> {
    if hay.len() < needle.len() + from {
        return None;
    }
    (from..=hay.len() - needle.len()).find(|&i| &hay[i..i + needle.len()] == needle)
}

fn trim(v: &[u8]) -> &[u8] {
    let mut s = 0;
    let mut e = v.len();
    while s < e && (v[s] == b' ' || v[s] == b'\t') {
        s += 1;
    }
    while e > s && (v[e - 1] == b' ' || v[e - 1] == b'\t') {
        e -= 1;
    }
    &v[s..e]
}

/// Parse one message from the front of `buf`.
/// `is_response`: status line instead of request line. `no_body`: response to HEAD / 204 / 304.
/// `eof`: the peer closed (enables close-delimited response bodies).
pub fn parse(buf: &[u8], is_response: bool, head_request: bool, eof: bool) -> Parse {
    let he = match find(buf, b"\r\n\r\n", 0) {
        Some(i) => i + 4,
        None => return Parse::Incomplete,
    };
    let head = &buf[..he];
    let mut lines = head[..he - 4].split(|b| *b == b'\n').map(|l| {
        if l.ends_with(b"\r") {
            &l[..l.len() - 1]
        } else {
            l
        }
    });
    let start = match lines.next() {
        Some(l) => String::from_utf8_lossy(l).to_string(),
        None => return Parse::Malformed("no start line".into()),
    };
    let mut it = start.splitn(3, ' ');
    let a = it.next().unwrap_or("").to_string();
    let b = it.next().unwrap_or("").to_string();
    let c = it.next().unwrap_or("").to_string();
    let mut headers = Vec::new();
    for l in lines {
        if l.is_empty() {
            continue;
        }
        match l.iter().position(|c| *c == b':') {
            Some(p) => headers.push((
                String::from_utf8_lossy(&l[..p]).to_string(),
                trim(&l[p + 1..]).to_vec(),
            )),
            None => return Parse::Malformed(format!("bad header line {:?}", String::from_utf8_lossy(l))),
        }
    }
    let mut m = Msg { a, b, c, headers, body: Vec::new(), chunks: None, raw_head: head.to_vec(), body_len: 0, body_sha: None };
    let te = m.header("transfer-encoding").unwrap_or_default().to_ascii_lowercase();
    let cl = m.header("content-length");
    if is_response {
        let st = m.status();
        if head_request || st / 100 == 1 || st == 204 || st == 304 {
            return Parse::Complete(m, he);
        }
    }
    if te.contains("chunked") {
        let mut pos = he;
        let mut sizes = Vec::new();
        loop {
            let le = match find(buf, b"\r\n", pos) {
                Some(i) => i,
                None => return Parse::Incomplete,
            };
            let line = String::from_utf8_lossy(&buf[pos..le]).to_string();
            let sz = match usize::from_str_radix(line.split(';').next().unwrap_or("").trim(), 16) {
                Ok(s) => s,
                Err(_) => return Parse::Malformed(format!("bad chunk size {:?}", line)),
            };
            pos = le + 2;
            if sz == 0 {
                // trailers until empty line
                loop {
                    let le = match find(buf, b"\r\n", pos) {
                        Some(i) => i,
                        None => return Parse::Incomplete,
                    };
                    let empty = le == pos;
                    pos = le + 2;
                    if empty {
                        break;
                    }
                }
                m.chunks = Some(sizes);
                return Parse::Complete(m, pos);
            }
            if buf.len() < pos + sz + 2 {
                return Parse::Incomplete;
            }
            m.body.extend_from_slice(&buf[pos..pos + sz]);
            sizes.push(sz);
            pos += sz + 2;
        }
    } else if let Some(cl) = cl {
        let n: usize = match cl.trim().parse() {
            Ok(n) => n,
            Err(_) => return Parse::Malformed(format!("bad content-length {:?}", cl)),
        };
        if buf.len() < he + n {
            return Parse::Incomplete;
        }
        m.body = buf[he..he + n].to_vec();
        Parse::Complete(m, he + n)
    } else if is_response {
        if eof {
            m.body = buf[he..].to_vec();
            Parse::Complete(m, buf.len())
        } else {
            Parse::Incomplete
        }
    } else {
        Parse::Complete(m, he)
    }
}

// ------------------------------------------------------------------------------------------
// client

/// Open a TCP connection, optionally from a chosen source port. SO_REUSEADDR is set and
/// SO_LINGER is 0 so that closing resets the connection and the port is reusable at once.
pub fn connect_from(src_ip: [u8; 4], src_port: Option<u16>, dst: SocketAddr) -> std::io::Result<TcpStream> {
    unsafe {
        let fd = libc::socket(libc::AF_INET, libc::SOCK_STREAM | libc::SOCK_CLOEXEC, 0);
        if fd < 0 {
            return Err(std::io::Error::last_os_error());
        }
        let one: libc::c_int = 1;
        libc::setsockopt(fd, libc::SOL_SOCKET, libc::SO_REUSEADDR, &one as *const _ as *const _, 4);
        let lg = libc::linger { l_onoff: 1, l_linger: 0 };
        libc::setsockopt(
            fd,
            libc::SOL_SOCKET,
            libc::SO_LINGER,
            &lg as *const _ as *const _,
            std::mem::size_of::<libc::linger>() as u32,
        );
        libc::setsockopt(fd, libc::IPPROTO_TCP, libc::TCP_NODELAY, &one as *const _ as *const _, 4);
        if let Some(p) = src_port {
            let sa = libc::sockaddr_in {
                sin_family: libc::AF_INET as u16,
                sin_port: p.to_be(),
                sin_addr: libc::in_addr { s_addr: u32::from_ne_bytes(src_ip) },
                sin_zero: [0; 8],
            };
            if libc::bind(fd, &sa as *const _ as *const _, std::mem::size_of::<libc::sockaddr_in>() as u32) != 0 {
                let e = std::io::Error::last_os_error();
                libc::close(fd);
                return Err(e);
            }
        }
        let (ip, port) = match dst {
            SocketAddr::V4(v4) => (v4.ip().octets(), v4.port()),
            _ => panic!("ipv4 only"),
        };
        let da = libc::sockaddr_in {
            sin_family: libc::AF_INET as u16,
            sin_port: port.to_be(),
            sin_addr: libc::in_addr { s_addr: u32::from_ne_bytes(ip) },
            sin_zero: [0; 8],
        };
        if libc::connect(fd, &da as *const _ as *const _, std::mem::size_of::<libc::sockaddr_in>() as u32) != 0 {
            let e = std::io::Error::last_os_error();
            libc::close(fd);
            return Err(e);
        }
        Ok(TcpStream::from_raw_fd(fd))
    }
}

pub struct Client {
    pub stream: TcpStream,
    buf: Vec<u8>,
    eof: bool,
}

impl Client {
    pub fn new(stream: TcpStream) -> Self {
        Client { stream, buf: Vec::new(), eof: false }
    }
    pub fn local_port(&self) -> u16 {
        self.stream.local_addr().map(|a| a.port()).unwrap_or(0)
    }
    pub fn send(&mut self, bytes: &[u8]) -> std::io::Result<()> {
        self.stream.write_all(bytes)
    }
    /// Send a large request in pieces; stop as soon as the peer has started to answer (a server may
    /// refuse a body it has not read). Write errors are not fatal: the response is read afterwards.
    /// Returns the number of bytes actually written.
    pub fn send_watchful(&mut self, bytes: &[u8]) -> usize {
        let mut sent = 0usize;
        let _ = self.stream.set_write_timeout(Some(Duration::from_secs(20)));
        while sent < bytes.len() {
            // anything to read already?
            let _ = self.stream.set_nonblocking(true);
            let mut tmp = [0u8; 4096];
            let got = self.stream.read(&mut tmp);
            let _ = self.stream.set_nonblocking(false);
            match got {
                Ok(0) => {
                    self.eof = true;
                    break;
                }
                Ok(n) => {
                    self.buf.extend_from_slice(&tmp[..n]);
                    break;
                }
                Err(e) if e.kind() == std::io::ErrorKind::WouldBlock => {}
                Err(_) => {
                    self.eof = true;
                    break;
                }
            }
            let end = (sent + (256 << 10)).min(bytes.len());
            match self.stream.write(&bytes[sent..end]) {
                Ok(0) => break,
                Ok(n) => sent += n,
                Err(_) => break,
            }
        }
        sent
    }
    /// Read one response. Err(text) on timeout / reset / malformed.
    pub fn read_response(&mut self, head_request: bool, timeout: Duration) -> Result<Msg, String> {
        let deadline = Instant::now() + timeout;
        loop {
            match parse(&self.buf, true, head_request, self.eof) {
                Parse::Complete(m, used) => {
                    // skip interim 1xx responses
                    self.buf.drain(..used);
                    if m.status() / 100 == 1 {
                        continue;
                    }
                    return Ok(m);
                }
                Parse::Malformed(e) => return Err(format!("malformed response: {e}")),
                Parse::Incomplete => {}
            }
            if self.eof {
                return Err(format!("connection closed with {} unparsed bytes", self.buf.len()));
            }
            let now = Instant::now();
            if now >= deadline {
                return Err(format!("timeout with {} buffered bytes", self.buf.len()));
            }
            let _ = self.stream.set_read_timeout(Some((deadline - now).max(Duration::from_millis(1))));
            quickack(&self.stream);
            let mut tmp = [0u8; 65536];
            match self.stream.read(&mut tmp) {
                Ok(0) => self.eof = true,
                Ok(n) => self.buf.extend_from_slice(&tmp[..n]),
                Err(e) if e.kind() == std::io::ErrorKind::WouldBlock || e.kind() == std::io::ErrorKind::TimedOut => {}
                Err(e) => {
                    self.eof = true;
                    if self.buf.is_empty() {
                        return Err(format!("read error: {e}"));
                    }
                }
            }
        }
    }
    /// close with RST (linger 0 was set at connect)
    pub fn close(self) {
        drop(self);
    }
}

pub fn build_request(method: &str, target: &str, headers: &[(&str, &[u8])], body: Option<&[u8]>, chunked: Option<&[usize]>) -> Vec<u8> {
    let mut out = Vec::new();
    out.extend_from_slice(format!("{method} {target} HTTP/1.1\r\n").as_bytes());
    for (n, v) in headers {
        out.extend_from_slice(n.as_bytes());
        out.extend_from_slice(b": ");
        out.extend_from_slice(v);
        out.extend_from_slice(b"\r\n");
    }
    match (body, chunked) {
        (Some(b), Some(sizes)) => {
            out.extend_from_slice(b"Transfer-Encoding: chunked\r\n\r\n");
            let mut pos = 0;
            let mut i = 0;
            while pos < b.len() {
                let sz = if sizes.is_empty() { b.len() } else { sizes[i % sizes.len()].max(1) };
                let end = (pos + sz).min(b.len());
                out.extend_from_slice(format!("{:x}\r\n", end - pos).as_bytes());
                out.extend_from_slice(&b[pos..end]);
                out.extend_from_slice(b"\r\n");
                pos = end;
                i += 1;
            }
            out.extend_from_slice(b"0\r\n\r\n");
        }
        (Some(b), None) => {
            out.extend_from_slice(format!("Content-Length: {}\r\n\r\n", b.len()).as_bytes());
            out.extend_from_slice(b);
        }
        (None, _) => out.extend_from_slice(b"\r\n"),
    }
    out
}

// ------------------------------------------------------------------------------------------
// mock host

#[derive(Clone, Debug)]
pub enum Event {
    Open { conn: usize },
    Bytes { conn: usize, n: usize },
    Request { conn: usize, idx: usize, req: Msg },
    Malformed { conn: usize, why: String },
    Close { conn: usize },
}

pub enum Action {
    /// write these segments (flushed separately, with a short pause in between when more than one)
    Reply(Vec<Vec<u8>>),
    /// reply then close the connection
    ReplyClose(Vec<Vec<u8>>),
    /// close at once without answering (RST)
    Reset,
    /// never answer, keep the connection
    Hang,
}

pub type Responder = Arc<dyn Fn(&Msg, usize, usize) -> Action + Send + Sync>;

#[derive(Clone)]
pub struct MockHost {
    pub name: String,
    pub addr: SocketAddr,
    events: Arc<Mutex<Vec<Event>>>,
    responder: Arc<Mutex<Responder>>,
}

pub fn simple_response(status: u16, headers: &[(&str, &str)], body: &[u8]) -> Vec<u8> {
    let mut out = format!("HTTP/1.1 {status} X\r\n").into_bytes();
    for (n, v) in headers {
        out.extend_from_slice(format!("{n}: {v}\r\n").as_bytes());
    }
    out.extend_from_slice(format!("Content-Length: {}\r\n\r\n", body.len()).as_bytes());
    out.extend_from_slice(body);
    out
}

impl MockHost {
    pub fn start(name: &str, addr: &str) -> std::io::Result<MockHost> {
        let listener = TcpListener::bind(addr)?;
        let host = MockHost {
            name: name.to_string(),
            addr: listener.local_addr()?,
            events: Arc::new(Mutex::new(Vec::new())),
            responder: Arc::new(Mutex::new(Arc::new(|_m: &Msg, _c: usize, _i: usize| {
                Action::Reply(vec![simple_response(200, &[], b"ok")])
            }))),
        };
        let h = host.clone();
        std::thread::Builder::new()
            .name(format!("mock-{name}"))
            .spawn(move || {
                let mut next = 0usize;
                for s in listener.incoming() {
                    let s = match s {
                        Ok(s) => s,
                        Err(_) => continue,
                    };
                    let conn = next;
                    next += 1;
                    let h = h.clone();
                    std::thread::spawn(move || h.serve(conn, s));
                }
            })?;
        Ok(host)
    }

    pub fn set_responder(&self, r: Responder) {
        *self.responder.lock().unwrap() = r;
    }

    fn push(&self, e: Event) {
        self.events.lock().unwrap().push(e);
    }

    fn serve(&self, conn: usize, mut s: TcpStream) {
        self.push(Event::Open { conn });
        let _ = s.set_nodelay(true);
        let mut buf: Vec<u8> = Vec::new();
        let mut idx = 0usize;
        let mut tmp = vec![0u8; 1 << 16];
        'outer: loop {
            quickack(&s);
            match s.read(&mut tmp) {
                Ok(0) | Err(_) => break,
                Ok(n) => {
                    buf.extend_from_slice(&tmp[..n]);
                    self.push(Event::Bytes { conn, n });
                }
            }
            loop {
                match parse(&buf, false, false, false) {
                    Parse::Incomplete => break,
                    Parse::Malformed(why) => {
                        self.push(Event::Malformed { conn, why });
                        break 'outer;
                    }
                    Parse::Complete(mut m, used) => {
                        buf.drain(..used);
                        m.body_len = m.body.len();
                        if m.body.len() > BIG_BODY {
                            m.body_sha = Some(crate::sha::sha256(&m.body));
                            m.body = Vec::new();
                        }
                        self.push(Event::Request { conn, idx, req: m.clone() });
                        let r = self.responder.lock().unwrap().clone();
                        let act = r(&m, conn, idx);
                        idx += 1;
                        match act {
                            Action::Reply(segs) => {
                                if !write_segments(&mut s, &segs) {
                                    break 'outer;
                                }
                            }
                            Action::ReplyClose(segs) => {
                                write_segments(&mut s, &segs);
                                let _ = s.shutdown(std::net::Shutdown::Both);
                                break 'outer;
                            }
                            Action::Reset => {
                                let fd = s.into_raw_fd();
                                unsafe {
                                    let lg = libc::linger { l_onoff: 1, l_linger: 0 };
                                    libc::setsockopt(
                                        fd,
                                        libc::SOL_SOCKET,
                                        libc::SO_LINGER,
                                        &lg as *const _ as *const _,
                                        std::mem::size_of::<libc::linger>() as u32,
                                    );
                                    libc::close(fd);
                                }
                                self.push(Event::Close { conn });
                                return;
                            }
                            Action::Hang => {}
                        }
                    }
                }
            }
        }
        self.push(Event::Close { conn });
    }

    /// connections accepted and not yet closed (their serving threads are still alive)
    pub fn open_connections(&self) -> usize {
        let ev = self.events.lock().unwrap();
        let mut n: isize = 0;
        for e in ev.iter() {
            match e {
                Event::Open { .. } => n += 1,
                Event::Close { .. } => n -= 1,
                _ => {}
            }
        }
        n.max(0) as usize
    }
    /// forget the event log (keeps memory bounded in long explorations); only when no connection is open
    pub fn truncate_log(&self) {
        self.events.lock().unwrap().clear();
    }
    /// position in the event log; pass to `since`
    pub fn cursor(&self) -> usize {
        self.events.lock().unwrap().len()
    }
    pub fn since(&self, cursor: usize) -> Vec<Event> {
        self.events.lock().unwrap()[cursor..].to_vec()
    }
    pub fn bytes_since(&self, cursor: usize) -> usize {
        self.since(cursor)
            .iter()
            .map(|e| if let Event::Bytes { n, .. } = e { *n } else { 0 })
            .sum()
    }
    pub fn requests_since(&self, cursor: usize) -> Vec<(usize, Msg)> {
        self.since(cursor)
            .into_iter()
            .filter_map(|e| if let Event::Request { conn, req, .. } = e { Some((conn, req)) } else { None })
            .collect()
    }
}

/// avoid 40 ms delayed-ACK stalls against peers that do not set TCP_NODELAY
pub fn quickack(s: &TcpStream) {
    use std::os::fd::AsRawFd;
    let one: libc::c_int = 1;
    unsafe {
        libc::setsockopt(s.as_raw_fd(), libc::IPPROTO_TCP, libc::TCP_QUICKACK, &one as *const _ as *const _, 4);
    }
}

fn write_segments(s: &mut TcpStream, segs: &[Vec<u8>]) -> bool {
    for (i, seg) in segs.iter().enumerate() {
        if i > 0 {
            std::thread::sleep(Duration::from_millis(3));
        }
        if s.write_all(seg).is_err() {
            return false;
        }
        let _ = s.flush();
    }
    true
}
