pub mod explore;
pub mod rawhttp;
pub mod result;
pub mod sha;
pub mod clockshim;
