//! Owned monotonic time: an LD_PRELOAD shim on `clock_gettime` whose monotonic offset the engine advances
//! (`std::time::Instant` of the subject reads it). Built with gcc at check time.
use std::os::unix::process::CommandExt;

pub const SHIM_C: &str = r#"#define _GNU_SOURCE
#include <time.h>
#include <dlfcn.h>
static long mono_off;
void vt_clock_advance(long s) { __atomic_add_fetch(&mono_off, s, __ATOMIC_SEQ_CST); }
long vt_clock_offset(void) { return __atomic_load_n(&mono_off, __ATOMIC_SEQ_CST); }
int clock_gettime(clockid_t c, struct timespec *ts) {
    static int (*real)(clockid_t, struct timespec *);
    if (!real) real = (int (*)(clockid_t, struct timespec *))dlsym(RTLD_NEXT, "clock_gettime");
    int r = real(c, ts);
    if (r == 0 && (c == CLOCK_MONOTONIC || c == CLOCK_MONOTONIC_RAW || c == CLOCK_MONOTONIC_COARSE || c == CLOCK_BOOTTIME))
        ts->tv_sec += vt_clock_offset();
    return r;
}
"#;

/// builds the shim into `<dir>/monoclock.<pid>.so`
pub fn build(dir: &str) -> String {
    let _ = std::fs::create_dir_all(dir);
    let c = format!("{dir}/monoclock.{}.c", std::process::id());
    let so = format!("{dir}/monoclock.{}.so", std::process::id());
    std::fs::write(&c, SHIM_C).unwrap();
    let o = std::process::Command::new("gcc").args(["-shared", "-fPIC", "-O1", "-o", &so, &c, "-ldl"]).output().unwrap_or_else(|e| crate::result::machinery(&format!("gcc: {e}")));
    let _ = std::fs::remove_file(&c);
    if !o.status.success() {
        crate::result::machinery(&format!("cannot build the clock shim: {}", String::from_utf8_lossy(&o.stderr)));
    }
    so
}

pub fn loaded() -> bool {
    unsafe { !libc::dlsym(libc::RTLD_DEFAULT, b"vt_clock_advance\0".as_ptr() as *const _).is_null() }
}

/// lets `secs` seconds of monotonic time pass at once
pub fn advance(secs: u64) {
    unsafe {
        let f = libc::dlsym(libc::RTLD_DEFAULT, b"vt_clock_advance\0".as_ptr() as *const _);
        if f.is_null() {
            crate::result::machinery("the clock shim is not loaded");
        }
        let f: extern "C" fn(libc::c_long) = std::mem::transmute(f);
        f(secs as libc::c_long);
    }
}

/// first call (shim not loaded): build the shim and replace this process by itself under LD_PRELOAD; second call: returns
/// the path of the shim (to be removed at the end)
pub fn reexec_under_shim(dir: &str) -> String {
    if loaded() {
        return std::env::var("VERIF_CLOCKSHIM").unwrap_or_default();
    }
    if std::env::var("VERIF_CLOCKSHIM").is_ok() {
        crate::result::machinery("the clock shim was preloaded but is not there");
    }
    let so = build(dir);
    let exe = std::env::current_exe().unwrap();
    let e = std::process::Command::new(exe).args(std::env::args_os().skip(1)).env("LD_PRELOAD", &so).env("VERIF_CLOCKSHIM", &so).exec();
    crate::result::machinery(&format!("cannot re-execute under the clock shim: {e}"))
}
