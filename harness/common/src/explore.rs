//! Small enumeration helpers shared by the engines.

/// all permutations of 0..n (Heap's algorithm), n small
pub fn permutations(n: usize) -> Vec<Vec<usize>> {
    fn rec(k: usize, a: &mut Vec<usize>, out: &mut Vec<Vec<usize>>) {
        if k <= 1 {
            out.push(a.clone());
            return;
        }
        for i in 0..k {
            rec(k - 1, a, out);
            if k % 2 == 0 {
                a.swap(i, k - 1);
            } else {
                a.swap(0, k - 1);
            }
        }
    }
    let mut a: Vec<usize> = (0..n).collect();
    let mut out = Vec::new();
    rec(n, &mut a, &mut out);
    out.sort();
    out.dedup();
    out
}

/// all subsets of 0..n with at most `max` elements, ordered by size then lexicographically
pub fn subsets_upto(n: usize, max: usize) -> Vec<Vec<usize>> {
    let mut out: Vec<Vec<usize>> = Vec::new();
    for mask in 0u32..(1u32 << n) {
        if (mask.count_ones() as usize) <= max {
            out.push((0..n).filter(|i| mask & (1 << i) != 0).collect());
        }
    }
    out.sort_by(|a, b| a.len().cmp(&b.len()).then(a.cmp(b)));
    out
}

/// all sequences over 0..k of length exactly n
pub fn sequences(k: usize, n: usize) -> Vec<Vec<usize>> {
    let mut out = vec![vec![]];
    for _ in 0..n {
        let mut next = Vec::with_capacity(out.len() * k);
        for s in &out {
            for c in 0..k {
                let mut t = s.clone();
                t.push(c);
                next.push(t);
            }
        }
        out = next;
    }
    out
}

/// mixed-radix counter: calls f with every index vector of the given dimensions
pub fn product(dims: &[usize], mut f: impl FnMut(&[usize])) {
    if dims.iter().any(|d| *d == 0) {
        return;
    }
    let mut idx = vec![0usize; dims.len()];
    loop {
        f(&idx);
        let mut i = dims.len();
        loop {
            if i == 0 {
                return;
            }
            i -= 1;
            idx[i] += 1;
            if idx[i] < dims[i] {
                break;
            }
            idx[i] = 0;
        }
    }
}

/// FNV-1a 64 for canonical state digests (deterministic across runs, unlike std's hasher)
pub fn fnv(data: &[u8]) -> u64 {
    let mut h: u64 = 0xcbf29ce484222325;
    for b in data {
        h ^= *b as u64;
        h = h.wrapping_mul(0x100000001b3);
    }
    h
}
