# property id -> how bin/check runs it. level = evidence level (EVIDENCE.schema.json).
CHECKS = {
    "C01": dict(engine="e2_mediation", bins=["e2_mediation"], level="exploration", ns=True, prebuild=["prebuild-ebpf"], tools=["unshare", "ip", "clang"]),
    "C03": dict(engine=[dict(exe="e1_rbac"), dict(exe="e2_mediation", ns=True)], bins=["e1_rbac", "e2_mediation"], level="exploration", prebuild=["prebuild-ebpf"], tools=["unshare", "ip", "clang"]),
    "C04": dict(engine=[dict(exe="e1_sig"), dict(exe="e2_headers", ns=True)], bins=["e1_sig", "e2_headers"], level="exploration", prebuild=["prebuild-ebpf"], tools=["unshare", "ip", "clang"]),
    "C05": dict(engine="e2_headers", bins=["e2_headers"], level="exploration", ns=True, prebuild=["prebuild-ebpf"], tools=["unshare", "ip", "clang"]),
    "C07": dict(engine="e2_attrib", bins=["e2_attrib"], level="model_checking", ns=True, prebuild=["prebuild-ebpf"], tools=["unshare", "ip", "clang"]),
    "C11": dict(engine="e2_audit", bins=["e2_audit"], level="exploration", ns=True, prebuild=["prebuild-ebpf"], tools=["unshare", "ip", "clang"]),
    "C14": dict(engine="e2_transparent", bins=["e2_transparent"], level="exploration", ns=True, prebuild=["prebuild-ebpf"], tools=["unshare", "ip", "clang"]),
    "C15": dict(engine="e2_transparent", bins=["e2_transparent"], level="exploration", ns=True, prebuild=["prebuild-ebpf"], tools=["unshare", "ip", "clang"]),
    "C20": dict(engine="e1_health", packages=["ext_harness"], bins=["e1_health"], level="model_checking"),
    "C19": dict(engine="e1_disk", bins=["e1_disk"], level="model_checking"),
    "C13": dict(engine="e2_nopanic", bins=["e2_nopanic"], level="exploration", ns=True, prebuild=["prebuild-ebpf"], tools=["unshare", "ip", "clang"]),
    "C10": dict(engine="e3_keysched", bins=["e3_keysched"], level="model_checking", ns=True, prebuild=["prebuild-ebpf"], tools=["unshare", "ip", "clang"]),
    "C16": dict(engine="e3_provision", bins=["e3_provision"], level="model_checking", ns=True, tools=["unshare", "ip"]),
    "C09": dict(engine="e5_keykeeper", bins=["e5_keykeeper"], level="model_checking", ns=True, prebuild=["prebuild-ebpf"], tools=["unshare", "ip", "clang"]),
    "C12": dict(engine="e5_leak", bins=["e5_leak"], level="exploration", ns=True, prebuild=["prebuild-ebpf"], tools=["unshare", "ip", "clang"]),
    "C02": dict(engine="e1_rbac", bins=["e1_rbac"], level="exploration"),
}
