# property id -> how bin/check runs it. level = evidence level (EVIDENCE.schema.json).
CHECKS = {
    "C02": dict(engine="e1_rbac", bins=["e1_rbac"], level="exploration"),
}
