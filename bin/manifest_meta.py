HOOKS = {
    "guard": "azure_guestproxyagent_verif",
    "enable": "the linked-source harness crate (harness/agent) sets --cfg azure_guestproxyagent_verif for itself through its build.rs; /repo's own build never sets it",
    "baseline_off_cmd": "bin/baseline",
    "source_commits": [],
    "add_only": True,
}
ENGINES = [
    {"name": "E1 enum", "path": "harness/agent/src/bin/e1_*.rs", "serves_properties": ["C02"],
     "kind_free_text": "in-process bounded-exhaustive enumeration of inputs/operation sequences on the real functions against an independent reference model"},
]
NOTES = "All checks go through bin/check, which relinks the harness crates to /repo's working tree and rebuilds before running. Exit 2 = machinery failure (never a verdict)."
NOT_APPLICABLE = {}
META = {
    "C02": dict(
        engine="E1 enum",
        design_ref="DESIGN.md section 4, C02",
        technique="bounded-exhaustive enumeration of rule documents (all list orderings) x callers x URLs on the real flatten+decide functions, against a reference transcribed from the statement",
        text="Every rule document built from fixed pools (<=2 resp. <=3 entries per section, sections optionally absent, dangling and duplicate names, upper-case paths/queries), in every ordering of every list, is flattened by the real from_authorization_item and decided by the real is_allowed for every caller and URL of the alphabet; each decision is compared with a 40-line reference written from the statement and all orderings of one document must agree. This is exhaustive within the alphabet, which has one representative per code-visible shortcut.",
        note="Alphabet-bounded: values outside the pools are not explored. std HashMap iteration order inside the subject cannot be owned; documents with >=2 privileges are re-flattened several times (sampled, labelled in the evidence). Documents defining a name twice: only order-independence is demanded.",
    ),
}
