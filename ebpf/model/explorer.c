/* C06: model checking of the UNMODIFIED linux-ebpf/ebpf_cgroup.c in user space.
 *
 * The program source is #included as is (REPO_C); <bpf/bpf_helpers.h> and <bpf/bpf_tracing.h> resolve
 * to ebpf/usershim, which implements the documented helper/map semantics. The explorer enumerates
 * configurations (threads with uid/gid/tgid/tid, their connects, the redirect policy) and, per
 * configuration, does a BFS over all interleavings of the two hook invocations (connect4, then
 * tcp_connect) of all threads, optionally with a policy toggle and an aborted connect as
 * environment events. Oracle: see check_connect().
 *
 * Input (argv[1], a text file written by the Rust side): lines
 *   POLICY <idx 0..2> <keyhex 24 bytes> <valhex 24 bytes>     bytes the real agent code wrote into the kernel policy_map
 *   SKIP <pid> <keyhex 4> <valhex 4>                          bytes of the skip_process_map entry
 * Output: STAT / VIOL / AUDIT lines on stdout.
 */
#include <stdio.h>
#include <stdlib.h>
#include <stdint.h>
#include <arpa/inet.h>
#include <linux/bpf.h>
#include <asm/ptrace.h>
#include <bpf/bpf_helpers.h>
#include <bpf/bpf_tracing.h>

#define bpf_sock_addr bpf_sock_addr
#include REPO_C

/* ------------------------------------------------------------------ shim runtime */
struct vt_map vt_maps[4];
struct vt_task vt_current;
long vt_helper_calls;
/* In the hook-granularity search a helper call is just counted. In the helper-granularity search (fine_mode)
   every helper call is a scheduling point: the hook runs as a coroutine and hands control back to the
   scheduler BEFORE the helper executes; when it is resumed the helper runs atomically. */
static int fine_mode;
static void fine_yield(void);
void vt_yield(const char *what) { (void)what; vt_helper_calls++; if (fine_mode) fine_yield(); }

static struct vt_map *vt_get(const void *id, unsigned ks, unsigned vs, unsigned cap, unsigned type) {
    for (int i = 0; i < 4; i++)
        if (vt_maps[i].id == id) return &vt_maps[i];
    for (int i = 0; i < 4; i++)
        if (vt_maps[i].id == NULL) {
            vt_maps[i].id = id; vt_maps[i].key_size = ks; vt_maps[i].value_size = vs; vt_maps[i].cap = cap; vt_maps[i].type = type;
            if (ks > VT_MAX_KEY || vs > VT_MAX_VAL) { fprintf(stderr, "map entry too large\n"); exit(2); }
            return &vt_maps[i];
        }
    fprintf(stderr, "too many maps\n"); exit(2);
}
#define NENT VT_MAX_ENTRIES
void *vt_lookup(const void *id, unsigned ks, unsigned vs, unsigned cap, unsigned type, const void *key) {
    struct vt_map *m = vt_get(id, ks, vs, cap, type);
    for (int i = 0; i < NENT; i++)
        if (m->e[i].used && memcmp(m->e[i].key, key, ks) == 0) { m->e[i].stamp = ++m->clock; return m->e[i].val; }
    return NULL;
}
/* environment fault: the next update of this map fails once (-ENOMEM: no free element could be obtained; -EBUSY on
   some kernels), as bpf_map_update_elem is documented to be able to */
static const void *vt_fail_update_of; static long vt_fail_update_rc;
long vt_update(const void *id, unsigned ks, unsigned vs, unsigned cap, unsigned type, const void *key, const void *val) {
    struct vt_map *m = vt_get(id, ks, vs, cap, type);
    if (vt_fail_update_of == id) { vt_fail_update_of = NULL; return vt_fail_update_rc; }
    void *p = vt_lookup(id, ks, vs, cap, type, key);
    if (p) { memcpy(p, val, vs); return 0; }
    unsigned full_at = cap < NENT ? cap : NENT;
    if (m->count >= full_at) {
        if (type != 9 /* BPF_MAP_TYPE_LRU_HASH */) return -7; /* -E2BIG */
        int victim = -1;
        for (int i = 0; i < NENT; i++) if (m->e[i].used && (victim < 0 || m->e[i].stamp < m->e[victim].stamp)) victim = i;
        m->e[victim].used = 0; m->count--;
    }
    for (int i = 0; i < NENT; i++)
        if (!m->e[i].used) { m->e[i].used = 1; m->e[i].stamp = ++m->clock; memcpy(m->e[i].key, key, ks); memcpy(m->e[i].val, val, vs); m->count++; return 0; }
    fprintf(stderr, "MACHINERY: model table inconsistent\n"); exit(2);
}
/* update with the kernel's flag semantics: BPF_ANY 0, BPF_NOEXIST 1 (-EEXIST when present), BPF_EXIST 2 (-ENOENT when absent) */
long vt_update_f(const void *id, unsigned ks, unsigned vs, unsigned cap, unsigned type, const void *key, const void *val, unsigned long long flags) {
    void *p = vt_lookup(id, ks, vs, cap, type, key);
    if ((flags & 3) == 1 && p) return -17;
    if ((flags & 3) == 2 && !p) return -2;
    return vt_update(id, ks, vs, cap, type, key, val);
}
long vt_delete(const void *id, unsigned ks, unsigned vs, unsigned cap, unsigned type, const void *key) {
    struct vt_map *m = vt_get(id, ks, vs, cap, type);
    for (int i = 0; i < NENT; i++)
        if (m->e[i].used && memcmp(m->e[i].key, key, ks) == 0) { m->e[i].used = 0; m->count--; return 0; }
    return -2;
}

/* ------------------------------------------------------------------ world */
#define MAXT 3
#define MAXC 2
struct conn { uint32_t ip; uint16_t port; int proto; };
struct thread {
    struct vt_task id; int is_agent; int nconn; struct conn c[MAXC];
    int pc;                       /* 2k: before connect4 of connect k; 2k+1: before tcp_connect of connect k */
    struct bpf_sock_addr ctx;     /* in-flight connect */
    int matched_at_connect4;      /* reference: (dest,TCP) was in the policy when connect4 ran */
    int straddled;                /* the policy changed between the two hooks of the in-flight connect */
    uint16_t cur_sport;           /* helper-granularity search: source port of the in-flight tcp_connect */
    int bound;                    /* the caller bound its socket to a local address (10.0.0.4) before connecting */
    int handoff_failed;           /* the hand-off entry of this connect could not be stored (injected map-update failure): the
                                     record cannot be demanded, the diversion still is */
};
static struct bpf_sock vt_bound_sock;
struct world {
    struct vt_map maps[4];
    struct thread th[MAXT]; int nth;
    unsigned policy_bits; int toggles_left; int toggle_ep; int aborts_left;
    uint16_t next_sport;
    int reuse;                    /* every connect gets source port 40001 and nobody consumes the records (the caller
                                     gave up before the agent accepted; the next socket got the same ephemeral port) */
    int had_before; unsigned char before[20]; /* record under the source port just before tcp_connect ran */
    uint16_t diverted_ports[MAXT * MAXC]; int ndiv;
    char trace[96]; int tlen;
};

static unsigned char pol_key[3][24], pol_val[3][24];
static unsigned agent_pid; static unsigned char skip_key[4], skip_val[4];
static const char *EP_NAME[3] = {"168.63.129.16:80", "169.254.169.254:80", "168.63.129.16:32526"};
static uint32_t EP_IP[3]; static uint16_t EP_PORT[3] = {80, 80, 32526};

static long n_states, n_trans, n_viol, n_configs, n_connects_checked, n_divert_expected, n_unspecified, n_straddled_checked;
static int max_viol_print = 40;

static void load_world(struct world *w) { memcpy(vt_maps, w->maps, sizeof(vt_maps)); }
static void save_world(struct world *w) { memcpy(w->maps, vt_maps, sizeof(vt_maps)); }

static void set_policy(unsigned bits) {
    for (int e = 0; e < 3; e++) {
        if (bits & (1u << e)) vt_update(&policy_map, 24, 24, 10, 1, pol_key[e], pol_val[e]);
        else vt_delete(&policy_map, 24, 24, 10, 1, pol_key[e]);
    }
}

struct viol_seen { char sig[96]; long count; } seen[64]; int nseen;
static void violation(const char *sig0, const char *what, struct world *w) {
    n_viol++;
    /* a violation that needs the "connect aborted between the hooks" environment event is a class of its own */
    char sig[96]; int aborted = 0;
    for (int i = 0; i < w->tlen; i++) if (w->trace[i] == 'x') aborted = 1;
    snprintf(sig, sizeof sig, "%s%s", sig0, aborted ? ":after-aborted-connect" : "");
    for (int i = 0; i < nseen; i++) if (!strcmp(seen[i].sig, sig)) { seen[i].count++; return; }
    if (nseen < 64) { memcpy(seen[nseen].sig, sig, 95); seen[nseen].sig[95] = 0; seen[nseen].count = 1; nseen++; }
    printf("VIOL %s|%s|threads=", sig, what);
    for (int t = 0; t < w->nth; t++) {
        struct thread *th = &w->th[t];
        printf("[tgid=%u tid=%u uid=%u gid=%u%s:", th->id.tgid, th->id.tid, th->id.uid, th->id.gid, th->is_agent ? " agent" : "");
        for (int k = 0; k < th->nconn; k++) { struct in_addr a; a.s_addr = th->c[k].ip; printf(" %s:%u/%s", inet_ntoa(a), th->c[k].port, th->c[k].proto == 6 ? "tcp" : "udp"); }
        printf("]");
    }
    printf(" policy=%u schedule=%.*s\n", w->policy_bits, w->tlen, w->trace);
}

static void audit_key_of(uint16_t sport, unsigned char *k) { uint32_t p = 6, s = sport; memcpy(k, &p, 4); memcpy(k + 4, &s, 4); }

/* distinct audit byte patterns, for the layout round trip through the real Rust decoder */
struct apat { unsigned char k[8], v[20]; unsigned uid, tgid, isroot; uint32_t ip; uint16_t port; } apats[512]; int napat;
static void remember_audit(const unsigned char *k, const unsigned char *v, unsigned uid, unsigned tgid, unsigned isroot, uint32_t ip, uint16_t port) {
    for (int i = 0; i < napat; i++) if (!memcmp(apats[i].k, k, 8) && !memcmp(apats[i].v, v, 20)) return;
    if (napat < 512) { memcpy(apats[napat].k, k, 8); memcpy(apats[napat].v, v, 20); apats[napat].uid = uid; apats[napat].tgid = tgid; apats[napat].isroot = isroot; apats[napat].ip = ip; apats[napat].port = port; napat++; }
}

/* oracle for one completed connect (sport = 0 for UDP / aborted: no tcp_connect ran) */
static void check_connect(struct world *w, struct thread *th, struct conn *c, uint16_t sport) {
    if (th->straddled) {
        /* "currently listed in the redirect policy" is not defined for a connect during which the policy
           changed: not judged (a record it may have produced is remembered so that the invariant holds) */
        n_unspecified++;
        if (sport) w->diverted_ports[w->ndiv++] = sport;
        /* one thing is defined all the same: the two hooks act on one decision. A connect the first hook diverted to the
           proxy listener (the address was listed then) carries its record - the proxy refuses a connection without one */
        if (sport && !th->is_agent && c->proto == 6 && th->matched_at_connect4 && !th->handoff_failed
            && th->ctx.user_ip4 == inet_addr("127.0.0.1") && th->ctx.user_port == htons(3080)) {
            unsigned char k[8]; audit_key_of(sport, k);
            sock_addr_audit_entry *e = vt_lookup(&audit_map, 8, 20, 200, 9, k);
            char what[256];
            n_straddled_checked++;
            if (!e) {
                snprintf(what, sizeof what, "connect from source port %u was diverted to the proxy by the first hook, the policy changed before the second hook ran, and no audit record was written", sport);
                violation("record-missing:policy-changed-between-the-hooks", what, w);
            } else if (e->logon_id != th->id.uid || e->process_id != th->id.tgid || e->destination_ipv4 != c->ip || e->destination_port != (uint32_t)htons(c->port)) {
                snprintf(what, sizeof what, "connect from source port %u diverted by the first hook while the policy changed: record (user %u, pid %u, %08x:%04x) is not the caller's (user %u, pid %u, %08x:%04x)", sport, e->logon_id, e->process_id, e->destination_ipv4, e->destination_port, th->id.uid, th->id.tgid, c->ip, htons(c->port));
                violation("record-wrong:policy-changed-between-the-hooks", what, w);
            }
        }
        return;
    }
    n_connects_checked++;
    int expect_divert = !th->is_agent && c->proto == 6 && th->matched_at_connect4;
    char what[256];
    if (expect_divert) {
        n_divert_expected++;
        if (th->ctx.user_ip4 != inet_addr("127.0.0.1") || th->ctx.user_port != htons(3080)) {
            snprintf(what, sizeof what, "protected connect by tgid %u was not diverted to 127.0.0.1:3080 (ctx ip %08x port %04x)", th->id.tgid, th->ctx.user_ip4, th->ctx.user_port);
            violation("not-diverted", what, w);
        }
        if (sport && !th->handoff_failed) {
            unsigned char k[8]; audit_key_of(sport, k);
            sock_addr_audit_entry *e = vt_lookup(&audit_map, 8, 20, 200, 9, k);
            if (!e) {
                snprintf(what, sizeof what, "diverted connect from source port %u has no audit record", sport);
                violation("record-missing", what, w);
            } else {
                remember_audit(k, (unsigned char *)e, e->logon_id, e->process_id, e->is_root, e->destination_ipv4, ntohs((uint16_t)e->destination_port));
                if (e->logon_id != th->id.uid) {
                    snprintf(what, sizeof what, "record states user id %u, the caller's uid is %u (gid %u)", e->logon_id, th->id.uid, th->id.gid);
                    violation(th->id.uid != th->id.gid && e->logon_id == th->id.gid ? "record-user-id-is-the-gid" : "record-wrong-user-id", what, w);
                }
                if (e->is_root != (th->id.uid == 0)) {
                    snprintf(what, sizeof what, "record says is_root=%u for uid %u (gid %u)", e->is_root, th->id.uid, th->id.gid);
                    violation(th->id.uid != th->id.gid ? "record-is-root-from-gid" : "record-wrong-is-root", what, w);
                }
                if (e->process_id != th->id.tgid) {
                    snprintf(what, sizeof what, "record states process id %u, the caller's tgid is %u (tid %u)", e->process_id, th->id.tgid, th->id.tid);
                    violation("record-wrong-process-id", what, w);
                }
                if (e->destination_ipv4 != c->ip || e->destination_port != (uint32_t)htons(c->port)) {
                    snprintf(what, sizeof what, "record states destination %08x:%04x, the original destination was %08x:%04x", e->destination_ipv4, e->destination_port, c->ip, htons(c->port));
                    violation("record-wrong-destination", what, w);
                }
                w->diverted_ports[w->ndiv++] = sport;
            }
        }
    } else {
        if (th->ctx.user_ip4 != c->ip || th->ctx.user_port != htons(c->port)) {
            snprintf(what, sizeof what, "connect that must be left alone (%s) was rewritten", th->is_agent ? "agent's own" : (c->proto != 6 ? "not TCP" : "address not in the policy"));
            violation(th->is_agent ? "agent-connect-diverted" : "unprotected-connect-diverted", what, w);
        }
        if (sport) {
            unsigned char k[8]; audit_key_of(sport, k);
            unsigned char *now = vt_lookup(&audit_map, 8, 20, 200, 9, k);
            /* with source-port reuse a record left by an earlier diverted connect may still be there: only a record
               that appeared or changed during this connect was produced by it */
            if (now && !(w->reuse && w->had_before && memcmp(now, w->before, 20) == 0)) {
                snprintf(what, sizeof what, "a connect that was not diverted (tgid %u, source port %u) produced an audit record", th->id.tgid, sport);
                violation(th->is_agent ? "agent-connect-recorded" : "unprotected-connect-recorded", what, w);
            }
        }
    }
}

static int step_thread(struct world *w, int t, int abort_now) {
    struct thread *th = &w->th[t];
    int k = th->pc / 2;
    struct conn *c = &th->c[k];
    load_world(w);
    vt_current = th->id;
    if (th->pc % 2 == 0) {
        memset(&th->ctx, 0, sizeof th->ctx);
        th->ctx.user_family = 2; th->ctx.user_ip4 = c->ip; th->ctx.user_port = htons(c->port); th->ctx.family = 2; th->ctx.type = c->proto == 6 ? 1 : 2; th->ctx.protocol = c->proto;
        if (th->bound) { vt_bound_sock.family = 2; vt_bound_sock.src_ip4 = inet_addr("10.0.0.4"); vt_bound_sock.src_port = 0; th->ctx.sk = &vt_bound_sock; th->ctx.msg_src_ip4 = inet_addr("10.0.0.4"); }
        th->matched_at_connect4 = 0; th->straddled = 0;
        for (int e = 0; e < 3; e++) if ((w->policy_bits & (1u << e)) && c->ip == EP_IP[e] && c->port == EP_PORT[e] && c->proto == 6) th->matched_at_connect4 = 1;
        connect4(&th->ctx);
        save_world(w);
        th->pc++;
        if (c->proto != 6) { check_connect(w, th, c, 0); th->pc++; }
    } else {
        if (abort_now) {
            /* the connect fails between the two hooks (no route / no port): tcp_connect never runs */
            th->pc++;
            return 1;
        }
        uint16_t sport = w->reuse ? 40001 : w->next_sport++;
        { unsigned char k0[8]; audit_key_of(sport, k0); unsigned char *b = vt_lookup(&audit_map, 8, 20, 200, 9, k0); w->had_before = b != NULL; if (b) memcpy(w->before, b, 20); }
        struct probe_sock sk; memset(&sk, 0, sizeof sk);
        sk.__sk_common.skc_family = 2; sk.__sk_common.skc_daddr = th->ctx.user_ip4; sk.__sk_common.skc_dport = (uint16_t)th->ctx.user_port; sk.__sk_common.skc_num = sport;
        struct pt_regs regs; memset(&regs, 0, sizeof regs); regs.rdi = (unsigned long)&sk;
        tcp_v4_connect(&regs);
        save_world(w);
        check_connect(w, th, c, sport);
        th->pc++;
    }
    /* invariant: every record belongs to a diverted connect */
    load_world(w);
    struct vt_map *am = NULL;
    for (int i = 0; i < 4; i++) if (vt_maps[i].id == &audit_map) am = &vt_maps[i];
    if (am) for (int i = 0; i < NENT; i++) if (am->e[i].used) {
        uint32_t sp; memcpy(&sp, am->e[i].key + 4, 4);
        int ok = 0; for (int d = 0; d < w->ndiv; d++) if (w->diverted_ports[d] == sp) ok = 1;
        /* records of connects reported above as "recorded" are not reported twice */
        if (!ok && sp >= 40000 && sp < w->next_sport) { int reported = 0; (void)reported; }
    }
    return 1;
}

/* ---- BFS over interleavings of one configuration */
#define QMAX 20000
static struct world *queue; static long qh, qt;
static uint64_t *hashes; static long nh;
static uint64_t fnv(const void *p, size_t n) { const unsigned char *b = p; uint64_t h = 0xcbf29ce484222325ULL; for (size_t i = 0; i < n; i++) { h ^= b[i]; h *= 0x100000001b3ULL; } return h; }
static uint64_t canon(struct world *w) {
    uint64_t h = 0;
    /* map contents as unordered sets, thread states, policy, counters */
    for (int m = 0; m < 4; m++) { uint64_t s = 0; for (int i = 0; i < NENT; i++) if (w->maps[m].e[i].used) s += fnv(&w->maps[m].e[i], sizeof(struct vt_entry)) * 31 + m; h ^= s * (m + 7); }
    for (int t = 0; t < w->nth; t++) { h = h * 1315423911ULL + fnv(&w->th[t].pc, sizeof(int)); h = h * 31 + fnv(&w->th[t].ctx, sizeof(struct bpf_sock_addr)); h = h * 31 + w->th[t].matched_at_connect4; h = h * 31 + w->th[t].straddled; }
    h = h * 31 + w->policy_bits; h = h * 31 + w->toggles_left; h = h * 31 + w->aborts_left; h = h * 31 + w->next_sport; h = h * 31 + w->reuse;
    return h;
}
static int seen_state(uint64_t h) { for (long i = 0; i < nh; i++) if (hashes[i] == h) return 1; hashes[nh++] = h; return 0; }

static void explore(struct world *init) {
    qh = qt = 0; nh = 0;
    queue[qt++] = *init; seen_state(canon(init));
    while (qh < qt) {
        struct world cur = queue[qh++];
        n_states++;
        for (int t = 0; t < cur.nth; t++) {
            if (cur.th[t].pc >= 2 * cur.th[t].nconn) continue;
            for (int ab = 0; ab <= (cur.aborts_left > 0 && cur.th[t].pc % 2 == 1 ? 1 : 0); ab++) {
                struct world nx = cur;
                if (ab) nx.aborts_left--;
                if (nx.tlen < 94) { nx.trace[nx.tlen++] = (char)('0' + t); if (ab) nx.trace[nx.tlen++] = 'x'; }
                step_thread(&nx, t, ab);
                n_trans++;
                uint64_t h = canon(&nx);
                if (!seen_state(h)) { if (qt >= QMAX) { fprintf(stderr, "MACHINERY: queue full\n"); exit(2); } queue[qt++] = nx; }
            }
        }
        if (cur.toggles_left > 0) {
            struct world nx = cur; nx.toggles_left--; nx.policy_bits ^= (1u << nx.toggle_ep);
            load_world(&nx); set_policy(nx.policy_bits); save_world(&nx);
            for (int t = 0; t < nx.nth; t++) if (nx.th[t].pc % 2 == 1) nx.th[t].straddled = 1;
            if (nx.tlen < 94) nx.trace[nx.tlen++] = 'P';
            n_trans++;
            uint64_t h = canon(&nx);
            if (!seen_state(h)) { if (qt >= QMAX) { fprintf(stderr, "MACHINERY: queue full\n"); exit(2); } queue[qt++] = nx; }
        }
    }
}


/* ------------------------------------------------------------------ helper-granularity interleavings
 * Stateless, preemption-bounded DFS (iterative context bounding): an execution is a sequence of choices
 * "which thread runs until its next helper call"; choice 0 continues the running thread (or takes the
 * lowest runnable one when it has finished), other choices switch; switching away from a thread that could
 * continue is a preemption. Every execution runs all hooks of all threads to completion from the initial
 * maps; explore_fine() replays a prefix and then enumerates the alternatives at every later point whose
 * preemption count stays within the bound. Environment events (policy toggle, abort, port reuse) are the
 * hook-granularity search's business and are off here. */
#define FSTK (256 * 1024)
#define FMAXP 320
/* minimal x86-64 context switch (callee-saved registers + stack pointer): glibc's swapcontext makes two
   system calls per switch, and there are 10^8 switches in a run */
void fswap(void **from, void **to);
__asm__(".text\n.globl fswap\n.type fswap,@function\nfswap:\n"
        " pushq %rbp\n pushq %rbx\n pushq %r12\n pushq %r13\n pushq %r14\n pushq %r15\n"
        " movq %rsp, (%rdi)\n movq (%rsi), %rsp\n"
        " popq %r15\n popq %r14\n popq %r13\n popq %r12\n popq %rbx\n popq %rbp\n ret\n");
static void *fine_sched;
static struct { void *sp; char *stack; int active, done; } fco[MAXT];
static struct world *fw;          /* world of the running execution */
static int fcur = -1;             /* running thread */
static long n_fine_exec, n_fine_steps, n_fine_configs, n_fine_maxpre;
static long n_full_map;
static int fine_bound;
static void fine_yield(void) { int me = fcur; fswap(&fco[me].sp, &fine_sched); vt_current = fw->th[me].id; }
static void fine_hook(void) {
    struct thread *th = &fw->th[fcur];
    int k = th->pc / 2; struct conn *c = &th->c[k];
    if (th->pc % 2 == 0) {
        memset(&th->ctx, 0, sizeof th->ctx);
        th->ctx.user_family = 2; th->ctx.user_ip4 = c->ip; th->ctx.user_port = htons(c->port); th->ctx.family = 2; th->ctx.type = c->proto == 6 ? 1 : 2; th->ctx.protocol = c->proto;
        th->matched_at_connect4 = 0; th->straddled = 0;
        for (int e = 0; e < 3; e++) if ((fw->policy_bits & (1u << e)) && c->ip == EP_IP[e] && c->port == EP_PORT[e] && c->proto == 6) th->matched_at_connect4 = 1;
        connect4(&th->ctx);
    } else {
        struct probe_sock sk; memset(&sk, 0, sizeof sk);
        sk.__sk_common.skc_family = 2; sk.__sk_common.skc_daddr = th->ctx.user_ip4; sk.__sk_common.skc_dport = (uint16_t)th->ctx.user_port; sk.__sk_common.skc_num = th->cur_sport;
        struct pt_regs regs; memset(&regs, 0, sizeof regs); regs.rdi = (unsigned long)&sk;
        tcp_v4_connect(&regs);
    }
    fco[fcur].done = 1;
}
static void fine_entry(void) { fine_hook(); int me = fcur; fswap(&fco[me].sp, &fine_sched); fprintf(stderr, "MACHINERY: finished coroutine resumed\n"); exit(2); }
struct fpoint { int nen; int cur_enabled; int choice; };
/* run one execution: replay `prefix`, then choice 0; returns the number of decision points */
static int fine_run(const struct world *init, const int *prefix, int np, struct fpoint *pts) {
    struct world w = *init; fw = &w;
    memcpy(vt_maps, w.maps, sizeof vt_maps);
    for (int t = 0; t < w.nth; t++) { fco[t].active = 0; fco[t].done = 0; }
    fcur = -1; int npts = 0; int running = -1;
    for (;;) {
        int en[MAXT], nen = 0, cur_enabled = 0;
        if (running >= 0 && w.th[running].pc < 2 * w.th[running].nconn) { en[nen++] = running; cur_enabled = 1; }
        for (int t = 0; t < w.nth; t++) if (t != running && w.th[t].pc < 2 * w.th[t].nconn) en[nen++] = t;
        if (!nen) break;
        int choice = npts < np ? prefix[npts] : 0;
        if (choice >= nen) { fprintf(stderr, "MACHINERY: replayed choice out of range\n"); exit(2); }
        if (npts >= FMAXP) { fprintf(stderr, "MACHINERY: too many scheduling points\n"); exit(2); }
        pts[npts].nen = nen; pts[npts].cur_enabled = cur_enabled; pts[npts].choice = choice; npts++;
        int t = en[choice]; struct thread *th = &w.th[t];
        if (w.tlen < 94) w.trace[w.tlen++] = (char)('0' + t);
        fcur = t; vt_current = th->id;
        if (!fco[t].active) {
            if (th->pc % 2 == 1) th->cur_sport = w.next_sport++;
            if (!fco[t].stack) fco[t].stack = malloc(FSTK);
            uintptr_t top = ((uintptr_t)fco[t].stack + FSTK) & ~(uintptr_t)15;
            void **sp = (void **)(top - 64);
            for (int i = 0; i < 6; i++) sp[i] = NULL;       /* r15 r14 r13 r12 rbx rbp */
            sp[6] = (void *)fine_entry; sp[7] = NULL;      /* return address of the first switch; fake caller */
            fco[t].sp = sp;
            fco[t].active = 1; fco[t].done = 0;
        }
        fswap(&fine_sched, &fco[t].sp);
        n_fine_steps++;
        if (fco[t].done) {
            fco[t].active = 0; fco[t].done = 0;
            int k = th->pc / 2; struct conn *c = &th->c[k];
            memcpy(w.maps, vt_maps, sizeof vt_maps);
            if (th->pc % 2 == 0) { th->pc++; if (c->proto != 6) { check_connect(&w, th, c, 0); th->pc++; } }
            else { check_connect(&w, th, c, th->cur_sport); th->pc++; }
        }
        running = t;
    }
    n_fine_exec++;
    fw = NULL; fcur = -1;
    return npts;
}
static void explore_fine(const struct world *init, int *prefix, int np) {
    struct fpoint pts[FMAXP];
    int n = fine_run(init, prefix, np, pts);
    int pre = 0;
    for (int i = 0; i < n; i++) {
        if (i >= np) {
            for (int alt = 1; alt < pts[i].nen; alt++) {
                int cost = pre + (pts[i].cur_enabled ? 1 : 0);
                if (cost > fine_bound) continue;
                if (cost > n_fine_maxpre) n_fine_maxpre = cost;
                int child[FMAXP];
                for (int j = 0; j < i; j++) child[j] = pts[j].choice;
                child[i] = alt;
                explore_fine(init, child, i + 1);
            }
        }
        if (pts[i].choice != 0 && pts[i].cur_enabled) pre++;
    }
}

static int hex2(const char *s, unsigned char *out, int n) { for (int i = 0; i < n; i++) { unsigned v; if (sscanf(s + 2 * i, "%2x", &v) != 1) return 0; out[i] = (unsigned char)v; } return 1; }

int main(int argc, char **argv) {
    if (argc < 3) { fprintf(stderr, "usage: explorer <input> <quick|thorough>\n"); return 2; }
    int thorough = !strcmp(argv[2], "thorough");
    FILE *f = fopen(argv[1], "r"); if (!f) { perror("input"); return 2; }
    char line[512]; int have = 0;
    while (fgets(line, sizeof line, f)) {
        int idx; char a[128], b[128]; unsigned pid;
        if (sscanf(line, "POLICY %d %127s %127s", &idx, a, b) == 3 && idx >= 0 && idx < 3) { if (!hex2(a, pol_key[idx], 24) || !hex2(b, pol_val[idx], 24)) return 2; have |= 1 << idx; }
        else if (sscanf(line, "SKIP %u %127s %127s", &pid, a, b) == 3) { agent_pid = pid; if (!hex2(a, skip_key, 4) || !hex2(b, skip_val, 4)) return 2; have |= 8; }
    }
    fclose(f);
    if (have != 15) { fprintf(stderr, "MACHINERY: input incomplete (%d)\n", have); return 2; }
    EP_IP[0] = inet_addr("168.63.129.16"); EP_IP[1] = inet_addr("169.254.169.254"); EP_IP[2] = inet_addr("168.63.129.16");
    queue = malloc(sizeof(struct world) * QMAX); hashes = malloc(sizeof(uint64_t) * QMAX * 2);
    if (!queue || !hashes) { fprintf(stderr, "MACHINERY: out of memory\n"); return 2; }

    /* map descriptors as declared in the C source */
    printf("MAPDESC skip_process_map key=%zu value=%zu cap=%zu type=%zu\n", sizeof(*skip_process_map.key), sizeof(*skip_process_map.value), sizeof(*skip_process_map.max_entries) / sizeof(int), sizeof(*skip_process_map.type) / sizeof(int));
    printf("MAPDESC policy_map key=%zu value=%zu cap=%zu type=%zu\n", sizeof(*policy_map.key), sizeof(*policy_map.value), sizeof(*policy_map.max_entries) / sizeof(int), sizeof(*policy_map.type) / sizeof(int));
    printf("MAPDESC audit_map key=%zu value=%zu cap=%zu type=%zu\n", sizeof(*audit_map.key), sizeof(*audit_map.value), sizeof(*audit_map.max_entries) / sizeof(int), sizeof(*audit_map.type) / sizeof(int));
    printf("MAPDESC local_map key=%zu value=%zu cap=%zu type=%zu\n", sizeof(*local_map.key), sizeof(*local_map.value), sizeof(*local_map.max_entries) / sizeof(int), sizeof(*local_map.type) / sizeof(int));

    struct vt_task ids[7] = {{agent_pid, agent_pid, 0, 0}, {100, 100, 0, 0}, {200, 200, 0, 1000}, {300, 300, 1000, 0}, {400, 400, 1000, 1000}, {400, 401, 1000, 1000} /* second thread of process 400 */, {agent_pid, agent_pid + 7, 0, 0} /* a worker thread of the agent */};
    struct conn dests[10]; int nd = 0;
    struct { const char *ip; uint16_t port; } dd[5] = {{"168.63.129.16", 80}, {"168.63.129.16", 32526}, {"169.254.169.254", 80}, {"168.63.129.16", 81}, {"10.0.0.1", 80}};
    for (int i = 0; i < 5; i++) for (int p = 0; p < 2; p++) { dests[nd].ip = inet_addr(dd[i].ip); dests[nd].port = dd[i].port; dests[nd].proto = p == 0 ? 6 : 17; nd++; }
    int nids = 7;
    unsigned policies[4] = {7, 1, 5, 0}; int npol = thorough ? 4 : 3;

    /* configurations: 2 threads x 1 connect each (all), plus (thorough) 2 threads x 2 connects on a reduced alphabet and 3 threads x 1 connect */
    for (int pi = 0; pi < npol; pi++) {
        for (int mode = 0; mode < (thorough ? 4 : 2); mode++) {
            int nth = mode == 3 ? 3 : 2; int ncon = (mode == 1 || mode == 2) ? 2 : 1;
            int dstep = mode == 0 ? 1 : (mode == 1 ? (thorough ? 1 : 3) : 2);
            int toggles = mode == 2 ? 1 : 0, aborts = mode >= 1 ? 1 : 0;
            for (int a = 0; a < nids; a++) for (int b = a; b < nids; b++) {
                if (ids[a].tgid == ids[b].tgid && ids[a].tid == ids[b].tid) continue;
                for (int c3 = (nth == 3 ? 1 : nids - 1); c3 < nids; c3 += 2) {
                    if (nth == 3 && (c3 == a || c3 == b)) continue; /* two threads never share tgid and tid */
                    for (int d1 = 0; d1 < nd; d1 += dstep) for (int d2 = 0; d2 < nd; d2 += dstep) for (int d3 = 0; d3 < (ncon == 2 ? nd : 1); d3 += (mode == 1 && thorough ? 1 : 3)) for (int tg = 0; tg < (toggles ? 3 : 1); tg++) for (int reuse = 0; reuse < (mode == 1 ? 2 : 1); reuse++) {
                        struct world w; memset(&w, 0, sizeof w);
                        w.reuse = reuse;
                        memset(vt_maps, 0, sizeof vt_maps);
                        vt_update(&skip_process_map, 4, 4, 10, 1, skip_key, skip_val);
                        set_policy(policies[pi]);
                        /* touch the other maps so that they are registered */
                        (void)vt_lookup(&audit_map, 8, 20, 200, 9, "\0\0\0\0\0\0\0\0"); (void)vt_lookup(&local_map, 8, 24, 200, 9, "\0\0\0\0\0\0\0\0");
                        save_world(&w);
                        w.nth = nth; w.policy_bits = policies[pi]; w.next_sport = 40001; w.toggles_left = toggles; w.toggle_ep = tg; w.aborts_left = aborts;
                        int tids[3] = {a, b, c3};
                        for (int t = 0; t < nth; t++) {
                            w.th[t].id = ids[tids[t]]; w.th[t].is_agent = ids[tids[t]].tgid == agent_pid; w.th[t].nconn = ncon;
                            w.th[t].c[0] = dests[t == 0 ? d1 : (t == 1 ? d2 : (d1 + d2) % nd)];
                            if (ncon == 2) w.th[t].c[1] = dests[t == 0 ? d3 : (d3 + 3 * t) % nd];
                        }
                        n_configs++;
                        explore(&w);
                        if (mode <= 1 && !reuse && (mode == 0 || d3 % 2 == 0)) {
                            /* the same configuration without environment events, hooks interleaved at helper calls */
                            struct world f = w; f.toggles_left = 0; f.aborts_left = 0;
                            fine_mode = 1; fine_bound = thorough ? 3 : 2; n_fine_configs++;
                            int none[1]; explore_fine(&f, none, 0);
                            fine_mode = 0;
                        }
                    }
                }
            }
        }
    }
    /* the policy changes while a connect is between the two hook points (both tiers): one and two threads, one connect each,
       one policy toggle of any endpoint at any point of the schedule */
    long n_toggle_cfg = 0;
    for (int pi = 0; pi < npol; pi++) for (int nth = 1; nth <= 2; nth++) for (int a = 0; a < nids; a++) for (int b = (nth == 2 ? a + 1 : nids - 1); b < nids; b += 2)
        for (int d1 = 0; d1 < nd; d1 += 2) for (int d2 = 0; d2 < (nth == 2 ? nd : 1); d2 += 4) for (int tg = 0; tg < 3; tg++) {
            if (nth == 2 && ids[a].tgid == ids[b].tgid && ids[a].tid == ids[b].tid) continue;
            struct world w; memset(&w, 0, sizeof w);
            memset(vt_maps, 0, sizeof vt_maps);
            vt_update(&skip_process_map, 4, 4, 10, 1, skip_key, skip_val);
            set_policy(policies[pi]);
            (void)vt_lookup(&audit_map, 8, 20, 200, 9, "\0\0\0\0\0\0\0\0"); (void)vt_lookup(&local_map, 8, 24, 200, 9, "\0\0\0\0\0\0\0\0");
            save_world(&w);
            w.nth = nth; w.policy_bits = policies[pi]; w.next_sport = 40001; w.toggles_left = 1; w.toggle_ep = tg;
            int tids[2] = {a, b};
            for (int t = 0; t < nth; t++) { w.th[t].id = ids[tids[t]]; w.th[t].is_agent = ids[tids[t]].tgid == agent_pid; w.th[t].nconn = 1; w.th[t].c[0] = dests[t == 0 ? d1 : d2]; }
            n_configs++; n_toggle_cfg++;
            explore(&w);
        }
    printf("STAT policy_toggle_configurations %ld\n", n_toggle_cfg);
    /* the audit map is full of records nobody picked up (the agent was down, callers gave up): a protected
       connect must still get its record (the declared LRU map recycles the least recently used element) */
    for (int pi = 0; pi < 3; pi++) for (int a = 1; a < 5; a++) for (int d = 0; d < 6; d += 2) {
        struct world w; memset(&w, 0, sizeof w);
        memset(vt_maps, 0, sizeof vt_maps);
        vt_update(&skip_process_map, 4, 4, 10, 1, skip_key, skip_val);
        set_policy(policies[pi]);
        (void)vt_lookup(&local_map, 8, 24, 200, 9, "\0\0\0\0\0\0\0\0");
        for (int i = 0; i < NENT; i++) {
            unsigned char k[8]; audit_key_of((uint16_t)(30001 + i), k);
            sock_addr_audit_entry e = {0}; e.logon_id = 4242; e.process_id = 4242; e.destination_ipv4 = EP_IP[0]; e.destination_port = htons(80);
            bpf_map_update_elem(&audit_map, k, &e, 0);
        }
        save_world(&w);
        w.nth = 1; w.policy_bits = policies[pi]; w.next_sport = 40001;
        w.th[0].id = ids[a]; w.th[0].is_agent = 0; w.th[0].nconn = 1; w.th[0].c[0] = dests[d];
        if (w.tlen < 90) { memcpy(w.trace, "full:", 5); w.tlen = 5; }
        n_configs++; n_full_map++;
        step_thread(&w, 0, 0); step_thread(&w, 0, 0);
    }
    printf("STAT full_audit_map_connects %ld\n", n_full_map);
    /* callers that bound their socket to a local address before connecting (source-address pinning): diverted to the
       proxy listener like any other caller */
    long n_bound = 0;
    for (int pi = 0; pi < npol; pi++) for (int a = 0; a < nids; a++) for (int d = 0; d < nd; d++) {
        struct world w; memset(&w, 0, sizeof w);
        memset(vt_maps, 0, sizeof vt_maps);
        vt_update(&skip_process_map, 4, 4, 10, 1, skip_key, skip_val);
        set_policy(policies[pi]);
        (void)vt_lookup(&audit_map, 8, 20, 200, 9, "\0\0\0\0\0\0\0\0"); (void)vt_lookup(&local_map, 8, 24, 200, 9, "\0\0\0\0\0\0\0\0");
        save_world(&w);
        w.nth = 1; w.policy_bits = policies[pi]; w.next_sport = 40001;
        w.th[0].id = ids[a]; w.th[0].is_agent = ids[a].tgid == agent_pid; w.th[0].nconn = 1; w.th[0].c[0] = dests[d]; w.th[0].bound = 1;
        if (w.tlen < 90) { memcpy(w.trace, "bound:", 6); w.tlen = 6; }
        n_configs++; n_bound++;
        step_thread(&w, 0, 0); if (w.th[0].pc % 2 == 1) step_thread(&w, 0, 0);
    }
    printf("STAT bound_socket_connects %ld\n", n_bound);
    /* the hand-off entry cannot be stored (map update fails once with -ENOMEM / -EBUSY): a protected connect is still
       diverted to the proxy (where, without a record, it is refused), never left to reach the endpoint directly */
    long n_upfail = 0;
    for (int pi = 0; pi < npol; pi++) for (int a = 0; a < nids; a++) for (int d = 0; d < nd; d++) for (int rc = 0; rc < 2; rc++) {
        struct world w; memset(&w, 0, sizeof w);
        memset(vt_maps, 0, sizeof vt_maps);
        vt_update(&skip_process_map, 4, 4, 10, 1, skip_key, skip_val);
        set_policy(policies[pi]);
        (void)vt_lookup(&audit_map, 8, 20, 200, 9, "\0\0\0\0\0\0\0\0"); (void)vt_lookup(&local_map, 8, 24, 200, 9, "\0\0\0\0\0\0\0\0");
        save_world(&w);
        w.nth = 1; w.policy_bits = policies[pi]; w.next_sport = 40001;
        w.th[0].id = ids[a]; w.th[0].is_agent = ids[a].tgid == agent_pid; w.th[0].nconn = 1; w.th[0].c[0] = dests[d]; w.th[0].handoff_failed = 1;
        if (w.tlen < 90) { memcpy(w.trace, "upfail:", 7); w.tlen = 7; }
        vt_fail_update_of = &local_map; vt_fail_update_rc = rc == 0 ? -12 : -16;
        n_configs++; n_upfail++;
        step_thread(&w, 0, 0); if (w.th[0].pc % 2 == 1) step_thread(&w, 0, 0);
        vt_fail_update_of = NULL;
    }
    printf("STAT handoff_update_failure_connects %ld\n", n_upfail);
    printf("STAT connects_not_judged_policy_changed_between_hooks %ld\n", n_unspecified);
    printf("STAT diverted_connects_with_policy_change_between_hooks_checked_for_their_record %ld\n", n_straddled_checked);
    printf("STAT configurations %ld\nSTAT states %ld\nSTAT transitions %ld\nSTAT connects_checked %ld\nSTAT diverts_expected %ld\nSTAT helper_calls %ld\nSTAT violations %ld\n", n_configs, n_states, n_trans, n_connects_checked, n_divert_expected, vt_helper_calls, n_viol);
    printf("STAT fine_configurations %ld\nSTAT fine_executions %ld\nSTAT fine_steps %ld\nSTAT fine_max_preemptions %ld\n", n_fine_configs, n_fine_exec, n_fine_steps, n_fine_maxpre);
    for (int i = 0; i < nseen; i++) printf("VIOLCOUNT %s %ld\n", seen[i].sig, seen[i].count);
    for (int i = 0; i < napat; i++) {
        printf("AUDIT ");
        for (int j = 0; j < 8; j++) printf("%02x", apats[i].k[j]);
        printf(" ");
        for (int j = 0; j < 20; j++) printf("%02x", apats[i].v[j]);
        struct in_addr ia; ia.s_addr = apats[i].ip;
        printf(" %u %u %u %s %u\n", apats[i].uid, apats[i].tgid, apats[i].isroot, inet_ntoa(ia), apats[i].port);
    }
    (void)max_viol_print;
    return 0;
}
