/* Minimal stand-in for libbpf's bpf_helpers.h (libbpf-dev is not installed in the sandbox).
 * Definitions of SEC/__uint/__type/__always_inline and the helper prototypes are the ones of
 * libbpf (helper ids from include/uapi/linux/bpf.h). Used only to compile the UNMODIFIED
 * linux-ebpf/ebpf_cgroup.c for the bpf target so that aya can create its maps in the kernel. */
#ifndef __VERIF_BPF_HELPERS_H
#define __VERIF_BPF_HELPERS_H
#ifndef NULL
#define NULL ((void *)0)
#endif
#define SEC(name) __attribute__((section(name), used))
#define __uint(name, val) int (*name)[val]
#define __type(name, val) typeof(val) *name
#define __array(name, val) typeof(val) *name[]
#ifndef __always_inline
#define __always_inline inline __attribute__((always_inline))
#endif
static void *(*bpf_map_lookup_elem)(void *map, const void *key) = (void *)1;
static long (*bpf_map_update_elem)(void *map, const void *key, const void *value, __u64 flags) = (void *)2;
static long (*bpf_map_delete_elem)(void *map, const void *key) = (void *)3;
static long (*bpf_probe_read)(void *dst, __u32 size, const void *unsafe_ptr) = (void *)4;
static long (*bpf_trace_printk)(const char *fmt, __u32 fmt_size, ...) = (void *)6;
static __u64 (*bpf_get_current_pid_tgid)(void) = (void *)14;
static __u64 (*bpf_get_current_uid_gid)(void) = (void *)15;
static __u64 (*bpf_get_socket_cookie)(void *ctx) = (void *)46;
#define bpf_printk(fmt, ...) ({ char ____fmt[] = fmt; bpf_trace_printk(____fmt, sizeof(____fmt), ##__VA_ARGS__); })
#endif
