/* User-space implementation of the BPF helper / map semantics that linux-ebpf/ebpf_cgroup.c uses,
 * so that the UNMODIFIED program can be compiled natively and model-checked (C06).
 * SEC/__uint/__type are defined exactly like libbpf, so each map declaration is a descriptor
 * from which key size, value size, type and capacity are read. Semantics follow bpf-helpers(7):
 *   bpf_get_current_pid_tgid() = tgid << 32 | tid
 *   bpf_get_current_uid_gid()  = gid  << 32 | uid
 *   map lookup/update/delete: hash maps; LRU maps never reach capacity in the explored space
 *   (asserted), so eviction order is not modelled. */
#ifndef VT_USER_BPF_HELPERS_H
#define VT_USER_BPF_HELPERS_H
#include <string.h>
#include <stddef.h>
#define SEC(name)
#define __uint(name, val) int (*name)[val]
#define __type(name, val) typeof(val) *name
#ifndef __always_inline
#define __always_inline inline __attribute__((always_inline))
#endif

#define VT_MAX_ENTRIES 16
#define VT_MAX_KEY 32
#define VT_MAX_VAL 32
struct vt_entry { unsigned char used; unsigned char key[VT_MAX_KEY]; unsigned char val[VT_MAX_VAL]; };
struct vt_map { const void *id; unsigned key_size, value_size, cap, type; unsigned count; struct vt_entry e[VT_MAX_ENTRIES]; };
struct vt_task { unsigned tgid, tid, uid, gid; };

extern struct vt_map vt_maps[4];
extern struct vt_task vt_current;
extern long vt_helper_calls;
void *vt_lookup(const void *id, unsigned ks, unsigned vs, unsigned cap, unsigned type, const void *key);
long vt_update(const void *id, unsigned ks, unsigned vs, unsigned cap, unsigned type, const void *key, const void *val);
long vt_delete(const void *id, unsigned ks, unsigned vs, unsigned cap, unsigned type, const void *key);
void vt_yield(const char *what);

#define VT_DESC(m) (const void *)(m), sizeof(*(m)->key), sizeof(*(m)->value), (unsigned)(sizeof(*(m)->max_entries) / sizeof(int)), (unsigned)(sizeof(*(m)->type) / sizeof(int))
#define bpf_map_lookup_elem(m, k) (vt_yield("lookup"), vt_lookup(VT_DESC(m), (k)))
long vt_update_f(const void *id, unsigned ks, unsigned vs, unsigned cap, unsigned type, const void *key, const void *val, unsigned long long flags);
#define bpf_map_update_elem(m, k, v, f) (vt_yield("update"), vt_update_f(VT_DESC(m), (k), (v), (f)))
#define bpf_map_delete_elem(m, k) (vt_yield("delete"), vt_delete(VT_DESC(m), (k)))
#define bpf_probe_read(dst, size, src) (vt_yield("probe_read"), memcpy((dst), (src), (size)), 0L)
#define bpf_get_current_pid_tgid() (vt_yield("pid_tgid"), (((__u64)vt_current.tgid) << 32 | vt_current.tid))
#define bpf_get_current_uid_gid() (vt_yield("uid_gid"), (((__u64)vt_current.gid) << 32 | vt_current.uid))
#define bpf_get_socket_cookie(ctx) (vt_yield("cookie"), (__u64)0)
#define bpf_printk(fmt, ...) ((void)0)
#endif
