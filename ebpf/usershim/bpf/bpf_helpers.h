/* User-space implementation of the BPF helper / map semantics that linux-ebpf/ebpf_cgroup.c uses,
 * so that the UNMODIFIED program can be compiled natively and model-checked (C06).
 * SEC/__uint/__type are defined exactly like libbpf, so each map declaration is a descriptor
 * from which key size, value size, type and capacity are read. Semantics follow bpf-helpers(7):
 *   bpf_get_current_pid_tgid() = tgid << 32 | tid
 *   bpf_get_current_uid_gid()  = gid  << 32 | uid
 *   map lookup/update/delete: preallocated hash maps; a deleted element's memory stays readable and is handed
 *   to the next insert (lowest free slot); a full BPF_MAP_TYPE_HASH rejects a new key with -E2BIG, a full
 *   BPF_MAP_TYPE_LRU_HASH evicts the least recently used element (lookup and update count as use). The model's
 *   table holds VT_MAX_ENTRIES elements: a map is full at min(max_entries, VT_MAX_ENTRIES). */
#ifndef VT_USER_BPF_HELPERS_H
#define VT_USER_BPF_HELPERS_H
#include <string.h>
#include <stddef.h>
#define SEC(name)
#define __uint(name, val) int (*name)[val]
#define __type(name, val) typeof(val) *name
#ifndef __always_inline
#define __always_inline inline __attribute__((always_inline))
#endif

#define VT_MAX_ENTRIES 16
#define VT_MAX_KEY 32
#define VT_MAX_VAL 32
struct vt_entry { unsigned char used; unsigned stamp; unsigned char key[VT_MAX_KEY]; unsigned char val[VT_MAX_VAL]; };
struct vt_map { const void *id; unsigned key_size, value_size, cap, type; unsigned count; unsigned clock; struct vt_entry e[VT_MAX_ENTRIES]; };
struct vt_task { unsigned tgid, tid, uid, gid; };

extern struct vt_map vt_maps[4];
extern struct vt_task vt_current;
extern long vt_helper_calls;
void *vt_lookup(const void *id, unsigned ks, unsigned vs, unsigned cap, unsigned type, const void *key);
long vt_update(const void *id, unsigned ks, unsigned vs, unsigned cap, unsigned type, const void *key, const void *val);
long vt_delete(const void *id, unsigned ks, unsigned vs, unsigned cap, unsigned type, const void *key);
void vt_yield(const char *what);

#define VT_DESC(m) (const void *)(m), sizeof(*(m)->key), sizeof(*(m)->value), (unsigned)(sizeof(*(m)->max_entries) / sizeof(int)), (unsigned)(sizeof(*(m)->type) / sizeof(int))
/* map helpers are scheduling points on both edges: another CPU may act between the helper returning and the
   code that uses its result (a value pointer stays valid memory after a delete, and may be handed to the next insert) */
#define bpf_map_lookup_elem(m, k) ({ vt_yield("lookup"); void *vt_r_ = vt_lookup(VT_DESC(m), (k)); vt_yield("after-lookup"); vt_r_; })
long vt_update_f(const void *id, unsigned ks, unsigned vs, unsigned cap, unsigned type, const void *key, const void *val, unsigned long long flags);
#define bpf_map_update_elem(m, k, v, f) ({ vt_yield("update"); long vt_r_ = vt_update_f(VT_DESC(m), (k), (v), (f)); vt_yield("after-update"); vt_r_; })
#define bpf_map_delete_elem(m, k) ({ vt_yield("delete"); long vt_r_ = vt_delete(VT_DESC(m), (k)); vt_yield("after-delete"); vt_r_; })
#define bpf_probe_read(dst, size, src) (vt_yield("probe_read"), memcpy((dst), (src), (size)), 0L)
#define bpf_get_current_pid_tgid() (vt_yield("pid_tgid"), (((__u64)vt_current.tgid) << 32 | vt_current.tid))
#define bpf_get_current_uid_gid() (vt_yield("uid_gid"), (((__u64)vt_current.gid) << 32 | vt_current.uid))
#define bpf_get_socket_cookie(ctx) (vt_yield("cookie"), (__u64)0)
#define bpf_printk(fmt, ...) ((void)0)
#endif
