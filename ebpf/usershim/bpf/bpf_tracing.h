/* BPF_KPROBE for the native build: first argument in ctx->rdi (x86-64), as libbpf's PT_REGS_PARM1 */
#ifndef VT_USER_BPF_TRACING_H
#define VT_USER_BPF_TRACING_H
#define BPF_KPROBE(name, args...)                                              \
name(struct pt_regs *ctx);                                                     \
static __always_inline typeof(name(0)) ____##name(struct pt_regs *ctx, ##args);\
typeof(name(0)) name(struct pt_regs *ctx)                                      \
{                                                                              \
    return ____##name(ctx, (void *)(ctx)->rdi);                                \
}                                                                              \
static __always_inline typeof(name(0)) ____##name(struct pt_regs *ctx, ##args)
#endif
